"""Obligations, evidence files, known findings, exit codes."""

from __future__ import annotations

import json
import os
import time
from dataclasses import dataclass, field, asdict
from typing import Dict, List, Optional

VERIF = os.path.dirname(os.path.dirname(os.path.abspath(__file__)))
KNOWN_FINDINGS = os.path.join(VERIF, "known_findings.json")

DISCHARGED = "discharged"
VIOLATED = "violated"
UNDECIDED = "undecided"
EXEMPT = "exempt"
INFO = "info"


@dataclass
class Obligation:
    rule: str
    construct: str
    verdict: str
    detail: str = ""
    loc: str = ""
    witness: Optional[str] = None

    def key(self):
        return (self.rule, self.construct)


@dataclass
class RuleStat:
    rule: str
    description: str
    instances: int = 0
    floor: int = 0  # hand-confirmed instance count on the pinned tree
    warnings: List[str] = field(default_factory=list)


class Report:
    def __init__(self, property_id: str, tier: str = "quick"):
        self.property_id = property_id
        self.tier = tier
        self.obligations: List[Obligation] = []
        self.rules: Dict[str, RuleStat] = {}
        self.analysed: Dict[str, object] = {}
        self.assumptions: List[str] = []
        self.notes: List[str] = []
        self.t0 = time.time()

    # ------------------------------------------------------------------ rules
    def rule(self, rule: str, description: str, floor: int = 0) -> RuleStat:
        rs = self.rules.get(rule)
        if rs is None:
            rs = self.rules[rule] = RuleStat(rule, description, 0, floor)
        return rs

    def add(self, rule, construct, verdict, detail="", loc="", witness=None) -> Obligation:
        ob = Obligation(rule, construct, verdict, detail, loc, witness)
        self.obligations.append(ob)
        rs = self.rules.get(rule)
        if rs is None:
            rs = self.rule(rule, "")
        if verdict != INFO:
            rs.instances += 1
        return ob

    def ok(self, rule, construct, detail="", loc=""):
        return self.add(rule, construct, DISCHARGED, detail, loc)

    def violation(self, rule, construct, detail="", loc="", witness=None):
        return self.add(rule, construct, VIOLATED, detail, loc, witness)

    def undecided(self, rule, construct, detail="", loc=""):
        return self.add(rule, construct, UNDECIDED, detail, loc)

    def exempt(self, rule, construct, detail="", loc=""):
        return self.add(rule, construct, EXEMPT, detail, loc)

    def info(self, rule, construct, detail="", loc=""):
        return self.add(rule, construct, INFO, detail, loc)

    def assume(self, text):
        if text not in self.assumptions:
            self.assumptions.append(text)

    # -------------------------------------------------------------- finishing
    def finish_vacuity(self):
        """Counts below the hand-confirmed floor are warnings, not verdicts."""
        for rs in self.rules.values():
            if rs.floor and rs.instances < rs.floor:
                rs.warnings.append(
                    f"instances {rs.instances} below the hand-confirmed floor {rs.floor} (refactoring?)"
                )

    def violations(self) -> List[Obligation]:
        return [o for o in self.obligations if o.verdict == VIOLATED]


def load_known() -> List[dict]:
    if not os.path.exists(KNOWN_FINDINGS):
        return []
    with open(KNOWN_FINDINGS) as fd:
        data = json.load(fd)
    return data.get("findings", [])


def split_known(report: Report):
    """(unknown violations, known-open violations)"""
    known = [
        k for k in load_known()
        if k.get("property") == report.property_id and k.get("status") == "open"
    ]
    keys = {(k["rule"], k["construct"]): k for k in known}
    new, old = [], []
    for v in report.violations():
        if v.key() in keys:
            old.append((v, keys[v.key()]))
        else:
            new.append(v)
    return new, old


def write_evidence(report: Report, level: str, explanation: str, checker_cmd: str,
                   trusted_base: List[str], seed: int, extra: Optional[dict] = None) -> str:
    report.finish_vacuity()
    obs = report.obligations
    counted = [o for o in obs if o.verdict != INFO]
    n_dis = sum(1 for o in counted if o.verdict in (DISCHARGED, EXEMPT))
    new, old = split_known(report)
    samples = []
    # a few of each verdict so a reader sees what obligations look like
    seen = {}
    for o in obs:
        k = (o.rule, o.verdict)
        if seen.get(k, 0) < 2:
            seen[k] = seen.get(k, 0) + 1
            samples.append(asdict(o))
    coverage = {
        "explanation": explanation,
        "obligations": len(counted),
        "discharged": n_dis,
        "undecided": sum(1 for o in counted if o.verdict == UNDECIDED),
        "violated": sum(1 for o in counted if o.verdict == VIOLATED),
        "known_findings_matched": len(old),
        "checker_cmd": checker_cmd,
        "trusted_base": trusted_base,
        "evaluations": max(1, len(counted)),
        "distinct_nontrivial": max(2, len({o.key() for o in counted})),
        "rule": "one obligation per (rule, construct); distinct = distinct (rule, construct) pairs, all are non-trivial (each names a code construct)",
        "samples": samples[:40] or [{"note": "no obligations"}],
        "rules": {
            r.rule: {"description": r.description, "instances": r.instances,
                     "floor": r.floor, "warnings": r.warnings}
            for r in report.rules.values()
        },
        "analysed": report.analysed,
        "all_obligations": [asdict(o) for o in obs],
        "notes": report.notes,
        "exhaustive": False,
    }
    if extra:
        coverage.update(extra)
    ev = {
        "property_id": report.property_id,
        "tier": report.tier,
        "seed": seed,
        "level": level,
        "coverage": coverage,
        "assumptions": report.assumptions,
        "wall_s": round(time.time() - report.t0, 3),
        "violations": len(new),
    }
    path = os.path.join(VERIF, "evidence", f"{report.property_id}.json")
    os.makedirs(os.path.dirname(path), exist_ok=True)
    tmp = path + ".tmp"
    with open(tmp, "w") as fd:
        json.dump(ev, fd, indent=1, default=str)
    os.replace(tmp, path)
    return path
