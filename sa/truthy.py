"""E10 -- "falsy zero" analysis.

A *value slot* (loop/subcircuit count, register index, macro argument, let value,
S-expression argument, semantic value of a numeric grammar symbol) can legitimately
hold the number 0.  Testing such a value by truthiness (``if x``, ``not x``,
``x or default``, ``x and ..``, ``bool(x)``) conflates 0 with "absent".

The analysis is a flow-insensitive may-hold-a-number propagation:

* sources come from a per-scope configuration (attribute names, production values,
  S-expression arguments, maps with numeric values);
* values propagate through assignments, tuple unpacking, iteration, conditional
  expressions, a list of pass-through calls, and -- interprocedurally, inside the
  analysed function set -- through parameters and return values;
* sinks are the truthiness positions.

Comparisons (``x is None``, ``x == ""``, ``x > 0``), isinstance tests and calls in
general are not sinks and do not propagate.
"""

from __future__ import annotations

import ast
from dataclasses import dataclass, field
from typing import Callable, Dict, Iterable, List, Optional, Set, Tuple

from .cfg import walk_no_nested
from .index import FuncInfo, Index

COARSE = "the S-expression arguments"
NOT_SINK_CALLS = {"isinstance", "hasattr", "callable", "issubclass", "len", "any", "all"}


@dataclass
class Config:
    # attribute names whose value is a slot, whatever the receiver
    attrs: Set[str] = field(default_factory=set)
    # (class qualname, attr) slots that need a typed receiver
    typed_attrs: Set[Tuple[str, str]] = field(default_factory=set)
    # attribute names that hold a *container* of slots (e.g. SExpression.args)
    container_attrs: Set[str] = field(default_factory=set)
    # names / self-attributes that are maps whose *values* are slots
    map_names: Set[str] = field(default_factory=set)
    # attribute names that are maps whose values are slots (e.g. GateStatement.parameters)
    map_attrs: Set[str] = field(default_factory=set)
    # calls f(x, ..) / obj.f(x, ..) that return their first argument's value (or a slot)
    passthrough: Set[str] = field(default_factory=set)
    # calls whose result is a slot whatever the arguments
    slot_calls: Set[str] = field(default_factory=set)
    # extra per-function sources: qualname -> predicate(node) -> bool
    func_sources: Dict[str, Callable[[ast.AST], bool]] = field(default_factory=dict)
    # parameters that are slots: (qualname, param)
    param_slots: Set[Tuple[str, str]] = field(default_factory=set)
    container_pred: Optional[Callable] = None
    typed_map_attrs: Set[Tuple[str, str]] = field(default_factory=set)


@dataclass
class Hit:
    func: FuncInfo
    node: ast.AST  # the tested expression
    why: str  # kind of truthiness position
    origin: str  # how the expression got to be a slot


def truth_positions(fnode) -> List[Tuple[ast.AST, str]]:
    out: List[Tuple[ast.AST, str]] = []
    seen = set()

    def pos(e, why):
        if isinstance(e, ast.UnaryOp) and isinstance(e.op, ast.Not):
            pos(e.operand, why)
            return
        if isinstance(e, ast.BoolOp):
            for v in e.values:
                pos(v, why)
            return
        if isinstance(e, ast.Compare):
            return
        if isinstance(e, ast.Call) and isinstance(e.func, ast.Name) and e.func.id in NOT_SINK_CALLS:
            return
        if id(e) not in seen:
            seen.add(id(e))
            out.append((e, why))

    for n in walk_no_nested(fnode):
        if isinstance(n, (ast.If, ast.While)):
            pos(n.test, "if/while test")
        elif isinstance(n, ast.IfExp):
            pos(n.test, "conditional-expression test")
        elif isinstance(n, ast.Assert):
            pos(n.test, "assert")
        elif isinstance(n, ast.comprehension):
            for i in n.ifs:
                pos(i, "comprehension filter")
        elif isinstance(n, ast.BoolOp):
            for v in n.values[:-1]:
                pos(v, "`or`/`and` operand")
        elif isinstance(n, ast.UnaryOp) and isinstance(n.op, ast.Not):
            pos(n.operand, "`not` operand")
        elif isinstance(n, ast.Call) and isinstance(n.func, ast.Name) and n.func.id == "bool" and n.args:
            pos(n.args[0], "bool()")
        elif isinstance(n, ast.Call) and isinstance(n.func, ast.Name) and n.func.id == "filter" and len(n.args) == 2 and isinstance(n.args[0], ast.Constant) and n.args[0].value is None:
            out.append((n.args[1], "filter(None, ..) elements"))
    return out


class FalsyZero:
    def __init__(self, ix: Index, typer, funcs: Iterable[FuncInfo], cfg: Config):
        self.ix, self.T, self.cfg = ix, typer, cfg
        self.funcs = list(dict.fromkeys(funcs))
        self.q = {f.qualname for f in self.funcs}
        self.slots: Dict[str, Dict[str, str]] = {f.qualname: {} for f in self.funcs}  # name -> origin
        self.conts: Dict[str, Dict[str, str]] = {f.qualname: {} for f in self.funcs}  # container names
        self.ret_slot: Dict[str, str] = {}
        for (q, p) in cfg.param_slots:
            if q in self.slots:
                self.slots[q][p] = f"parameter {p}"
        self._fix()

    # ------------------------------------------------------------ expression kinds
    def _is_map(self, f, e) -> bool:
        c = self.cfg
        if isinstance(e, ast.Name) and e.id in c.map_names:
            return True
        if isinstance(e, ast.Attribute):
            if isinstance(e.value, ast.Name) and e.value.id == "self" and e.attr in c.map_names:
                return True
            if e.attr in c.map_attrs:
                return True
            if c.typed_map_attrs:
                ts = self.T.expr_types.get(id(e.value)) or ()
                if ts and all((t, e.attr) in c.typed_map_attrs for t in ts):
                    return True
        return False

    def cont_origin(self, f, e) -> Optional[str]:
        c = self.cfg
        if isinstance(e, ast.Name) and e.id in self.conts[f.qualname]:
            return self.conts[f.qualname][e.id]
        if isinstance(e, ast.Attribute) and e.attr in c.container_attrs:
            return f"`{ast.unparse(e)}`"
        if isinstance(e, ast.Attribute) and c.container_pred is not None and c.container_pred(f, e):
            return f"{COARSE} `{ast.unparse(e)}`"
        if isinstance(e, ast.Call) and isinstance(e.func, ast.Name) and e.func.id in ("list", "tuple", "deque", "reversed", "sorted") and e.args:
            return self.cont_origin(f, e.args[0])
        if isinstance(e, ast.Subscript) and isinstance(e.slice, ast.Slice):
            return self.cont_origin(f, e.value)
        if isinstance(e, ast.Call) and isinstance(e.func, ast.Attribute) and e.func.attr == "values" and self._is_map(f, e.func.value):
            return f"values of `{ast.unparse(e.func.value)}`"
        return None

    def slot_origin(self, f, e) -> Optional[str]:
        """Why the value of ``e`` itself may be a number held by a value slot (None if it may not)."""
        c = self.cfg
        fs = c.func_sources.get(f.qualname)
        if fs is not None and fs(e):
            return f"`{ast.unparse(e)}`"
        if isinstance(e, ast.Name):
            return self.slots[f.qualname].get(e.id)
        if isinstance(e, ast.Attribute):
            if e.attr in c.attrs:
                return f"`{ast.unparse(e)}`"
            if c.typed_attrs:
                ts = self.T.expr_types.get(id(e.value)) or ()
                if ts and all((t, e.attr) in c.typed_attrs for t in ts):
                    return f"`{ast.unparse(e)}`"
            return None
        if isinstance(e, ast.Subscript):
            if isinstance(e.slice, ast.Slice):
                return None
            o = self.cont_origin(f, e.value)
            if o:
                return f"an element of {o}"
            if self._is_map(f, e.value):
                return f"a value of the map `{ast.unparse(e.value)}`"
            return None
        if isinstance(e, ast.IfExp):
            return self.slot_origin(f, e.body) or self.slot_origin(f, e.orelse)
        if isinstance(e, ast.BoolOp):
            for v in e.values:
                o = self.slot_origin(f, v)
                if o:
                    return o
            return None
        if isinstance(e, ast.NamedExpr):
            return self.slot_origin(f, e.value)
        if isinstance(e, ast.Call):
            fn = e.func
            nm = fn.id if isinstance(fn, ast.Name) else fn.attr if isinstance(fn, ast.Attribute) else None
            if nm in c.slot_calls:
                return f"the result of `{nm}()`"
            if nm in c.passthrough and e.args:
                return self.slot_origin(f, e.args[0])
            if isinstance(fn, ast.Attribute) and fn.attr in ("get", "pop", "setdefault") and self._is_map(f, fn.value):
                return f"a value of the map `{ast.unparse(fn.value)}`"
            # interprocedural: a callee inside the set that returns a slot
            for cs in self.T.callsites(f):
                if cs.node is e:
                    for t in cs.targets:
                        if t.qualname in self.ret_slot:
                            return f"the result of {t.name}() ({self.ret_slot[t.qualname]})"
            return None
        return None

    # ------------------------------------------------------------ propagation
    def _targets(self, t) -> List[ast.AST]:
        if isinstance(t, (ast.Tuple, ast.List)):
            out = []
            for e in t.elts:
                out += self._targets(e)
            return out
        return [t]

    def _fix(self):
        changed = True
        rounds = 0
        while changed and rounds < 20:
            changed = False
            rounds += 1
            for f in self.funcs:
                S, C = self.slots[f.qualname], self.conts[f.qualname]

                def add(d, name, origin):
                    nonlocal changed
                    if name not in d:
                        d[name] = origin
                        changed = True

                def assign(target, value):
                    if isinstance(target, (ast.Tuple, ast.List)):
                        # unpacking a container of slots / a tuple display
                        co = self.cont_origin(f, value)
                        if isinstance(value, (ast.Tuple, ast.List)) and len(value.elts) == len(target.elts):
                            for t, v in zip(target.elts, value.elts):
                                assign(t, v)
                            return
                        if co:
                            for t in target.elts:
                                if isinstance(t, ast.Starred):
                                    if isinstance(t.value, ast.Name):
                                        add(C, t.value.id, co)
                                elif isinstance(t, ast.Name):
                                    add(S, t.id, f"an element of {co}")
                        return
                    if not isinstance(target, ast.Name):
                        return
                    so = self.slot_origin(f, value)
                    if so:
                        add(S, target.id, so)
                    co = self.cont_origin(f, value)
                    if co:
                        add(C, target.id, co)

                for n in walk_no_nested(f.node):
                    if isinstance(n, ast.Assign):
                        for t in n.targets:
                            assign(t, n.value)
                    elif isinstance(n, ast.AnnAssign) and n.value is not None:
                        assign(n.target, n.value)
                    elif isinstance(n, ast.NamedExpr):
                        assign(n.target, n.value)
                    elif isinstance(n, (ast.For, ast.comprehension)):
                        it = n.iter
                        co = self.cont_origin(f, it)
                        if co:
                            for t in self._targets(n.target):
                                if isinstance(t, ast.Name):
                                    add(S, t.id, f"an element of {co}")
                        # for k, v in map.items()
                        if isinstance(it, ast.Call) and isinstance(it.func, ast.Attribute) and it.func.attr == "items" and self._is_map(f, it.func.value):
                            if isinstance(n.target, (ast.Tuple, ast.List)) and len(n.target.elts) == 2 and isinstance(n.target.elts[1], ast.Name):
                                add(S, n.target.elts[1].id, f"a value of the map `{ast.unparse(it.func.value)}`")
                    elif isinstance(n, ast.Return) and n.value is not None:
                        so = self.slot_origin(f, n.value)
                        if so and f.qualname not in self.ret_slot:
                            self.ret_slot[f.qualname] = so
                            changed = True
                # calls into the set: bind arguments (never through visitor dispatch: the handler is
                # chosen by the argument's class, and a number reaches none of the typed handlers)
                for cs in self.T.callsites(f):
                    if not isinstance(cs.node, ast.Call) or cs.kind not in ("function", "method", "constructor", "builder"):
                        continue
                    if any(isinstance(a, ast.Starred) for a in cs.node.args):
                        continue
                    for t in cs.targets:
                        if t.qualname not in self.q:
                            continue
                        params = t.params
                        if t.cls is not None and not t.is_staticmethod and params:
                            params = params[1:]
                        if len(cs.node.args) > len(params) and t.node.args.vararg is None:
                            continue  # duck-typed target whose signature does not fit this call
                        TS, TC = self.slots[t.qualname], self.conts[t.qualname]

                        def crosses(origin):
                            # coarse origins (any S-expression argument) stay inside their module
                            return t.module == f.module or COARSE not in origin

                        for i, a in enumerate(cs.node.args):
                            if i >= len(params):
                                break
                            so = self.slot_origin(f, a)
                            if so and params[i] not in TS and crosses(so):
                                TS[params[i]] = f"argument `{ast.unparse(a)}` of {f.name}() ({so})"
                                changed = True
                            co = self.cont_origin(f, a)
                            if co and params[i] not in TC and crosses(co):
                                TC[params[i]] = co
                                changed = True
                        for k in cs.node.keywords:
                            if k.arg and k.arg in t.params:
                                so = self.slot_origin(f, k.value)
                                if so and k.arg not in TS and crosses(so):
                                    TS[k.arg] = f"argument `{ast.unparse(k.value)}` of {f.name}() ({so})"
                                    changed = True

    # ------------------------------------------------------------ sinks
    def hits(self) -> List[Hit]:
        out = []
        for f in self.funcs:
            for e, why in truth_positions(f.node):
                if why.startswith("filter"):
                    o = self.cont_origin(f, e)
                    if o:
                        out.append(Hit(f, e, why, f"elements of {o}"))
                    continue
                o = self.slot_origin(f, e)
                if o:
                    out.append(Hit(f, e, why, o))
        return out

    def n_positions(self) -> int:
        return sum(len(truth_positions(f.node)) for f in self.funcs)
