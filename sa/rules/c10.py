"""C10 -- passes commute, are idempotent, keep circuits legal (decided clauses)."""

from __future__ import annotations

import ast

from ..index import AnalysisError
from ..cfg import CFG, walk_no_nested, iter_stmts
from ..fieldflow import FuncFlow, names_in
from .common import visitor_transformer, check_field_flow, construct_of, cls_construct, position_visited, check_changed_flag
from . import c04, c05

MOD_MAP = "jaqalpaq.core.algorithm.fill_in_map"
PARSER = "jaqalpaq.parser.parser"
BLOCK = "jaqalpaq.core.block.BlockStatement"
LOOP = "jaqalpaq.core.block.LoopStatement"
GATE = "jaqalpaq.core.gate.GateStatement"
CIRCUIT = "jaqalpaq.core.circuit.Circuit"
QUBIT = "jaqalpaq.core.register.NamedQubit"
MACRO = "jaqalpaq.core.macro.Macro"

R = "every pass must preserve what the other passes (and the generator) consume"

PASS_FUNCS = {
    "expand_macros": "jaqalpaq.core.algorithm.expand_macros.expand_macros",
    "fill_in_let": "jaqalpaq.core.algorithm.fill_in_let.fill_in_let",
    "fill_in_map": "jaqalpaq.core.algorithm.fill_in_map.fill_in_map",
}
FLAG_OF = {"expand_macros": {"expand_macro"}, "fill_in_map": {"expand_let_map"}, "fill_in_let": {"expand_let", "expand_let_map"}}


def run(ctx, rep):
    ix, T = ctx.ix, ctx.typer
    from .common import check_mapfiller_macro_arguments
    check_mapfiller_macro_arguments(ctx, rep, "C10.13")
    from .common import check_recursion_guard
    check_recursion_guard(ctx, rep, "C10.12", ['jaqalpaq.core.algorithm.expand_macros.expand_macros', 'jaqalpaq.core.algorithm.fill_in_let.fill_in_let', 'jaqalpaq.core.algorithm.fill_in_map.fill_in_map', 'jaqalpaq.core.algorithm.expand_subcircuits.expand_subcircuits', 'jaqalpaq.core.algorithm.unit_timing.normalize_blocks_with_unitary_timing'], ("jaqalpaq.emulator.pygsti", "jaqalpaq.ipc", "jaqalpaq._cli", "jaqalpaq.qsyntax"))
    from .common import check_shadowed_register_names
    check_shadowed_register_names(ctx, rep, "C10.11")
    from .common import check_symbolic_qubits_left_alone
    check_symbolic_qubits_left_alone(ctx, rep, "C10.10")
    from .common import check_macro_table_lookup
    check_macro_table_lookup(ctx, rep, "C10.9")
    from .common import check_fast_paths, check_coercion
    check_coercion(ctx, rep, "C10.8", {"jaqalpaq.core.algorithm.expand_macros", "jaqalpaq.core.algorithm.fill_in_map", "jaqalpaq.core.algorithm.expand_subcircuits", "jaqalpaq.core.algorithm.unit_timing"})
    _fp_mods = ["jaqalpaq.core.algorithm.fill_in_map", "jaqalpaq.core.algorithm.expand_macros", "jaqalpaq.core.algorithm.expand_subcircuits"]
    check_fast_paths(ctx, rep, "C10.7", [f for f in ix.functions.values() if f.module in _fp_mods and (f.cls is None or T.is_visitor(f.cls))], {"jaqalpaq.core.algorithm.expand_subcircuits.expand_subcircuits": {"body", "macros"}})
    from .common import check_falsy_zero
    check_falsy_zero(ctx, rep, "C10.6", ['jaqalpaq.core.algorithm.fill_in_map', 'jaqalpaq.core.algorithm.expand_subcircuits', 'jaqalpaq.parser.parser'], floor_positions=5)
    rep.assume("visitor convention: the first parameter of visit_<K> has static type K")

    # ------------------------------------------------------------ C10.1
    rep.rule("C10.1", "parser flags guard exactly the explicit composition of the passes", floor=4)
    f = ix.func(f"{PARSER}.parse_jaqal_string")
    fl = FuncFlow(ix, T, f)
    cfg = CFG(f.body)
    calls = {}
    for cs in T.callsites(f):
        for name, q in PASS_FUNCS.items():
            if any(t.qualname == q for t in cs.targets) and isinstance(cs.node, ast.Call):
                calls.setdefault(name, []).append(cs.node)
    returned = set()
    for st in iter_stmts(f.body):
        if isinstance(st, ast.Return) and st.value is not None:
            returned |= names_in(st.value)
    for name in PASS_FUNCS:
        cons = construct_of(f, f"flag:{name}")
        if name not in calls:
            rep.violation("C10.1", cons, f"parse_jaqal_string never applies {name}: the {sorted(FLAG_OF[name])} flag has no effect", f.loc())
            continue
        flags_seen = set()
        bad = []
        for call in calls[name]:
            tests = fl.control_tests(call)
            tnames = set()
            for t in tests:
                tnames |= names_in(t)
            flags_seen |= tnames & FLAG_OF[name]
            if not (tnames & FLAG_OF[name]):
                bad.append((call, "is not guarded by its flag"))
            # the pass is applied to, and replaces, the running circuit value
            st = fl.enclosing_stmt(call)
            tgt = None
            if isinstance(st, ast.Assign) and len(st.targets) == 1 and isinstance(st.targets[0], ast.Name):
                tgt = st.targets[0].id
            arg0 = call.args[0] if call.args else None
            if tgt is None or tgt not in returned or not (isinstance(arg0, ast.Name) and arg0.id == tgt):
                bad.append((call, "its result does not replace the circuit that is returned"))
            if name == "fill_in_let":
                forwarded = any(k.arg == "override_dict" and names_in(k.value) & {"override_dict"} for k in call.keywords) or (
                    len(call.args) > 1 and names_in(call.args[1]) & {"override_dict"})
                if not forwarded:
                    bad.append((call, "override_dict is not forwarded"))
        if name == "fill_in_let" and flags_seen != FLAG_OF[name]:
            bad.append((calls[name][0], f"let substitution is not applied under {sorted(FLAG_OF[name] - flags_seen)}"))
        if bad:
            call, why = bad[0]
            rep.violation("C10.1", cons, f"{name}: {why}", f"{f.path}:{call.lineno}")
        else:
            rep.ok("C10.1", cons, f"guarded by {sorted(flags_seen)}; applied to and replacing the running circuit", f"{f.path}:{calls[name][0].lineno}")
    # an override dictionary is never dropped silently: without a let-expanding flag it is rejected
    cons = construct_of(f, "override-never-ignored")
    guard_o = None
    for st in iter_stmts(f.body):
        if isinstance(st, ast.If) and any(isinstance(x, ast.Raise) for x in st.body):
            tn = names_in(st.test)
            outer = fl.control_tests(st)
            on = set(tn)
            for t in outer:
                on |= names_in(t)
            if "override_dict" in on and ({"expand_let", "expand_let_map"} & on):
                guard_o = st
    if guard_o is not None:
        rep.ok("C10.1", cons, f"`{ast.unparse(guard_o.test)}` raises when an override is given but no let-expanding flag is set", f"{f.path}:{guard_o.lineno}")
    else:
        rep.violation("C10.1", cons, "parse_jaqal_string(text, override_dict=..) without expand_let/expand_let_map accepts the dictionary and ignores it: the circuit is built (and later executed) with the declared values, with no error or warning", f.loc(), witness="parse_jaqal_string('let n 3 ...', override_dict={'n': 1})")
    # order and selection, decided by evaluating the flag tests over all 8 flag assignments: under
    # expand_let_map let substitution runs and alias fill-in follows it; each pass runs exactly under its flag(s)
    cons = construct_of(f, "order:let-before-map")
    FLAGS = ("expand_macro", "expand_let", "expand_let_map")

    def ev(t, env):
        if isinstance(t, ast.Name) and t.id in env:
            return env[t.id]
        if isinstance(t, ast.UnaryOp) and isinstance(t.op, ast.Not):
            v = ev(t.operand, env)
            return None if v is None else (not v)
        if isinstance(t, ast.BoolOp):
            vals = [ev(v, env) for v in t.values]
            if any(v is None for v in vals):
                return None
            return all(vals) if isinstance(t.op, ast.And) else any(vals)
        return None

    call_name = {}
    for name, nodes in calls.items():
        for n in nodes:
            call_name[id(n)] = name

    def simulate(stmts, env, out):
        for st in stmts:
            if isinstance(st, ast.If):
                if not (names_in(st.test) & set(FLAGS)):
                    continue  # not a flag test (validation of arguments etc.)
                v = ev(st.test, env)
                if v is None:
                    return False
                if not simulate(st.body if v else st.orelse, env, out):
                    return False
            else:
                for n in ast.walk(st):
                    if id(n) in call_name:
                        out.append(call_name[id(n)])
        return True

    problems, decided = [], True
    import itertools
    for vals in itertools.product((False, True), repeat=3):
        env = dict(zip(FLAGS, vals))
        seq = []
        if not simulate(f.body, env, seq):
            decided = False
            break
        want_let = env["expand_let"] or env["expand_let_map"]
        label = ", ".join(k for k, v in env.items() if v) or "no flag"
        if want_let != ("fill_in_let" in seq):
            problems.append(f"{label}: let substitution {'missing' if want_let else 'applied'}")
        if env["expand_let_map"] != ("fill_in_map" in seq):
            problems.append(f"{label}: alias fill-in {'missing' if env['expand_let_map'] else 'applied'}")
        if env["expand_macro"] != ("expand_macros" in seq):
            problems.append(f"{label}: macro expansion {'missing' if env['expand_macro'] else 'applied'}")
        if "fill_in_map" in seq and "fill_in_let" in seq and seq.index("fill_in_map") < seq.index("fill_in_let"):
            problems.append(f"{label}: alias fill-in runs before let substitution")
        if "expand_macros" in seq and "fill_in_let" in seq and seq.index("expand_macros") < seq.index("fill_in_let"):
            problems.append(f"{label}: macros are expanded before let substitution, so an overriding value used only in an argument that the macro body ignores is dropped unchecked")
        if "expand_macros" in seq and "fill_in_map" in seq and seq.index("fill_in_map") < seq.index("expand_macros"):
            problems.append(f"{label}: alias fill-in runs before macro expansion, so a qubit that a macro body reaches through a parameter (an alias indexed by a parameter, a register parameter bound to an alias) is still an alias in the result: `macro m a {{ g a[0] }}; map r q[2:4]; m r` keeps `g r[0]` where fill_in_map(expand_macros(..)) gives `g q[2]`")
        if len(seq) != len(set(seq)):
            problems.append(f"{label}: a pass runs twice ({seq})")
    if not decided:
        rep.undecided("C10.1", cons, "a flag test is not a boolean combination of the three flags", f.loc())
    elif problems:
        rep.violation("C10.1", cons, "; ".join(problems[:3]), f.loc())
    else:
        rep.ok("C10.1", cons, "for all 8 flag assignments: each pass runs exactly under its flag(s), once, alias fill-in follows let substitution and macro expansion")

    # ------------------------------------------------------------ C10.2
    rep.rule("C10.2", "blocks produced by macro substitution are spliced into a same-kind parent (legal nesting)", floor=2)
    expander, replacer = c04.find_visitors(ctx)
    lookup_funcs = set()
    for fn in ix.functions.values():
        if fn.module == c04.MOD:
            for cs in T.callsites(fn):
                if cs.kind == "constructor" and cs.classes and cs.classes[0] == replacer:
                    lookup_funcs.add(fn.qualname)
    for vis in (expander, replacer):
        gh = ix.find_method(vis, "visit_GateStatement")
        bh = ix.find_method(vis, "visit_BlockStatement")
        cons = cls_construct(ix, vis, "visit_BlockStatement:splice")
        if gh is None or bh is None:
            rep.undecided("C10.2", cons, "no gate/block handler")
            continue
        may_return_block = any(
            any(t.qualname in lookup_funcs for t in cs.targets) for cs in T.callsites(gh)
        )
        if not may_return_block:
            rep.exempt("C10.2", cons, "the gate handler never returns a macro body")
            continue
        bfl = FuncFlow(ix, T, bh)
        splice = None
        for n in walk_no_nested(bh.node):
            if isinstance(n, ast.Call) and isinstance(n.func, ast.Attribute) and n.func.attr == "extend" and n.args and isinstance(n.args[0], ast.Attribute) and n.args[0].attr == "statements":
                tests = bfl.control_tests(n)
                reads_par = any(isinstance(m, ast.Attribute) and m.attr == "parallel" for t in tests for m in ast.walk(t))
                isinst = any(isinstance(m, ast.Call) and isinstance(m.func, ast.Name) and m.func.id == "isinstance" for t in tests for m in ast.walk(t))
                if reads_par and isinst:
                    splice = n
        if splice is None:
            rep.violation("C10.2", cons, f"{ix.classes[vis].name}.visit_BlockStatement places visited children into the new block without splicing same-kind blocks, although a gate may expand to a block: a macro calling a macro yields `{{ {{ ... }} }}`, which the parser rejects", bh.loc())
        else:
            rep.ok("C10.2", cons, "same-kind child blocks are spliced under an isinstance + parallel guard", f"{bh.path}:{splice.lineno}")

    # ------------------------------------------------------------ C10.5
    check_subcircuit_nesting(ctx, rep)

    # ------------------------------------------------------------ C10.4 / C10.3
    rep.rule("C10.4", "field flow through MapFiller", floor=15)
    rep.rule("C10.3", "MapFiller visits every position that can hold a NamedQubit", floor=2)
    filler = c05.find_visitors(ctx, "fill_in_map", MOD_MAP)
    tr = visitor_transformer(ctx, filler)
    rep.analysed["map_filler_functions"] = sorted(tr.qualnames)
    check_field_flow(ctx, rep, "C10.4", tr, filler, [
        (BLOCK, "parallel", "required", R),
        (BLOCK, "subcircuit", "required", R),
        (BLOCK, "iterations", "required", R),
        (BLOCK, "statements", "required", R),
        (LOOP, "iterations", "required", R),
        (LOOP, "statements", "required", R),
        (GATE, "gate_def", "required", R),
        (GATE, "parameters", "required", R),
        (MACRO, "name", "required", R),
        (MACRO, "parameters", "required", R),
        (MACRO, "body", "required", R),
        (MACRO, "_ideal_unitary", "exempt", "macros have no unitary"),
        (CIRCUIT, "constants", "required", R),
        (CIRCUIT, "registers", "required", "the metadata still contains all the map aliases (docstring)"),
        (CIRCUIT, "macros", "required", R),
        (CIRCUIT, "native_gates", "required", R),
        (CIRCUIT, "usepulses", "required", R),
        (CIRCUIT, "body", "required", R),
        (QUBIT, "alias_from", "required", "the alias chain is what is resolved"),
        (QUBIT, "alias_index", "required", "the alias chain is what is resolved"),
        (QUBIT, "name", "exempt", "replaced by the fundamental qubit's name"),
    ])
    check_changed_flag(ctx, rep, "C10.4", tr)
    for cls, member in ((GATE, "parameters"), (MACRO, "body"), (CIRCUIT, "body"), (CIRCUIT, "macros")):
        kname = ix.classes[cls].name
        cons = f"{cls_construct(ix, filler)}:{kname}.{member}:visited"
        hit = position_visited(ctx, tr, cls, member)
        if hit:
            rep.ok("C10.3", cons, f"passed to visit in {construct_of(hit[0])}")
        else:
            rep.violation("C10.3", cons, f"{kname}.{member} can hold qubit references but is never visited by MapFiller: aliases survive fill_in_map", ix.classes[filler].loc())


MOD_SUB = "jaqalpaq.core.algorithm.expand_subcircuits"


def _is_block_ctor(T, f, call):
    for cs in T.callsites(f):
        if cs.node is call and cs.kind == "constructor" and cs.classes and cs.classes[0] == BLOCK:
            return True
    return False


def _plain_block(call):
    """BlockStatement(...) that cannot be a subcircuit block: no subcircuit argument (or a constant false one)."""
    for k in call.keywords:
        if k.arg == "subcircuit":
            return isinstance(k.value, ast.Constant) and not k.value.value
        if k.arg is None:
            return False
    return len(call.args) < 3


def _visits_children(node):
    """The expression places self.visit(<child>) results as elements (comprehension / generator / starred generator)."""
    for n in ast.walk(node):
        if isinstance(n, (ast.ListComp, ast.GeneratorExp)):
            e = n.elt
            if isinstance(e, ast.Call) and isinstance(e.func, ast.Attribute) and e.func.attr == "visit":
                return True
    return False


def _has_splice(fn):
    for n in walk_no_nested(fn.node):
        if isinstance(n, ast.Call) and isinstance(n.func, ast.Attribute) and n.func.attr == "extend" and n.args and isinstance(n.args[0], ast.Attribute) and n.args[0].attr == "statements":
            return n
        if isinstance(n, ast.Starred) and isinstance(n.value, ast.Attribute) and n.value.attr == "statements":
            return n
    return None


def check_subcircuit_nesting(ctx, rep):
    """C10.5: expand_subcircuits turns `subcircuit { .. }` (legal inside a sequential block) into a plain
    sequential block (not legal directly inside a sequential block: the grammar has no `{ { .. } }`), so the
    method that rebuilds the enclosing block has to splice it."""
    ix, T = ctx.ix, ctx.typer
    rep.rule("C10.5", "a subcircuit block replaced by a plain block is spliced into the enclosing sequential block (no `{ { .. } }`)", floor=1)
    entry = ix.func(f"{MOD_SUB}.expand_subcircuits")
    vis = None
    for cs in T.callsites(entry):
        if cs.kind == "constructor" and cs.classes and T.is_visitor(cs.classes[0]):
            vis = cs.classes[0]
    if vis is None:
        raise AnalysisError("C10.5: cannot locate the visitor instantiated by expand_subcircuits()")
    bh = ix.find_method(vis, "visit_BlockStatement")
    if bh is None:
        raise AnalysisError("C10.5: the subcircuit expander has no visit_BlockStatement")
    own = [m for m in ix.functions.values() if m.cls == vis]
    # conversion sites: BlockStatement(..) without subcircuit, control dependent on `.subcircuit` (one call level deep)
    bfl = FuncFlow(ix, T, bh)
    guarded_funcs, converts = set(), []

    def reads_subcircuit(tests):
        return any(isinstance(m, ast.Attribute) and m.attr == "subcircuit" for t in tests for m in ast.walk(t))

    def true_branch_calls():
        for st in iter_stmts(bh.body):
            if isinstance(st, ast.If) and reads_subcircuit([st.test]):
                neg = isinstance(st.test, ast.UnaryOp) and isinstance(st.test.op, ast.Not)
                for b in (st.orelse if neg else st.body):
                    for n in ast.walk(b):
                        if isinstance(n, ast.Call):
                            yield n
            for n in ast.walk(st) if not isinstance(st, (ast.If, ast.For, ast.While, ast.Try, ast.With)) else ():
                if isinstance(n, ast.IfExp) and reads_subcircuit([n.test]) and not isinstance(n.test, ast.UnaryOp):
                    for m in ast.walk(n.body):
                        if isinstance(m, ast.Call):
                            yield m

    for n in true_branch_calls():
        if _is_block_ctor(T, bh, n) and _plain_block(n):
            converts.append((bh, n))
        for cs in T.callsites(bh):
            if cs.node is n:
                for t in cs.targets:
                    if t.cls == vis:
                        guarded_funcs.add(t.qualname)
    for m in own:
        if m.qualname in guarded_funcs:
            for n in walk_no_nested(m.node):
                if isinstance(n, ast.Call) and _is_block_ctor(T, m, n) and _plain_block(n):
                    converts.append((m, n))
    if not converts:
        rep.exempt("C10.5", cls_construct(ix, vis, "subcircuit-to-plain"), "the pass never turns a subcircuit block into a plain block")
        return
    conv_ids = {id(n) for _, n in converts}
    n_sites = 0
    for m in own:
        for n in walk_no_nested(m.node):
            if not (isinstance(n, ast.Call) and _is_block_ctor(T, m, n)) or id(n) in conv_ids:
                continue
            # the statements argument: built from visited children?
            stm = None
            for k in n.keywords:
                if k.arg == "statements":
                    stm = k.value
            if stm is None and len(n.args) >= 2:
                stm = n.args[1]
            if stm is None:
                continue
            srcs = [stm]
            if isinstance(stm, ast.Name):
                for st in iter_stmts(m.body):
                    if isinstance(st, ast.Assign) and any(isinstance(t, ast.Name) and t.id == stm.id for t in st.targets):
                        srcs.append(st.value)
            if not any(_visits_children(x) for x in srcs):
                continue
            n_sites += 1
            cons = construct_of(m, "nested-plain-block")
            sp = _has_splice(m)
            if sp is None:
                rep.violation("C10.5", cons, f"{m.name} rebuilds a block from its visited children element by element; a `subcircuit {{..}}` child inside a sequential block or loop body comes back as a plain sequential block and stays nested: the generated text `{{ {{ .. }} }}` is rejected by the parser", f"{m.path}:{n.lineno}")
            else:
                rep.ok("C10.5", cons, "replacement blocks are spliced into the enclosing block", f"{m.path}:{sp.lineno}")
    if n_sites == 0:
        rep.undecided("C10.5", cls_construct(ix, vis, "rebuild-sites"), "no block-rebuilding site recognised in the subcircuit expander")
