"""Clauses added after seed round 10 and the seventh hunt wave.  Same layout
as sweep3/sweep4: EXTRA = {property: [(function, rule id, *extra)]}."""
from __future__ import annotations

import ast

from ..cfg import iter_stmts, walk_no_nested
from .common import construct_of
from .wave3 import _func, _method, _enclosing_ifs, _names

EXTRA: dict = {}


def _add(prop, fn, rule, *extra):
    EXTRA.setdefault(prop, []).append((fn, rule, *extra))


MUTATORS = ("append", "extend", "update", "add", "pop", "clear", "insert", "setdefault", "remove", "popitem", "appendleft", "discard")


# ---------------------------------------------------------------- shared objects that outlive a call

def _stateful_methods(ix, cq):
    """Methods of class cq (other than __init__) that change the object's own state: a store to self.X / self.X[..]
    or a mutator call on self.X."""
    out = set()
    for k in ix.mro(cq):
        ci = ix.classes.get(k)
        if ci is None:
            continue
        for mn, fi in ci.methods.items():
            if mn == "__init__" or not fi.params:
                continue
            s0 = fi.params[0]
            for n in walk_no_nested(fi.node):
                hit = False
                if isinstance(n, ast.Attribute) and isinstance(n.ctx, (ast.Store, ast.Del)) and isinstance(n.value, ast.Name) and n.value.id == s0:
                    hit = True
                elif isinstance(n, ast.Subscript) and isinstance(n.ctx, (ast.Store, ast.Del)) and isinstance(n.value, ast.Attribute) and isinstance(n.value.value, ast.Name) and n.value.value.id == s0:
                    hit = True
                elif isinstance(n, ast.Call) and isinstance(n.func, ast.Attribute) and n.func.attr in MUTATORS and isinstance(n.func.value, ast.Attribute) and isinstance(n.func.value.value, ast.Name) and n.func.value.value.id == s0:
                    hit = True
                if hit:
                    out.add(mn)
    return out


def no_process_wide_instances(ctx, rep, rule):
    """A module-level (or class-level) instance of a class that keeps state, or a module-level container, handed to
    the objects that serve one call (stored in an attribute, or used through its state-changing methods) makes the
    result of a call depend on the calls made before it in the same process."""
    ix = ctx.ix
    rep.rule(rule, "no object created once per process (module level or class level) is used as the working state of a parse, build or pass: what one call stores in it is found by the next", floor=1)
    shared = {}  # (module, name) -> (kind, class or None, lineno, path)
    for mq, m in ix.modules.items():
        if not mq.startswith("jaqalpaq") or mq.startswith("jaqalpaq._cli"):
            continue
        for st in m.tree.body:
            if not (isinstance(st, ast.Assign) and len(st.targets) == 1 and isinstance(st.targets[0], ast.Name)):
                continue
            v, name = st.value, st.targets[0].id
            if isinstance(v, ast.Call):
                r = ix.resolve_expr(mq, v.func, None)
                if r and r[0] == "class" and r[1] in ix.classes:
                    sm = _stateful_methods(ix, r[1])
                    if sm:
                        shared[(mq, name)] = ("instance", r[1], st.lineno, m.path, sm)
            elif isinstance(v, (ast.Dict, ast.List, ast.Set)) and not getattr(v, "elts", getattr(v, "keys", None)):
                # an EMPTY container at module level is working state (a filled one is a table)
                shared[(mq, name)] = ("container", None, st.lineno, m.path, set(MUTATORS))
    n_uses = 0
    # attribute names through which some method calls a state-changing method / mutator:  attr -> {method names}
    attr_calls = {}
    for f in ix.functions.values():
        for n in walk_no_nested(f.node):
            if isinstance(n, ast.Call) and isinstance(n.func, ast.Attribute) and isinstance(n.func.value, ast.Attribute):
                attr_calls.setdefault(n.func.value.attr, set()).add(n.func.attr)
            if isinstance(n, ast.Subscript) and isinstance(n.ctx, (ast.Store, ast.Del)) and isinstance(n.value, ast.Attribute):
                attr_calls.setdefault(n.value.attr, set()).add("__setitem__")
    # functions applied as decorators run while the package is imported: filling a registry there is set-up, not
    # state carried from one call to the next
    decorators = set()
    for m in ix.modules.values():
        for d in ast.walk(m.tree):
            if isinstance(d, (ast.FunctionDef, ast.AsyncFunctionDef, ast.ClassDef)):
                for dec in d.decorator_list:
                    e = dec.func if isinstance(dec, ast.Call) else dec
                    if isinstance(e, ast.Name):
                        decorators.add(e.id)
                    elif isinstance(e, ast.Attribute):
                        decorators.add(e.attr)
    for f in ix.functions.values():
        if not f.module.startswith("jaqalpaq") or f.module.startswith("jaqalpaq._cli"):
            continue
        if f.name in decorators or (f.parent and ix.functions.get(f.parent) is not None and ix.functions[f.parent].name in decorators):
            continue
        local = set(f.all_params) | {n.id for n in ast.walk(f.node) if isinstance(n, ast.Name) and isinstance(n.ctx, ast.Store)}
        for n in walk_no_nested(f.node):
            if not (isinstance(n, ast.Name) and isinstance(n.ctx, ast.Load)) or n.id in local:
                continue
            r = ix.resolve_name(f.module, n.id, f)
            key = None
            if r and r[0] == "var" and len(r) == 3 and (r[1], r[2]) in shared:
                key = (r[1], r[2])
            if key is None:
                continue
            kind, cq, ln, path, sm = shared[key]
            n_uses += 1
            par = ctx_parent(f, n)
            cons = construct_of(f, f"process-wide:{key[1]}")
            what = f"an instance of {cq.rsplit('.', 1)[-1]} created once at {path}:{ln}" if kind == "instance" else f"the container created once at {path}:{ln}"
            if isinstance(par, ast.Attribute) and par.value is n:
                gp = ctx_parent(f, par)
                if isinstance(gp, ast.Call) and gp.func is par and par.attr in sm:
                    rep.violation(rule, cons, f"`{ast.unparse(gp)[:60]}` changes {what}: every later call in the process sees what this one left behind", f"{f.path}:{n.lineno}")
                continue
            if isinstance(par, ast.Assign) and par.value is n:
                for t in par.targets:
                    if isinstance(t, ast.Attribute):
                        used = attr_calls.get(t.attr, set()) & (sm | {"__setitem__"} if kind == "container" else sm)
                        if kind == "container" and not used:
                            # an EMPTY container kept as an attribute exists to be filled, wherever that happens
                            used = {"<filled by whoever is handed it>"}
                        if used:
                            rep.violation(rule, cons, f"`{ast.unparse(par)[:70]}` makes {what} the `{t.attr}` of every object built here, and `.{t.attr}.{sorted(used)[0]}(..)` writes to it: results stored during one build or parse are found by the next (two programs parsed in one process influence each other)", f"{f.path}:{n.lineno}")
    rep.analysed["process_wide_objects"] = len(shared)
    rep.ok(rule, "package:module-level-objects", f"{len(shared)} module-level objects that keep state; {n_uses} uses examined")


def ctx_parent(f, node):
    pm = getattr(f, "_r10_parents", None)
    if pm is None:
        pm = {}
        for p in ast.walk(f.node):
            for c in ast.iter_child_nodes(p):
                pm[id(c)] = p
        try:
            f._r10_parents = pm
        except Exception:
            pass
    return pm.get(id(node))


_add("C16", no_process_wide_instances, "C16.33")
_add("C07", no_process_wide_instances, "C07.12")


# ---------------------------------------------------------------- C04 / C03: one binding per macro call

def replacer_bindings_immutable(ctx, rep, rule):
    """The map from parameter names to call arguments belongs to ONE macro call.  If it is changed after the
    replacer was made (a nested call adding its own bindings to the caller's map), a caller's parameter that has
    the name of a callee's parameter is bound to the callee's argument for the rest of the caller's body."""
    ix, T = ctx.ix, ctx.typer
    MOD = "jaqalpaq.core.algorithm.expand_macros"
    rep.rule(rule, "the argument bindings of a macro call are fixed when its replacer is made: nothing adds to, replaces or re-assigns them afterwards (each call, nested ones included, has bindings of its own)", floor=1)
    found = 0
    for cq, c in ix.classes.items():
        if c.module != MOD or not T.is_visitor(cq) or "visit_Parameter" not in c.methods:
            continue
        init = c.methods.get("__init__")
        if init is None or len(init.params) < 2:
            continue
        p0 = init.params[1]
        attrs = [a for a, lst in c.self_attrs.items() for fi, v in lst if fi is init and isinstance(v, ast.Name) and v.id == p0]
        for a in attrs:
            found += 1
            cons = f"{construct_of(init)}:bindings:{a}"
            hits = []
            for f in ix.functions.values():
                if f.module != MOD or isinstance(f.node, ast.Lambda):
                    continue
                for n in walk_no_nested(f.node):
                    tgt = None
                    if isinstance(n, ast.Call) and isinstance(n.func, ast.Attribute) and n.func.attr in MUTATORS + ("__setitem__",):
                        tgt = n.func.value
                    elif isinstance(n, ast.Subscript) and isinstance(n.ctx, (ast.Store, ast.Del)):
                        tgt = n.value
                    elif isinstance(n, ast.Attribute) and isinstance(n.ctx, (ast.Store, ast.Del)) and n.attr == a and f is not init:
                        hits.append((f, n, f"`{ast.unparse(n)}` is re-assigned"))
                        continue
                    elif isinstance(n, ast.AugAssign) and isinstance(n.target, ast.Attribute) and n.target.attr == a:
                        hits.append((f, n, f"`{ast.unparse(n)[:60]}`"))
                        continue
                    if isinstance(tgt, ast.Attribute) and tgt.attr == a:
                        # a replacer made in this very function and not yet at work may still be filled
                        r = tgt.value
                        if isinstance(r, ast.Name) and r.id not in f.all_params:
                            binds = [b for b in ast.walk(f.node) if isinstance(b, ast.Assign) and any(isinstance(t, ast.Name) and t.id == r.id for t in b.targets)]
                            if binds and all(isinstance(b.value, ast.Call) and isinstance(b.value.func, ast.Name) and b.value.func.id == c.name for b in binds):
                                continue
                        hits.append((f, n, f"`{ast.unparse(n)[:60]}`"))
            if hits:
                f, n, txt = hits[0]
                rep.violation(rule, cons, f"{txt} in {construct_of(f)} changes the bindings of a replacer that is already at work: after a nested call `cx a b` inside `macro swap a b {{ cx a b; cx b a; cx a b }}` (callee parameters named like the caller's) the caller's own `a` and `b` mean the callee's arguments, so the rest of its body acts on the wrong qubits / angles / loop counts", f"{f.path}:{n.lineno}",
                              witness="macro cx a b { CX a b }; macro swap a b { cx a b; cx b a; cx a b }; swap q[0] q[1]")
            else:
                rep.ok(rule, cons, f"self.{a} is stored once in __init__ and never changed in {MOD.rsplit('.', 1)[-1]}", init.loc())
    if not found:
        rep.undecided(rule, "core.algorithm.expand_macros:GateReplacer", "no replacer with an argument map found")


_add("C04", replacer_bindings_immutable, "C04.15")
_add("C03", replacer_bindings_immutable, "C03.15")


# ---------------------------------------------------------------- C06 / C10: the alias chain is walked to its end

def dependence_walk_reaches_the_end(ctx, rep, rule):
    ix = ctx.ix
    f = _func(ix, "jaqalpaq.core.algorithm.fill_in_map._depends_on_parameter")
    rep.rule(rule, "_depends_on_parameter leaves its walk along the alias chain early only with a positive answer: a link without symbolic parts says nothing about the links behind it", floor=1)
    cons = construct_of(f, "chain-walk-complete")
    ws = [w for w in ast.walk(f.node) if isinstance(w, ast.While)]
    if not ws:
        rep.undecided(rule, cons, "no loop", f.loc())
        return
    bad = None
    n = 0
    for st in iter_stmts(ws[0].body):
        if isinstance(st, ast.Return):
            n += 1
            v = st.value
            if isinstance(v, ast.Constant) and v.value is True:
                continue
            if v is not None and any(isinstance(c, ast.Call) and isinstance(c.func, ast.Name) and c.func.id == f.name for c in ast.walk(v)):
                continue  # goes on by recursion
            bad = st
            break
    if bad is None:
        # leaving the loop by `break` is answering False for everything behind this link, too -- unless the test
        # says that there is nothing behind it (a fundamental register, no `alias_from`)
        for st in iter_stmts(ws[0].body):
            if isinstance(st, ast.Break):
                tests = " ".join(ast.unparse(t) for t, _ in _enclosing_ifs(f.node, st))
                if "fundamental" not in tests and "alias_from" not in tests:
                    bad = st
                    break
    if isinstance(bad, ast.Break):
        tests = " and ".join(ast.unparse(t) for t, _ in _enclosing_ifs(f.node, bad)) or "unconditionally"
        rep.violation(rule, cons, f"`break` under `{tests[:70]}` ends the walk with the answer False although the chain goes on: a whole-register alias (`map work odd`) has no slice of its own, but its source `map odd q[first:8:stride]` has let-valued bounds -- `work[1]` is resolved with the declared values and a later fill_in_let(override) no longer reaches it", f"{f.path}:{bad.lineno}",
                      witness="let first 1; let stride 2; register q[8]; map odd q[first:8:stride]; map work odd; g work[1]")
    elif bad is not None:
        rep.violation(rule, cons, f"`{ast.unparse(bad)[:80]}` inside the walk answers for the whole chain from one link: with `map r q[a:]; map s r[0:4:2]` the literal slice of `s` ends the walk with False, `s[0]` is resolved with the declared value of the let `a`, and an override applied afterwards (fill_in_let after fill_in_map) no longer reaches it -- the passes stop commuting", f"{f.path}:{bad.lineno}",
                      witness="let a 1; register q[6]; map r q[a:]; map s r[0:4:2]; g s[0]  -- fill_in_let(fill_in_map(c), {'a': 2}) vs fill_in_map(fill_in_let(c, {'a': 2}))")
    else:
        rep.ok(rule, cons, f"{n} early returns, all `return True`", f.loc())


_add("C06", dependence_walk_reaches_the_end, "C06.22")
_add("C10", dependence_walk_reaches_the_end, "C10.17")


# clauses that already existed, attached to further properties they are a necessary condition of
from .sweep4 import splice_kind_is_conjunct, relinker_passes_every_field  # noqa: E402

_add("C10", splice_kind_is_conjunct, "C10.18")          # legal nesting after expansion (seed C10-14)
_add("C17", relinker_passes_every_field, "C17.11")      # the builder front end rebuilds pre-built statements whole (seed C17-15)

from .sweep2 import always_visits, _ALG, _EXCL  # noqa: E402

_add("C04", always_visits, "C04.16", [_ALG + "expand_macros"], _EXCL)   # a replacer that skips the body of a zero-count loop (seed C12-5)
_add("C12", always_visits, "C12.11", [_ALG + "expand_macros", _ALG + "expand_subcircuits", _ALG + "walkers"], _EXCL)


# ---------------------------------------------------------------- C15 / C16: outcomes are range-checked

def outcome_range_checked(ctx, rep, rule):
    """The integer made from a hardware outcome indexes the array of bins.  numpy wraps a negative index and
    raises IndexError for one that is too large, so both ends have to be refused explicitly before the readout
    is recorded."""
    ix = ctx.ix
    OP = "jaqalpaq.core.result.OutputParser"
    m = _method(ix, OP, "process_trace")
    rep.rule(rule, "the outcome that OutputParser.process_trace records is compared with both ends of 0..2^n-1 under a raise before it becomes a Readout (a negative index wraps around to another bin; a large one is an IndexError, not a JaqalError)", floor=1)
    cons = construct_of(m, "outcome-range")
    made = [c for c in ast.walk(m.node) if isinstance(c, ast.Call) and isinstance(c.func, ast.Name) and c.func.id == "Readout" and c.args]
    if not made or not isinstance(made[0].args[0], ast.Name):
        rep.undecided(rule, cons, "the construction of the Readout is not recognised", m.loc())
        return
    x = made[0].args[0].id
    lower = upper = False
    where = None
    for st in iter_stmts(m.body):
        if not (isinstance(st, ast.If) and st.lineno < made[0].lineno and any(isinstance(r, ast.Raise) for b in st.body for r in ast.walk(b))):
            continue
        for c in ast.walk(st.test):
            if not isinstance(c, ast.Compare):
                continue
            terms = [c.left] + list(c.comparators)
            if not any(isinstance(t, ast.Name) and t.id == x for t in terms):
                continue
            where = st
            if len(c.ops) == 1 and isinstance(c.ops[0], (ast.NotIn, ast.In)) and isinstance(terms[1], ast.Call) and isinstance(terms[1].func, ast.Name) and terms[1].func.id == "range":
                lower = upper = True
                continue
            for a, op, b in zip(terms, c.ops, terms[1:]):
                if not isinstance(op, (ast.Lt, ast.LtE, ast.Gt, ast.GtE)):
                    continue
                other = b if (isinstance(a, ast.Name) and a.id == x) else a if (isinstance(b, ast.Name) and b.id == x) else None
                if other is None:
                    continue
                if isinstance(other, ast.Constant) and other.value in (0, -1):
                    lower = True
                elif isinstance(other, ast.UnaryOp) and isinstance(other.operand, ast.Constant):
                    lower = True
                else:
                    upper = True
    loc = f"{m.path}:{(where or made[0]).lineno}"
    if lower and upper:
        rep.ok(rule, cons, f"`{ast.unparse(where.test)[:70]}` refuses both ends", loc)
    elif lower or upper:
        rep.violation(rule, cons, f"`{ast.unparse(where.test)[:70]}` bounds `{x}` on one side only: " + ("an outcome of 2^n or more still ends in IndexError" if lower else "the outcome -1 (numpy.int8 of 255, the string '1-') is still counted in the bin of 2^n-1"), loc, witness="parse_jaqal_output_list(circuit_with_3_qubits, [-1])")
    else:
        rep.violation(rule, cons, f"`{x}` becomes a Readout and an index into the bins without any range check: the outcome -1 (numpy.int8 of 255, the string '1-') is counted in the bin of 2^n-1 and keeps as_int == -1, as_str == '10-'; 2^n fails with IndexError instead of JaqalError", loc, witness="parse_jaqal_output_list(circuit_with_3_qubits, [-1])")


_add("C15", outcome_range_checked, "C15.19")
_add("C16", outcome_range_checked, "C16.34")


# ---------------------------------------------------------------- C01: bool is an int whose text is a word

def value_writer_converts_bool(ctx, rep, rule):
    ix = ctx.ix
    f = _func(ix, "jaqalpaq.generator.generator.generate_jaqal_value")
    rep.rule(rule, "the value writer formats an int with str()/repr() only after bool (an int whose str() is `True` / `False`) has been converted or refused", floor=1)
    cons = construct_of(f, "bool-before-str")
    valn = f.params[0]
    fmt = [c for c in ast.walk(f.node) if isinstance(c, ast.Call) and isinstance(c.func, ast.Name) and c.func.id in ("str", "repr", "format") and c.args and isinstance(c.args[0], ast.Name) and c.args[0].id == valn]
    fmt += [c for c in ast.walk(f.node) if isinstance(c, ast.FormattedValue) and isinstance(c.value, ast.Name) and c.value.id == valn and not any(isinstance(r, ast.Raise) and c in ast.walk(r) for r in ast.walk(f.node))]
    if not fmt:
        rep.undecided(rule, cons, "no str()/repr() of the value found", f.loc())
        return
    first = min(c.lineno for c in fmt)
    # does the formatting branch admit ints at all?
    admits_int = False
    for t, taken in _enclosing_ifs(f.node, fmt[0]):
        for m in ast.walk(t):
            if isinstance(m, ast.Call) and isinstance(m.func, ast.Name) and m.func.id == "isinstance" and len(m.args) == 2 and isinstance(m.args[0], ast.Name) and m.args[0].id == valn:
                ts = m.args[1].elts if isinstance(m.args[1], ast.Tuple) else [m.args[1]]
                if any(ast.unparse(x).split(".")[-1] in ("int", "Integral", "Real", "Number") for x in ts):
                    admits_int = True
    if not admits_int:
        rep.undecided(rule, cons, "the formatting branch is not guarded by an isinstance test that admits int", f.loc())
        return
    handled = None
    for m in ast.walk(f.node):
        if isinstance(m, ast.Call) and isinstance(m.func, ast.Name) and m.func.id == "isinstance" and len(m.args) == 2 and isinstance(m.args[0], ast.Name) and m.args[0].id == valn and m.lineno <= first:
            ts = m.args[1].elts if isinstance(m.args[1], ast.Tuple) else [m.args[1]]
            if any(isinstance(x, ast.Name) and x.id == "bool" for x in ts):
                handled = m
    if handled is None:
        for m in ast.walk(f.node):   # `type(val) is int`, `val is True` style tests
            if isinstance(m, ast.Compare) and m.lineno <= first and "bool" in ast.unparse(m) and valn in ast.unparse(m):
                handled = m
    if handled is not None:
        rep.ok(rule, cons, f"`{ast.unparse(handled)}` deals with bool before the value is formatted", f"{f.path}:{handled.lineno}")
    else:
        rep.violation(rule, cons, f"`{ast.unparse(fmt[0]) if isinstance(fmt[0], ast.Call) else valn}` formats every int, bool included: the gate argument True (accepted by the builder and by Parameter.validate as the integer 1) is written as `True` -- after the exponent patch `Tru.0e` -- which the parser rejects, or reads as three other arguments when lets named `Tru` and `e` exist", f"{f.path}:{first}", witness="CircuitBuilder().gate('g', r[0], True)")


_add("C01", value_writer_converts_bool, "C01.20")
_add("C20", value_writer_converts_bool, "C20.15")


# ---------------------------------------------------------------- C11: what the language calls implicitly on input objects is read-only

PROTOCOL = {"__int__", "__float__", "__index__", "__bool__", "__len__", "__eq__", "__ne__", "__hash__", "__repr__", "__str__", "__iter__",
            "__getitem__", "__contains__", "__lt__", "__le__", "__gt__", "__ge__", "__format__", "__complex__", "__abs__", "__neg__"}


def protocol_methods_read_only(ctx, rep, rule):
    """int(x), x == y, hash(x), len(x), x[i], x.size .. on an object of the input run a method of its class.  No call
    edge shows these calls, so the ownership analysis does not follow them; this clause closes the gap at the
    definitions: such a method (and every property getter) of a class of the IR must not write to its object."""
    ix, T = ctx.ix, ctx.typer
    rep.rule(rule, "the conversion, comparison, hashing, container-protocol methods and the property getters of the IR classes do not write to their own object (the analyses call them implicitly on objects of their input)", floor=20)
    classes = set(T.ir_classes)
    for q in list(classes):
        classes |= set(ix.mro(q)) & set(ix.classes)
    classes |= {q for q in ix.classes if q.startswith("jaqalpaq.core.") and ".algorithm." not in q and not q.startswith("jaqalpaq.core.circuitbuilder") and not q.startswith("jaqalpaq.core.result")}
    n = 0
    for q in sorted(classes):
        ci = ix.classes.get(q)
        if ci is None or not ci.module.startswith("jaqalpaq.core"):
            continue
        for lst in ci.methods_all.values():
            for fi in lst:
                getter = fi.is_property and not any(isinstance(d, ast.Attribute) and d.attr in ("setter", "deleter") for d in fi.node.decorator_list)
                if not (fi.name in PROTOCOL or getter) or not fi.params:
                    continue
                n += 1
                s0 = fi.params[0]
                bad = None
                for x in walk_no_nested(fi.node):
                    if isinstance(x, ast.Attribute) and isinstance(x.ctx, (ast.Store, ast.Del)) and isinstance(x.value, ast.Name) and x.value.id == s0:
                        bad = x
                    elif isinstance(x, ast.Subscript) and isinstance(x.ctx, (ast.Store, ast.Del)) and isinstance(x.value, ast.Attribute) and isinstance(x.value.value, ast.Name) and x.value.value.id == s0:
                        bad = x
                    elif isinstance(x, ast.Call) and isinstance(x.func, ast.Attribute) and x.func.attr in MUTATORS and isinstance(x.func.value, ast.Attribute) and isinstance(x.func.value.value, ast.Name) and x.func.value.value.id == s0:
                        bad = x
                    elif isinstance(x, ast.Call) and isinstance(x.func, ast.Name) and x.func.id in ("setattr", "delattr") and x.args and isinstance(x.args[0], ast.Name) and x.args[0].id == s0:
                        bad = x
                    if bad is not None:
                        break
                if bad is not None:
                    rep.violation(rule, construct_of(fi, "writes-to-self"), f"`{ast.unparse(bad)[:60]}` writes to the object inside {fi.name}: every analysis or pass that merely converts, compares, hashes or reads this object (`int(reg.size)` in the used-qubit analysis, `==` in the builder) changes its input -- e.g. a let defined by another let is frozen at today's value, so a later fill_in_let(override) no longer reaches it", f"{fi.path}:{bad.lineno}")
    rep.analysed["protocol_methods"] = n
    rep.ok(rule, "core:protocol-methods-and-getters", f"{n} methods examined")
    if n < 20:
        from ..index import AnalysisError
        raise AnalysisError(f"{rule}: only {n} protocol methods / getters found")


_add("C11", protocol_methods_read_only, "C11.2")


# ---------------------------------------------------------------- C08 / C15: one result object per trace

def one_result_per_trace(ctx, rep, rule):
    ix = ctx.ix
    BK = "jaqalpaq.emulator.backend.IndependentSubcircuitsBackend"
    call = _method(ix, BK, "__call__")
    rep.rule(rule, "the emulator makes one subcircuit result per discovered trace: every element of `job.subcircuits` is the result of its own `_make_subcircuit(job, index, trace)` call", floor=1)
    cons = construct_of(call, "one-result-per-trace")

    def is_make(e):
        return isinstance(e, ast.Call) and isinstance(e.func, ast.Attribute) and e.func.attr == "_make_subcircuit"

    verdict = None
    for st in ast.walk(call.node):
        if isinstance(st, ast.Assign) and any(isinstance(t, ast.Attribute) and t.attr == "subcircuits" for t in st.targets):
            v = st.value
            if isinstance(v, ast.ListComp):
                verdict = ("ok", st) if is_make(v.elt) else ("bad", st, ast.unparse(v.elt))
            elif isinstance(v, ast.List) and not v.elts:
                verdict = verdict or ("fill", st)
            elif isinstance(v, ast.Call) and isinstance(v.func, ast.Name) and v.func.id == "list" and v.args and isinstance(v.args[0], ast.GeneratorExp):
                verdict = ("ok", st) if is_make(v.args[0].elt) else ("bad", st, ast.unparse(v.args[0].elt))
    if verdict and verdict[0] == "fill":
        apps = [c for c in ast.walk(call.node) if isinstance(c, ast.Call) and isinstance(c.func, ast.Attribute) and c.func.attr == "append" and isinstance(c.func.value, ast.Attribute) and c.func.value.attr == "subcircuits"]
        if apps and all(c.args and is_make(c.args[0]) for c in apps):
            verdict = ("ok", apps[0])
        elif apps:
            badc = next(c for c in apps if not (c.args and is_make(c.args[0])))
            verdict = ("bad", badc, ast.unparse(badc.args[0]) if badc.args else "")
        else:
            verdict = None
    if verdict is None:
        rep.undecided(rule, cons, "the construction of job.subcircuits is not recognised", call.loc())
    elif verdict[0] == "ok":
        rep.ok(rule, cons, "each element is its own _make_subcircuit(..) call", f"{call.path}:{verdict[1].lineno}")
    else:
        rep.violation(rule, cons, f"an element of job.subcircuits is `{verdict[2][:50]}`, not the result of its own _make_subcircuit call: two traces can share one result object, which carries ONE index and ONE trace -- the readouts of the later subcircuit are attributed to the earlier one (`result.subcircuits[2].index == 0` for a program whose first and third subcircuit have the same gates)", f"{call.path}:{verdict[1].lineno}", witness="prepare_all; Px q[0]; measure_all; prepare_all; measure_all; prepare_all; Px q[0]; measure_all")


_add("C08", one_result_per_trace, "C08.27")
_add("C15", one_result_per_trace, "C15.21")


# ---------------------------------------------------------------- C16: the flag that guards the rollback is not stale

def rollback_flag_not_stale(ctx, rep, rule):
    """In jaqal_import the handler that forgets a half-imported module and puts the evicted ones back is guarded by
    a flag computed from `module` (`fresh = module is None`).  If `module` is assigned again between that
    computation and the handler (the eviction sets it to None), the flag describes the state before the eviction and
    the rollback is skipped exactly when something was evicted."""
    from ..cfg import CFG
    ix = ctx.ix
    f = _func(ix, "jaqalpaq._import.jaqal_import")
    rep.rule(rule, "a flag tested by a rollback handler of jaqal_import is computed after the last assignment to the variable it is computed from (no assignment to that variable lies between the flag and the handler)", floor=1)
    cfg = CFG(f.body)
    stmts = list(iter_stmts(f.body))
    n = 0
    seen_flags = set()
    for h in ast.walk(f.node):
        if not isinstance(h, ast.ExceptHandler):
            continue
        for st in iter_stmts(h.body):
            if not (isinstance(st, ast.If) and "sys.modules" in " ".join(ast.unparse(b) for b in st.body)):
                continue
            for flag in sorted(_names(st.test)):
                if flag in seen_flags:
                    continue
                seen_flags.add(flag)
                defs = [a for a in stmts if isinstance(a, ast.Assign) and len(a.targets) == 1 and isinstance(a.targets[0], ast.Name) and a.targets[0].id == flag]
                if len(defs) != 1:
                    continue
                srcs = _names(defs[0].value) - {flag}
                if not srcs:
                    continue
                n += 1
                cons = construct_of(f, f"rollback-flag:{flag}")
                dn = cfg.node(defs[0])
                after = cfg.reachable_from(dn) if dn is not None else set()
                stale = None
                for a in stmts:
                    if a is defs[0] or not isinstance(a, ast.Assign):
                        continue
                    if any(isinstance(t, ast.Name) and t.id in srcs for t in a.targets) and cfg.node(a) in after:
                        # an assignment from the guarded import itself (module = import_module(..)) does not make
                        # the flag stale: the flag says whether THIS call had to import
                        if isinstance(a.value, ast.Call):
                            continue
                        stale = a
                        break
                loc = f"{f.path}:{defs[0].lineno}"
                if stale is not None:
                    rep.violation(rule, cons, f"`{ast.unparse(defs[0])}` is computed before `{ast.unparse(stale)}` (line {stale.lineno}): after a reload has evicted the module the flag still says it was there, so when the second stage fails the half-imported module stays in sys.modules and the evicted ones are not put back -- a later, unrelated parse of `from M usepulses *` fails", loc, witness="parse 'from M usepulses *'; parse 'from .M usepulses *' against a directory whose M lacks jaqal_gates (ImportError); parse the first text again")
                else:
                    rep.ok(rule, cons, f"`{ast.unparse(defs[0])}` follows every assignment to {sorted(srcs)}", loc)
    if n == 0:
        rep.undecided(rule, construct_of(f, "rollback-flag"), "no rollback handler guarded by a computed flag found", f.loc())


_add("C16", rollback_flag_not_stale, "C16.35")

from .common import check_memo_numeric_keys  # noqa: E402

_add("C18", check_memo_numeric_keys, "C18.20")   # a memo hit must not stand in for the validation of another call (hunt wave 8)


# ---------------------------------------------------------------- C17 / C14: nesting is judged on the assembled program

def assembled_program_nesting_checked(ctx, rep, rule):
    """Statements and macros built ahead of the circuit pass through Builder.build unchanged, so the nesting checks
    made while an s-expression is built never see them.  build_circuit has to look at the assembled program."""
    from ..cfg import CFG
    ix, T = ctx.ix, ctx.typer
    bc = _method(ix, "jaqalpaq.core.circuitbuilder.Builder", "build_circuit")
    rep.rule(rule, "before it makes the Circuit, Builder.build_circuit hands every macro body and every body statement to a function that refuses a subcircuit nested in a subcircuit or parallel block (objects built ahead of the circuit reach it unchecked)", floor=2)

    def refuses_nesting(fq, depth=0):
        f = ix.functions.get(fq)
        if f is None or depth > 2:
            return False
        reads = any(isinstance(x, ast.Attribute) and x.attr == "subcircuit" for x in ast.walk(f.node)) or "contains_subcircuit" in ast.unparse(f.node)
        raises = any(isinstance(x, ast.Raise) for x in ast.walk(f.node))
        return reads and raises

    cfg = CFG(bc.body)
    ctor = None
    for st in iter_stmts(bc.body):
        if any(isinstance(c, ast.Call) and isinstance(c.func, ast.Name) and c.func.id == "Circuit" for c in ast.walk(st)):
            ctor = st
            break
    if ctor is None:
        rep.undecided(rule, construct_of(bc, "assembled-nesting"), "the construction of the Circuit is not found", bc.loc())
        return
    checked = {"macros": None, "statements": None}
    for st in iter_stmts(bc.body):
        if not isinstance(st, ast.For) or st.lineno > ctor.lineno:
            continue
        src = ast.unparse(st.iter)
        which = "macros" if "macros" in src else "statements" if "statements" in src else None
        if which is None:
            continue
        for c in ast.walk(st):
            if isinstance(c, ast.Call):
                r = ix.resolve_expr(bc.module, c.func, bc) if isinstance(c.func, (ast.Name, ast.Attribute)) else None
                if r and r[0] == "func" and refuses_nesting(r[1]):
                    n_ = cfg.node(st)
                    if n_ is not None and cfg.must_pass_nodes(cfg.node(ctor), [n_]):
                        checked[which] = c
    for which, c in checked.items():
        cons = construct_of(bc, f"assembled-nesting:{which}")
        if c is not None:
            rep.ok(rule, cons, f"`{ast.unparse(c)[:60]}` for each of the {which}", f"{bc.path}:{c.lineno}")
        else:
            rep.violation(rule, cons, f"no nesting check of the assembled {which} precedes the construction of the Circuit: `outer = cb.subcircuit(); outer.loop(1, body_with_a_subcircuit)` (CircuitBuilder.loop in its default form builds the loop ahead of the circuit) is accepted, although the same program is refused as text, in Q-syntax and with unevaluated=True -- and the text generated from the accepted circuit does not parse", f"{bc.path}:{ctor.lineno}", witness="b = CircuitBuilder(); body = SequentialBlockBuilder(); body.subcircuit().gate('Foo', r[0]); b.subcircuit().loop(1, body); b.build()")


_add("C17", assembled_program_nesting_checked, "C17.12")
_add("C14", assembled_program_nesting_checked, "C14.21")


# ---------------------------------------------------------------- C04: the expander's normaliser agrees with the builder's

def index_normaliser_handles_bool(ctx, rep, rule):
    """The builder turns an index or count that is written out into a plain integer with `as_integer` (int(v) when
    it equals v: 2.0 -> 2, True -> 1).  The expander's own normaliser for substituted values has to agree, or a
    macro call differs from its hand-substituted body."""
    ix = ctx.ix
    f = _func(ix, "jaqalpaq.core.algorithm.expand_macros.filter_float")
    rep.rule(rule, "expand_macros' normaliser for substituted indices and counts converts bool as the builder's as_integer does (sibling agreement)", floor=1)
    cons = construct_of(f, "bool")
    v = f.params[0]
    handled = False
    for t in ast.walk(f.node):
        if isinstance(t, ast.Call) and isinstance(t.func, ast.Name) and t.func.id == "isinstance" and len(t.args) == 2 and isinstance(t.args[0], ast.Name) and t.args[0].id == v:
            ts = t.args[1].elts if isinstance(t.args[1], ast.Tuple) else [t.args[1]]
            if {ast.unparse(x).split(".")[-1] for x in ts} & {"bool", "int", "Integral", "Real", "Number"}:
                handled = True
    generic = not any(isinstance(t, ast.Call) and isinstance(t.func, ast.Name) and t.func.id == "isinstance" for t in ast.walk(f.node))
    if handled:
        rep.ok(rule, cons, "bool (or every integral number) is converted", f.loc())
    elif generic:
        rep.undecided(rule, cons, "no type test at all: the conversion is by value", f.loc())
    else:
        rep.violation(rule, cons, "only float is normalised: `macro foo i { G q[i] }; foo True` expands to the qubit `q[True]` (written so by the generator, refused by the parser) while the hand-substituted `G q[True]` is built as q[1]", f.loc(), witness="build([... ['macro', 'foo', 'i', [..['gate', 'G', ['array_item', 'q', 'i']]]], ['gate', 'foo', True]])")


_add("C04", index_normaliser_handles_bool, "C04.17")


# ---------------------------------------------------------------- C02 / C16: positions use the lexer's notion of a line

def positions_count_newlines_like_the_lexer(ctx, rep, rule):
    """The lexer advances its line number on "\\n" only.  str.splitlines() also splits at \\r, \\f, \\x1c-\\x1e, \\x85,
    U+2028, U+2029 and drops the empty line after a final newline, so a position computed with it is not the
    position of the end of input (nor of any token) for texts that end in a newline or contain those characters."""
    ix = ctx.ix
    rep.rule(rule, "no error position in the parser module is computed with str.splitlines() (the lexer counts \"\\n\" only; splitlines() splits at more characters and forgets the line after a final newline)", floor=1)
    n = 0
    for f in ix.functions.values():
        if f.module != "jaqalpaq.parser.slyparse" or isinstance(f.node, ast.Lambda):
            continue
        makes_pos = any(isinstance(c, ast.Call) and "ParseError" in ast.unparse(c.func) for c in ast.walk(f.node)) or any(w in f.name for w in ("col", "pos", "error"))
        if not makes_pos:
            continue
        n += 1
        bad = [c for c in ast.walk(f.node) if isinstance(c, ast.Call) and isinstance(c.func, ast.Attribute) and c.func.attr == "splitlines"]
        cons = construct_of(f, "line-notion")
        if bad:
            rep.violation(rule, cons, f"`{ast.unparse(bad[0])[:60]}` computes a position: for a text that ends in a newline (`{{ X q\\n`) the reported end of input is 1:6, the newline token, instead of 2:1 -- a position before the end of input although every token up to the end is a viable prefix", f"{f.path}:{bad[0].lineno}", witness="'{ X q\\n'")
        else:
            rep.ok(rule, cons, "no splitlines()", f.loc())
    if n == 0:
        rep.undecided(rule, "parser.slyparse:positions", "no position-computing function found")


_add("C02", positions_count_newlines_like_the_lexer, "C02.14")
_add("C16", positions_count_newlines_like_the_lexer, "C16.36")


# ---------------------------------------------------------------- C03: a cache keyed without the order must not hold what depends on the order

def order_free_cache_of_ordered_value(ctx, rep, rule):
    """In the emulator a gate's qubit operands are an ORDERED list (bit j of the matrix index belongs to the j-th
    operand).  A table filled by iterating that list, cached under a key that forgets the order (a bitmask built
    with |=, a set, a sorted tuple), hands the first order's table to a later gate on the same qubits in another
    order."""
    ix = ctx.ix
    n = 0
    rep.rule(rule, "no cache of the emulator that is keyed order-insensitively on the qubit operands (bitmask, set, sorted) stores a value computed by iterating the operands in order", floor=0)
    for f in ix.functions.values():
        if f.module != "jaqalpaq.emulator.unitary" or isinstance(f.node, ast.Lambda):
            continue
        caches = {t.id for a in ast.walk(f.node) if isinstance(a, ast.Assign) and (isinstance(a.value, ast.Dict) and not a.value.keys or (isinstance(a.value, ast.Call) and isinstance(a.value.func, ast.Name) and a.value.func.id == "dict" and not a.value.args)) for t in a.targets if isinstance(t, ast.Name)}
        for st in ast.walk(f.node):
            if not (isinstance(st, ast.Assign) and len(st.targets) == 1 and isinstance(st.targets[0], ast.Subscript) and isinstance(st.targets[0].value, ast.Name) and st.targets[0].value.id in caches and isinstance(st.targets[0].slice, ast.Name)):
                continue
            n += 1
            cache, key = st.targets[0].value.id, st.targets[0].slice.id
            cons = construct_of(f, f"cache:{cache}")
            # how is the key built?
            ordered_lists = set()
            order_free = False
            for lp in ast.walk(f.node):
                if isinstance(lp, ast.For) and isinstance(lp.iter, ast.Name):
                    for a in ast.walk(lp):
                        if isinstance(a, ast.AugAssign) and isinstance(a.target, ast.Name) and a.target.id == key and isinstance(a.op, (ast.BitOr, ast.Add, ast.BitXor)):
                            order_free = True
                            ordered_lists.add(lp.iter.id)
            for a in ast.walk(f.node):
                if isinstance(a, ast.Assign) and any(isinstance(t, ast.Name) and t.id == key for t in a.targets) and isinstance(a.value, ast.Call) and isinstance(a.value.func, ast.Name) and a.value.func.id in ("frozenset", "set", "sorted") and a.value.args and isinstance(a.value.args[0], ast.Name):
                    order_free = True
                    ordered_lists.add(a.value.args[0].id)
            if not order_free:
                rep.ok(rule, cons, f"the key `{key}` is not recognised as order-insensitive", f"{f.path}:{st.lineno}")
                continue
            # is the stored value filled by iterating the same list in order?
            val = st.value.id if isinstance(st.value, ast.Name) else None
            fills = False
            if val is not None:
                for lp in ast.walk(f.node):
                    if isinstance(lp, ast.For) and isinstance(lp.iter, ast.Name) and lp.iter.id in ordered_lists:
                        # the loop sits inside a statement that also mentions the cached value
                        for outer in ast.walk(f.node):
                            if isinstance(outer, (ast.For, ast.Try, ast.If)) and outer is not lp and any(x is lp for x in ast.walk(outer)) and any(isinstance(x, ast.Name) and x.id == val for x in ast.walk(outer)) and not any(isinstance(x, ast.AugAssign) and isinstance(x.target, ast.Name) and x.target.id == key for x in ast.walk(lp)):
                                fills = True
            if fills:
                rep.violation(rule, cons, f"`{ast.unparse(st)}`: the key `{key}` is built from {sorted(ordered_lists)} without its order, the stored `{val}` by iterating it in order: `CRx q[1] q[2] 1.1; CRx q[2] q[1] 0.4` in one subcircuit applies the second gate with the first one's column table (bit j of the matrix index no longer belongs to the j-th operand)", f"{f.path}:{st.lineno}", witness="CRx q[1] q[2] 1.1; CRx q[2] q[1] 0.4")
            else:
                rep.undecided(rule, cons, "order-insensitive key, but what is stored is not recognised", f"{f.path}:{st.lineno}")
    rep.ok(rule, "emulator.unitary:caches", f"{n} cache stores examined")


_add("C03", order_free_cache_of_ordered_value, "C03.16")


# ---------------------------------------------------------------- C16: the state vector's allocation fails as a JaqalError

def state_vector_allocation_guarded(ctx, rep, rule):
    """`numpy.empty(2**n)` refuses at once with ValueError (n >= 64: "Maximum allowed dimension exceeded") or
    MemoryError; run_jaqal_string lets it through unless the allocation is converted."""
    ix = ctx.ix
    m = _method(ix, "jaqalpaq.emulator.unitary.UnitarySerializedEmulator", "_make_subcircuit")
    rep.rule(rule, "the emulator allocates its state vectors (size 2**n) inside a try whose handler covers ValueError and MemoryError and raises a JaqalError", floor=1)
    allocs = [c for c in ast.walk(m.node) if isinstance(c, ast.Call) and isinstance(c.func, ast.Attribute) and c.func.attr in ("empty", "zeros", "ones", "full") and "numpy" in ast.unparse(c.func) or (isinstance(c, ast.Call) and isinstance(c.func, ast.Attribute) and c.func.attr in ("empty", "zeros", "ones", "full") and isinstance(c.func.value, ast.Name) and c.func.value.id in ("np", "numpy"))]
    pow_names = {t.id for a in ast.walk(m.node) if isinstance(a, ast.Assign) and isinstance(a.value, ast.BinOp) and isinstance(a.value.op, (ast.Pow, ast.LShift)) for t in a.targets if isinstance(t, ast.Name)}
    allocs = [c for c in allocs if c.args and (any(isinstance(x, ast.Name) and x.id in pow_names for x in ast.walk(c.args[0])) or any(isinstance(x, ast.BinOp) and isinstance(x.op, (ast.Pow, ast.LShift)) for x in ast.walk(c.args[0])))]
    if not allocs:
        rep.undecided(rule, construct_of(m, "state-vector-allocation"), "no allocation of size 2**n recognised", m.loc())
        return
    tries = [t for t in ast.walk(m.node) if isinstance(t, ast.Try)]
    for c in allocs:
        cons = construct_of(m, f"state-vector-allocation:{ast.unparse(c)[:24]}")
        ok = False
        for t in tries:
            if not any(x is c for b in t.body for x in ast.walk(b)):
                continue
            for h in t.handlers:
                names = set()
                if h.type is None:
                    names = {"BaseException"}
                else:
                    names = {ast.unparse(x).split(".")[-1] for x in (h.type.elts if isinstance(h.type, ast.Tuple) else [h.type])}
                covers = ({"ValueError", "MemoryError"} <= names) or (names & {"Exception", "BaseException"})
                raises = any(isinstance(r, ast.Raise) and r.exc is not None and "Jaqal" in ast.unparse(r.exc) for b in h.body for r in ast.walk(b))
                if covers and raises:
                    ok = True
        loc = f"{m.path}:{c.lineno}"
        if ok:
            rep.ok(rule, cons, "allocation failure becomes a JaqalError", loc)
        else:
            rep.violation(rule, cons, f"`{ast.unparse(c)[:50]}` is not guarded: `register q[70]; prepare_all; measure_all` makes run_jaqal_string fail with numpy's ValueError (Maximum allowed dimension exceeded), `register q[40]` with MemoryError -- at once, before any work is done -- instead of a JaqalError", loc, witness="register q[70]\nprepare_all\nmeasure_all")


_add("C16", state_vector_allocation_guarded, "C16.37")
