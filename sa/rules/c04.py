"""C04 -- macro expansion preserves the meaning of the program (decided clauses)."""

from __future__ import annotations

import ast

from ..index import AnalysisError
from ..cfg import CFG, walk_no_nested, iter_stmts
from .common import visitor_transformer, check_field_flow, construct_of, cls_construct, check_changed_flag

MOD = "jaqalpaq.core.algorithm.expand_macros"
BLOCK = "jaqalpaq.core.block.BlockStatement"
LOOP = "jaqalpaq.core.block.LoopStatement"
GATE = "jaqalpaq.core.gate.GateStatement"
CIRCUIT = "jaqalpaq.core.circuit.Circuit"
QUBIT = "jaqalpaq.core.register.NamedQubit"
MACRO = "jaqalpaq.core.macro.Macro"

R = "the property says block kinds, subcircuit annotations, loop counts and header information are carried over unchanged"

BLOCK_ROWS = [
    (BLOCK, "parallel", "required", R),
    (BLOCK, "subcircuit", "required", R),
    (BLOCK, "iterations", "required", R),
    (BLOCK, "statements", "required", R),
    (LOOP, "iterations", "required", R),
    (LOOP, "statements", "required", R),
    (GATE, "gate_def", "required", "the gate called and its arguments are the meaning of a gate statement"),
    (GATE, "parameters", "required", "the gate called and its arguments are the meaning of a gate statement"),
]


def find_visitors(ctx):
    """MacroExpander = the Visitor subclass instantiated by expand_macros();
    the replacer = the Visitor subclass of the module that defines visit_Parameter."""
    ix, T = ctx.ix, ctx.typer
    entry = ix.func(f"{MOD}.expand_macros")
    expander = None
    for cs in T.callsites(entry):
        if cs.kind == "constructor" and cs.classes and T.is_visitor(cs.classes[0]):
            expander = cs.classes[0]
    replacer = None
    for c in ix.classes.values():
        if c.module == MOD and T.is_visitor(c.qualname) and "visit_Parameter" in c.methods:
            replacer = c.qualname
    if expander is None or replacer is None:
        raise AnalysisError("C04: cannot locate the expander/replacer visitors in expand_macros.py")
    return expander, replacer


def run(ctx, rep):
    ix, T = ctx.ix, ctx.typer
    from .common import check_recursion_guard
    check_recursion_guard(ctx, rep, "C04.10", ['jaqalpaq.core.algorithm.expand_macros.expand_macros'], ("jaqalpaq.emulator.pygsti", "jaqalpaq.ipc", "jaqalpaq._cli", "jaqalpaq.qsyntax"))
    from .common import check_alias_name_kept
    check_alias_name_kept(ctx, rep, "C04.9", ("jaqalpaq.core.algorithm.expand_macros",))
    from .common import check_macro_argument_binding
    check_macro_argument_binding(ctx, rep, "C04.8")
    from .common import check_fast_paths
    _fp_mods = ["jaqalpaq.core.algorithm.expand_macros"]
    check_fast_paths(ctx, rep, "C04.7", [f for f in ix.functions.values() if f.module in _fp_mods and (f.cls is None or T.is_visitor(f.cls))], None)
    from .common import check_falsy_zero
    check_falsy_zero(ctx, rep, "C04.6", ['jaqalpaq.core.algorithm.expand_macros', 'jaqalpaq.core.gatedef', 'jaqalpaq.core.gate', 'jaqalpaq.core.macro', 'jaqalpaq.core.parameter'], floor_positions=5)
    expander, replacer = find_visitors(ctx)
    rep.analysed["visitors"] = [expander, replacer]
    rep.assume("visitor convention: the first parameter of visit_<K> has static type K (Visitor._resolve_method_name)")
    rep.assume("a read counts only if it reaches a return/yield value, a branch condition or visitor state that is read again; reads in messages, asserts and bare expressions do not count")

    # ------------------------------------------------------------ C04.1
    rep.rule("C04.1", "field flow (READ and CTOR) through MacroExpander and GateReplacer", floor=20)
    tr_e = visitor_transformer(ctx, expander)
    tr_r = visitor_transformer(ctx, replacer)
    rep.analysed["functions"] = sorted(tr_e.qualnames | tr_r.qualnames)
    check_field_flow(ctx, rep, "C04.1", tr_e, expander, BLOCK_ROWS + [
        (CIRCUIT, "constants", "required", R),
        (CIRCUIT, "registers", "required", R),
        (CIRCUIT, "native_gates", "required", R),
        (CIRCUIT, "usepulses", "required", R),
        (CIRCUIT, "body", "required", R),
        (CIRCUIT, "macros", "required", "macro definitions are what calls are replaced by (and are kept with preserve_definitions)"),
    ])
    check_field_flow(ctx, rep, "C04.1", tr_r, replacer, BLOCK_ROWS + [
        (QUBIT, "alias_from", "required", "a qubit reference inside a macro body may index a parameter"),
        (QUBIT, "alias_index", "required", "a qubit index inside a macro body may be a parameter"),
        (QUBIT, "name", "exempt", "derived from alias_from/alias_index when the qubit is rebuilt by indexing"),
        (MACRO, "body", "required", "the body is what replaces the call"),
        (MACRO, "parameters", "exempt", "the call's argument dict is already keyed by parameter name (AbstractGate.call), so substitution does not consult the definition's parameter list"),
        (MACRO, "name", "exempt", "the definition's own name does not occur in its expansion"),
        (MACRO, "_ideal_unitary", "exempt", "macros have no unitary"),
    ])

    # ------------------------------------------------------------ C04.2
    rep.rule("C04.2", "a sub-block is dissolved into its parent only under a guard that depends on its kind and subcircuit annotation", floor=1)
    for tr, vis in ((tr_e, expander), (tr_r, replacer)):
        for f in tr.funcs:
            fl = tr.flows[f.qualname]
            for n in walk_no_nested(f.node):
                if not (isinstance(n, ast.Call) and isinstance(n.func, ast.Attribute) and n.func.attr == "extend" and len(n.args) == 1):
                    continue
                arg = n.args[0]
                if not (isinstance(arg, ast.Attribute) and arg.attr == "statements"):
                    continue
                src_t = {t for t in T.types_of(arg.value) if t in ix.classes}
                if src_t and BLOCK not in src_t and not any(BLOCK in ix.mro(t) for t in src_t):
                    continue
                # receiver rooted at a Circuit (the top-level body, always a plain sequential block)?
                recv = n.func.value
                rooted_circuit = False
                x = recv
                while isinstance(x, ast.Attribute):
                    x = x.value
                    if CIRCUIT in T.types_of(x):
                        rooted_circuit = True
                cons = construct_of(f, "splice")
                loc = f"{f.path}:{n.lineno}"
                if rooted_circuit:
                    rep.exempt("C04.2", cons, "splice of the circuit body into the new circuit's body (always a plain sequential block)", loc)
                    continue
                tests = fl.control_tests(n)
                need = {"parallel": False, "subcircuit": False}
                blk = arg.value  # the block being dissolved
                for t in tests:
                    ids, _ = fl.depends(t)
                    for m in walk_no_nested(f.node):
                        if id(m) in ids and isinstance(m, ast.Attribute) and m.attr in need:
                            # the annotation must be read on the dissolved block itself
                            if isinstance(blk, ast.Name) and isinstance(m.value, ast.Name) and m.value.id != blk.id:
                                continue
                            need[m.attr] = True
                missing = [k for k, v in need.items() if not v]
                if missing:
                    rep.violation("C04.2", cons, f"splice guard does not depend on {', '.join(missing)} of the block being dissolved: a {'subcircuit ' if 'subcircuit' in missing else ''}block of the parent's kind loses its annotation", loc)
                else:
                    rep.ok("C04.2", cons, "guard depends on parallel and subcircuit", loc)

    for tr in (tr_e, tr_r):
        check_changed_flag(ctx, rep, "C04.2", tr)

    # ------------------------------------------------------------ C04.3 / C04.4
    rep.rule("C04.3", "an argument-count comparison guarding a raise dominates the construction of the replacer", floor=1)
    rep.rule("C04.4", "every gate statement produced by the expander/replacer goes back through the macro lookup", floor=2)
    sites = []  # (FuncInfo, call node) constructing the replacer
    for f in ix.functions.values():
        if f.module != MOD:
            continue
        for cs in T.callsites(f):
            if cs.kind == "constructor" and cs.classes and cs.classes[0] == replacer:
                sites.append((f, cs.node))
    if not sites:
        raise AnalysisError("C04.3: no construction site of the replacer visitor found")
    lookup_funcs = {f.qualname for f, _ in sites}
    for f, call in sites:
        cfg = CFG(f.body)
        site = cfg.containing_stmt_node(call, f.body)
        cons = construct_of(f, "arity-guard")
        loc = f"{f.path}:{call.lineno}"
        guards = []
        for st in iter_stmts(f.body):
            if isinstance(st, ast.If):
                tn = cfg.node(st)
                lbl = cfg.guarded_by_raise(site, tn)
                if lbl is not None:
                    guards.append(st)
        if not guards:
            rep.violation("C04.3", cons, "no raising check dominates the substitution: a call with the wrong number of arguments would be expanded", loc)
            continue
        recognised = False
        one_sided = None
        fl = None
        from ..fieldflow import FuncFlow
        fl = FuncFlow(ix, T, f)
        for g in guards:
            ids, roots = fl.depends(g.test)
            lens = [m for r in roots for m in ast.walk(r) if isinstance(m, ast.Call) and isinstance(m.func, ast.Name) and m.func.id == "len"]
            cmps = [m for m in ast.walk(g.test) if isinstance(m, ast.Compare)]
            srcs = {ast.unparse(m.args[0]) for m in lens if m.args}
            if len(srcs) >= 2 and cmps and any("parameters" in s for s in srcs):
                ops = {type(o) for c in cmps for o in c.ops}
                if ast.NotEq in ops or ast.Eq in ops or ({ast.Lt, ast.Gt} <= ops) or ({ast.Lt, ast.LtE} & ops and {ast.Gt, ast.GtE} & ops):
                    recognised = True
                else:
                    one_sided = g
        if one_sided is not None and not recognised:
            rep.violation("C04.3", cons, f"the argument-count check `{ast.unparse(one_sided.test)}` is one-sided: calls with the other kind of wrong count are expanded", f"{f.path}:{one_sided.lineno}")
        elif recognised:
            rep.ok("C04.3", cons, "len(call arguments) compared with len(macro parameters) guards a raise that dominates the replacer", loc)
        else:
            rep.undecided("C04.3", cons, "a raising guard dominates the replacer but is not the recognised length comparison", loc)

    for vis in (expander, replacer):
        fi = ix.find_method(vis, "visit_GateStatement")
        cons = cls_construct(ix, vis, "visit_GateStatement")
        if fi is None:
            if vis == expander:
                rep.violation("C04.4", cons, "the expander has no GateStatement handler: macro calls are never replaced", ix.classes[vis].loc())
            else:
                rep.violation("C04.4", cons, "the replacer has no GateStatement handler: arguments inside macro bodies are not substituted and nested calls survive", ix.classes[vis].loc())
            continue
        rets = [st for st in iter_stmts(fi.body) if isinstance(st, ast.Return)]
        bad = []
        for r in rets:
            ok = False
            if isinstance(r.value, ast.Call):
                for cs in T.callsites(fi):
                    if cs.node is r.value and any(t.qualname in lookup_funcs for t in cs.targets):
                        ok = True
            if not ok:
                bad.append(r)
        if not rets:
            rep.violation("C04.4", cons, "handler returns nothing", fi.loc())
        elif bad:
            rep.violation("C04.4", cons, f"returns a gate statement without passing it through the macro lookup ({', '.join(sorted(q.split('.')[-1] for q in lookup_funcs))}): a (nested) macro call survives expansion", f"{fi.path}:{bad[0].lineno}")
        else:
            rep.ok("C04.4", cons, "every return goes through the macro lookup", fi.loc())

    # ------------------------------------------------------------ C04.5
    rep.rule("C04.5", "every IR position that may hold a Parameter is visited by the replacer", floor=4)
    positions = [
        (GATE, "parameters"), (QUBIT, "alias_from"), (QUBIT, "alias_index"),
        (LOOP, "iterations"), (BLOCK, "iterations"),
    ]
    c041_violated = {o.construct for o in rep.obligations if o.rule == "C04.1" and o.verdict == "violated"}
    for cls, member in positions:
        kname = ix.classes[cls].name
        cons = f"{cls_construct(ix, replacer)}:{kname}.{member}:visited"
        if f"{cls_construct(ix, replacer)}:{kname}.{member}" in c041_violated:
            rep.info("C04.5", cons, "field is not read at all (reported under C04.1)")
            continue
        from .common import position_visited
        visited = position_visited(ctx, tr_r, cls, member) is not None
        handler = tr_r.has_handler(replacer, cls)
        if visited:
            rep.ok("C04.5", cons, "passed to self.visit")
        else:
            rep.violation("C04.5", cons, f"{kname}.{member} may hold a macro parameter but is never passed to the replacer's visit: the parameter is not substituted", handler.loc() if handler else "")
