"""C09 -- subcircuit blocks mean prepare_all ... measure_all (decided clauses)."""

from __future__ import annotations

import ast

import networkx as nx

from ..index import AnalysisError
from ..cfg import CFG, walk_no_nested, iter_stmts
from ..fieldflow import FuncFlow
from .common import visitor_transformer, check_field_flow, construct_of, cls_construct, position_visited, short, check_changed_flag

MOD = "jaqalpaq.core.algorithm.expand_subcircuits"
BLOCK = "jaqalpaq.core.block.BlockStatement"
LOOP = "jaqalpaq.core.block.LoopStatement"
CIRCUIT = "jaqalpaq.core.circuit.Circuit"
MACRO = "jaqalpaq.core.macro.Macro"
WALKER = "jaqalpaq.core.algorithm.walkers.DiscoverSubcircuits"

R = "the property says every other statement, nesting, loop count and all header data are left unchanged"

PASSES = {
    "expand_subcircuits": "jaqalpaq.core.algorithm.expand_subcircuits.expand_subcircuits",
    "fill_in_let": "jaqalpaq.core.algorithm.fill_in_let.fill_in_let",
    "expand_macros": "jaqalpaq.core.algorithm.expand_macros.expand_macros",
    "fill_in_map": "jaqalpaq.core.algorithm.fill_in_map.fill_in_map",
}


def find_expander(ctx):
    ix, T = ctx.ix, ctx.typer
    entry = ix.func(f"{MOD}.expand_subcircuits")
    for cs in T.callsites(entry):
        if cs.kind == "constructor" and cs.classes and T.is_visitor(cs.classes[0]):
            return entry, cs
    raise AnalysisError("C09: cannot locate the visitor instantiated by expand_subcircuits")


def bounding_attrs(ctx, entry, ctor_cs):
    """self attributes of the expander holding the prepare / measure definitions."""
    ix, T = ctx.ix, ctx.typer
    vis = ctor_cs.classes[0]
    init = ix.find_method(vis, "__init__")
    fl = FuncFlow(ix, T, entry)
    roles = {}
    params = init.params[1:]
    call = ctor_cs.node
    bound = {}
    for i, a in enumerate(call.args):
        if i < len(params):
            bound[params[i]] = a
    for k in call.keywords:
        if k.arg:
            bound[k.arg] = k.value
    for p, a in bound.items():
        _, roots = fl.depends(a)
        consts = {n.value for r in roots for n in ast.walk(r) if isinstance(n, ast.Constant) and isinstance(n.value, str)}
        if "prepare_all" in consts and "measure_all" not in consts:
            roles[p] = "prepare"
        elif "measure_all" in consts and "prepare_all" not in consts:
            roles[p] = "measure"
    attrs = {}
    for c in ix.mro(vis):
        for name, lst in ix.classes[c].self_attrs.items():
            for fi, v in lst:
                if fi.name == "__init__" and isinstance(v, ast.Name) and v.id in roles:
                    attrs[roles[v.id]] = name
    return attrs


def run(ctx, rep):
    ix, T = ctx.ix, ctx.typer
    from .common import check_macro_relink
    check_macro_relink(ctx, rep, "C09.9", {"jaqalpaq.core.algorithm.expand_subcircuits", "jaqalpaq.core.algorithm.unit_timing", "jaqalpaq.core.algorithm.expand_macros"})
    from .common import check_macro_table_lookup
    check_macro_table_lookup(ctx, rep, "C09.8")
    from .common import check_fast_paths
    _fp_mods = ["jaqalpaq.core.algorithm.expand_subcircuits"]
    check_fast_paths(ctx, rep, "C09.7", [f for f in ix.functions.values() if f.module in _fp_mods and (f.cls is None or T.is_visitor(f.cls))], {"jaqalpaq.core.algorithm.expand_subcircuits.expand_subcircuits": {"body", "macros"}})
    from .common import check_falsy_zero
    check_falsy_zero(ctx, rep, "C09.6", ['jaqalpaq.core.algorithm.unit_timing'], floor_positions=3)
    entry, ctor_cs = find_expander(ctx)
    vis = ctor_cs.classes[0]
    rep.analysed["visitor"] = vis
    tr = visitor_transformer(ctx, vis)
    rep.analysed["functions"] = sorted(tr.qualnames)
    rep.assume("visitor convention: the first parameter of visit_<K> has static type K")

    # ------------------------------------------------------------ C09.3
    rep.rule("C09.3", "field flow through SubcircuitExpander", floor=10)
    check_field_flow(ctx, rep, "C09.3", tr, vis, [
        (BLOCK, "parallel", "required", R),
        (BLOCK, "statements", "required", R),
        (BLOCK, "subcircuit", "read", "the annotation selects the replacement (READ only: the result is deliberately a plain block)"),
        (BLOCK, "iterations", "exempt", "the repetition count of a subcircuit is not represented after expansion (the emulator ignores it; tests/core/algorithm/test_expand_subcircuits.py::test_ignore_iterations)"),
        (LOOP, "iterations", "required", R),
        (LOOP, "statements", "required", R),
        (CIRCUIT, "constants", "required", R),
        (CIRCUIT, "registers", "required", R),
        (CIRCUIT, "macros", "required", R),
        (CIRCUIT, "native_gates", "required", R),
        (CIRCUIT, "usepulses", "required", R),
        (CIRCUIT, "body", "required", R),
    ])

    # ------------------------------------------------------------ C09.1
    rep.rule("C09.1", "the replacement of a subcircuit block starts with the prepare gate and ends with the measure gate", floor=1)
    attrs = bounding_attrs(ctx, entry, ctor_cs)
    if set(attrs) != {"prepare", "measure"}:
        raise AnalysisError(f"C09.1: cannot identify the expander attributes holding the prepare/measure definitions ({attrs})")
    sites = 0
    for f in tr.funcs:
        if f.cls != vis:
            continue
        fl = tr.flows[f.qualname]
        # constructions of BlockStatement control-dependent on a true block.subcircuit test, or in a helper
        # reached only from such a branch
        for cs in T.callsites(f):
            if cs.kind != "constructor" or not cs.classes or cs.classes[0] != BLOCK:
                continue
            uses_bounding = False
            stm = None
            for k in cs.node.keywords:
                if k.arg == "statements":
                    stm = k.value
            init = ix.find_method(BLOCK, "__init__")
            pi = init.params[1:].index("statements") if "statements" in init.params else None
            if stm is None and pi is not None and pi < len(cs.node.args):
                stm = cs.node.args[pi]
            if stm is None:
                continue
            ids, roots = fl.depends(stm)
            calls_attr = lambda e, a: isinstance(e, ast.Call) and isinstance(e.func, ast.Attribute) and e.func.attr == a and isinstance(e.func.value, ast.Name) and e.func.value.id == fl.selfname
            mentions = any(
                isinstance(n, ast.Attribute) and n.attr in attrs.values() for r in roots for n in ast.walk(r)
            )
            if not mentions:
                continue
            sites += 1
            cons = construct_of(f, "subcircuit-shape")
            loc = f"{f.path}:{cs.node.lineno}"
            lst = None
            for r in roots:
                if isinstance(r, (ast.List, ast.Tuple)) and r.elts:
                    lst = r
            # [prep()] + body + [meas()]
            if lst is None:
                for r in roots:
                    if isinstance(r, ast.BinOp) and isinstance(r.op, ast.Add):
                        parts = []
                        x = r
                        while isinstance(x, ast.BinOp) and isinstance(x.op, ast.Add):
                            parts.insert(0, x.right)
                            x = x.left
                        parts.insert(0, x)
                        if isinstance(parts[0], ast.List) and isinstance(parts[-1], ast.List) and parts[0].elts and parts[-1].elts:
                            lst = ast.List(elts=[parts[0].elts[0], *[ast.Starred(value=p) for p in parts[1:-1]], parts[-1].elts[-1]])
            if lst is None:
                rep.undecided("C09.1", cons, "statement list is not a list display", loc)
                continue
            first, last = lst.elts[0], lst.elts[-1]
            ok_first = calls_attr(first, attrs["prepare"])
            ok_last = calls_attr(last, attrs["measure"])
            visit_nodes = {id(vcs.node) for vcs in T.callsites(f) if vcs.kind == "visit"}
            middle_visits = False
            for e in lst.elts[1:-1]:
                mids, _ = fl.depends(e)
                if mids & visit_nodes:
                    middle_visits = True
            if ok_first and ok_last and middle_visits and len(lst.elts) >= 3:
                rep.ok("C09.1", cons, "[prepare(), *visited body, measure()]", loc)
            else:
                what = []
                if not ok_first:
                    what.append("first element is not a call of the prepare definition")
                if not ok_last:
                    what.append("last element is not a call of the measure definition")
                if not middle_visits:
                    what.append("the body between them is not the visited statements")
                rep.violation("C09.1", cons, "; ".join(what), loc)
    if sites == 0:
        rep.violation("C09.1", cls_construct(ix, vis, "subcircuit-shape"), "no block is built from the prepare/measure definitions: subcircuit blocks are not bracketed", ix.classes[vis].loc())

    # ------------------------------------------------------------ C09.2
    rep.rule("C09.2", "no subcircuit block is left behind", floor=3)
    for f in tr.funcs:
        for cs in T.callsites(f):
            if cs.kind == "constructor" and cs.classes and cs.classes[0] == BLOCK and isinstance(cs.node, ast.Call):
                cons = construct_of(f, "constructs-plain-block")
                loc = f"{f.path}:{cs.node.lineno}"
                sub = None
                init = ix.find_method(BLOCK, "__init__")
                params = init.params[1:]
                for k in cs.node.keywords:
                    if k.arg == "subcircuit":
                        sub = k.value
                if "subcircuit" in params and params.index("subcircuit") < len(cs.node.args):
                    sub = cs.node.args[params.index("subcircuit")]
                if sub is None or (isinstance(sub, ast.Constant) and not sub.value):
                    rep.ok("C09.2", cons, "subcircuit= absent or constant False", loc)
                else:
                    rep.violation("C09.2", cons, f"the expander constructs a block with subcircuit={ast.unparse(sub)}: a subcircuit block may survive expansion", loc)
    # containers: the circuit body and every macro body must be visited
    cons = cls_construct(ix, vis, "Circuit.body:visited")
    if position_visited(ctx, tr, CIRCUIT, "body"):
        rep.ok("C09.2", cons, "circuit body is visited")
    else:
        rep.violation("C09.2", cons, "the circuit body is not visited", ix.classes[vis].loc())
    cons = cls_construct(ix, vis, "Macro.body:visited")
    hit = position_visited(ctx, tr, MACRO, "body")
    hit2 = position_visited(ctx, tr, CIRCUIT, "macros")
    h = ix.find_method(vis, "visit_Circuit")
    if hit and hit2:
        rep.ok("C09.2", cons, "macro definitions are passed to visit and their bodies are visited")
    else:
        rep.violation("C09.2", cons, "macro definitions are copied without visiting their bodies: `macro m { subcircuit { g } }` keeps its subcircuit block", h.loc() if h else ix.classes[vis].loc())

    check_changed_flag(ctx, rep, "C09.2", tr)

    # ------------------------------------------------------------ C09.4
    rep.rule("C09.4", "every entry point that feeds DiscoverSubcircuits applies the same normalising passes", floor=2)
    g = T.graph(weak=False)
    walker_init = ix.find_method(WALKER, "__init__")
    if walker_init is None:
        raise AnalysisError("C09.4: DiscoverSubcircuits not found")
    ctor_funcs = set()
    for f in ix.functions.values():
        for cs in T.callsites(f):
            if cs.kind == "constructor" and cs.classes and cs.classes[0] == WALKER:
                ctor_funcs.add(f.qualname)
    pass_quals = set(PASSES.values())
    for q in pass_quals:
        ix.func(q)
    # graph without the passes' own bodies
    g2 = g.copy()
    for q in pass_quals:
        g2.remove_edges_from(list(g2.out_edges(q)))
    feeders = {}
    for f in ix.functions.values():
        called = {name for name, q in PASSES.items() if any(t.qualname == q for cs in T.callsites(f) for t in cs.targets)}
        if not called:
            continue
        reach = nx.descendants(g2, f.qualname) | {f.qualname}
        if reach & ctor_funcs:
            feeders[f.qualname] = called
    rep.analysed["walker_feeders"] = {k: sorted(v) for k, v in feeders.items()}
    if len(feeders) < 1:
        raise AnalysisError("C09.4: no function applies passes before DiscoverSubcircuits")
    union = set().union(*feeders.values())
    for q, called in sorted(feeders.items()):
        f = ix.functions[q]
        cons = construct_of(f, "passes")
        missing = union - called
        if missing:
            rep.violation("C09.4", cons, f"applies {sorted(called)} before DiscoverSubcircuits but not {sorted(missing)}, which {', '.join(short(k) for k in feeders if k != q)} applies: a circuit with subcircuit blocks is executed by one entry point and rejected by the other", f.loc())
        else:
            rep.ok("C09.4", cons, f"applies {sorted(called)}", f.loc())
        # ... and applies each of them unconditionally: whether a pass is needed cannot be told from the body
        # alone (subcircuit blocks sit in macros too), so a pass that runs only under a test is skipped for some circuit
        from ..cfg import CFG
        cfg = CFG(f.body)
        for name in sorted(called):
            pq = PASSES[name]
            nodes = []
            for cs in T.callsites(f):
                if any(t.qualname == pq for t in cs.targets):
                    n_ = cfg.containing_stmt_node(cs.node, f.body)
                    if n_ is not None:
                        nodes.append((n_, cs.node))
            if not nodes:
                continue
            cons2 = construct_of(f, f"unconditional:{name}")
            # the statements from which the walker is reached (its construction, or a call that leads to it)
            sites = []
            for cs in T.callsites(f):
                leads = (cs.kind == "constructor" and cs.classes and cs.classes[0] == WALKER) or any(
                    t.qualname not in pass_quals and (t.qualname in ctor_funcs or (t.qualname in g2 and nx.descendants(g2, t.qualname) & ctor_funcs)) for t in cs.targets)
                if leads:
                    n_ = cfg.containing_stmt_node(cs.node, f.body)
                    if n_ is not None and n_ not in [x for x, _ in nodes]:
                        sites.append(n_)
            if not sites:
                rep.undecided("C09.4", cons2, "the statement from which the walker is reached is not identified", f.loc())
                continue
            if any(not cfg.must_pass_nodes(sn, [n_ for n_, _ in nodes]) for sn in sites):
                rep.violation("C09.4", cons2, f"`{name}` runs on some paths through {short(q)} only: a circuit for which the guarding test is false reaches DiscoverSubcircuits without it -- with every subcircuit block inside a macro (`macro m a {{ subcircuit {{ Px a }} }}; m q[0]`) the output parser refuses what run_jaqal_circuit executes", f"{f.path}:{nodes[0][1].lineno}", witness="macro m a { subcircuit { Px a } }; m q[0]")
            else:
                rep.ok("C09.4", cons2, f"every path through {short(q)} applies {name}", f"{f.path}:{nodes[0][1].lineno}")

    # ------------------------------------------------------------ C09.5
    rep.rule("C09.5", "definition choice: the caller's definition, then native_gates[name], then a fresh definition", floor=1)
    chooser = None
    for cs in T.callsites(entry):
        for t in cs.targets:
            if t.module == MOD and t.cls is None and t.qualname != entry.qualname:
                chooser = t
    if chooser is None:
        rep.undecided("C09.5", construct_of(entry, "definition-choice"), "no helper chooses the bounding gates")
    else:
        cons = construct_of(chooser, "definition-choice")
        cfg = CFG(chooser.body)
        user_p = chooser.params[0]
        rets = [st for st in iter_stmts(chooser.body) if isinstance(st, ast.Return) and st.value is not None]
        r_user = [r for r in rets if isinstance(r.value, ast.Name) and r.value.id == user_p]
        r_native = [r for r in rets if any(isinstance(n, ast.Attribute) and n.attr == "native_gates" for n in ast.walk(r.value))]
        r_fresh = [r for r in rets if isinstance(r.value, ast.Call) and any(t in ix.classes and ix.is_subclass(t, "jaqalpaq.core.gatedef.AbstractGate") for t in T.types_of(r.value))]
        if not (r_user and r_native and r_fresh):
            rep.undecided("C09.5", cons, "the three returns (caller's, native, fresh) are not all recognised", chooser.loc())
        else:
            nu, nn, nf = cfg.node(r_user[0]), cfg.node(r_native[0]), cfg.node(r_fresh[0])
            # the test guarding the user return must dominate the other two; the native lookup must be attempted before the fresh one
            guard = None
            for st in iter_stmts(chooser.body):
                if isinstance(st, ast.If) and any(s is r_user[0] for s in iter_stmts(st.body)):
                    guard = st
            try_native = None
            for st in iter_stmts(chooser.body):
                if isinstance(st, ast.Try) and any(s is r_native[0] for s in iter_stmts(st.body)):
                    try_native = st
            ok = guard is not None and cfg.dominates(cfg.node(guard), nn) and cfg.dominates(cfg.node(guard), nf)
            ok2 = (try_native is not None and cfg.dominates(cfg.node(try_native), nf)) or (try_native is None and cfg.dominates(nn, nf))
            if ok and ok2:
                rep.ok("C09.5", cons, "user definition first, then the native table, then a fresh definition", chooser.loc())
            else:
                rep.violation("C09.5", cons, "the order of preference (caller's definition, native gate, fresh definition) is not enforced by the control flow", chooser.loc())
