"""C18 -- gate definitions check calls; idle and stretched variants (decided clauses)."""

from __future__ import annotations

import ast

from ..index import AnalysisError
from ..cfg import CFG, walk_no_nested, iter_stmts
from ..fieldflow import FuncFlow, names_in
from .common import construct_of, cls_construct
from .c03 import splat_protocol

ABSTRACT_GATE = "jaqalpaq.core.gatedef.AbstractGate"
IDLE = "jaqalpaq.core.gatedef.IdleGateDefinition"
GATEDEF_MOD = "jaqalpaq.core.gatedef"
STRETCH = "jaqalpaq.core.stretch.stretched_gates"


def free_names(fn_node):
    """Names read in a lambda / nested def that are not its own parameters or locals."""
    a = fn_node.args
    bound = {x.arg for x in a.posonlyargs + a.args + a.kwonlyargs}
    if a.vararg:
        bound.add(a.vararg.arg)
    if a.kwarg:
        bound.add(a.kwarg.arg)
    body = [fn_node.body] if isinstance(fn_node, ast.Lambda) else fn_node.body
    for b in body:
        for n in ast.walk(b):
            if isinstance(n, ast.Name) and isinstance(n.ctx, ast.Store):
                bound.add(n.id)
    out = set()
    for b in body:
        for n in ast.walk(b):
            if isinstance(n, ast.Name) and isinstance(n.ctx, ast.Load) and n.id not in bound:
                out.add(n.id)
    return out


def fill_order(ctx, rep, rule, extra=""):
    ix, T = ctx.ix, ctx.typer
    rep.rule(rule, "positional and keyword calls fill the same ordered dict, keyed by parameter name in definition order" + extra, floor=2)
    call = ix.find_method(ABSTRACT_GATE, "call")
    if call is None:
        raise AnalysisError("C18.1: AbstractGate.call vanished")
    selfn = call.params[0]
    stores = []
    for st in iter_stmts(call.body):
        if isinstance(st, ast.Assign) and isinstance(st.targets[0], ast.Subscript) and isinstance(st.targets[0].value, ast.Name):
            stores.append(st)
    fl = FuncFlow(ix, T, call)
    n_ok = 0
    for st in stores:
        key = st.targets[0].slice
        ids, roots = fl.depends(key)
        from_params = any(isinstance(n, ast.Attribute) and n.attr == "parameters" and isinstance(n.value, ast.Name) and n.value.id == selfn for r in roots for n in ast.walk(r))
        by_name = any(isinstance(n, ast.Attribute) and n.attr == "name" for r in roots for n in ast.walk(r))
        cons = construct_of(call, f"fills:{ast.unparse(st.targets[0])}")
        loc = f"{call.path}:{st.lineno}"
        reordered = any(isinstance(n, ast.Call) and isinstance(n.func, ast.Name) and n.func.id in ("sorted", "reversed", "set") for r in roots for n in ast.walk(r))
        if from_params and by_name and not reordered:
            n_ok += 1
            rep.ok(rule, cons, "key is the name of a parameter taken from self.parameters in definition order", loc)
        elif reordered:
            rep.violation(rule, cons, "the argument dict is filled in an order other than the definition order of the parameters: positional and keyword calls build different statements", loc)
        else:
            rep.violation(rule, cons, "the argument dict is not keyed by parameter names taken from self.parameters", loc)
    # bulk fills: params.update(X) keeps X's order
    n_bulk = 0
    for n in walk_no_nested(call.node):
        if isinstance(n, ast.Call) and isinstance(n.func, ast.Attribute) and n.func.attr == "update" and n.args:
            x = n.args[0]
            cons = construct_of(call, f"fills:{ast.unparse(n)[:40]}")
            loc = f"{call.path}:{n.lineno}"
            n_bulk += 1
            kw = call.node.args.kwarg.arg if call.node.args.kwarg else "kwargs"
            if isinstance(x, ast.Name) and x.id == kw:
                rep.violation(rule, cons, f"`{ast.unparse(n)}` fills the argument dict in the caller's keyword order, not the definition order: `g(b=.., a=..)` and `g(a=.., b=..)` build statements whose arguments are printed and bound in different orders", loc)
            elif isinstance(x, ast.DictComp) and any(isinstance(m, ast.Attribute) and m.attr == "parameters" for g in x.generators for m in ast.walk(g.iter)):
                n_ok += 1
                rep.ok(rule, cons, "bulk fill iterates self.parameters (definition order)", loc)
            else:
                rep.undecided(rule, cons, "order of this bulk fill is not recognised", loc)
    if len(stores) + n_bulk < 2:
        rep.undecided(rule, construct_of(call, "fills"), "expected one store per calling convention (positional, keyword)", call.loc())
    return call, fl


def run(ctx, rep):
    ix, T = ctx.ix, ctx.typer

    # ------------------------------------------------------------ C18.1
    call, fl = fill_order(ctx, rep, "C18.1")
    # mixing is rejected
    cons = construct_of(call, "mixing-rejected")
    mix = any(isinstance(st, ast.If) and {"args", "kwargs"} <= names_in(st.test) and any(isinstance(s, ast.Raise) for s in st.body) for st in iter_stmts(call.body))
    if mix:
        rep.ok("C18.1", cons, "positional and keyword arguments together raise JaqalError", call.loc())
    else:
        rep.violation("C18.1", cons, "a call mixing positional and keyword arguments is not rejected", call.loc())
    # the three branches are selected by (args, kwargs) exactly: positional iff args and not kwargs, keyword iff
    # kwargs and not args, rejection iff both -- decided by evaluating the branch tests over the four combinations
    def ev(t, env):
        if isinstance(t, ast.Name) and t.id in env:
            return env[t.id]
        if isinstance(t, ast.UnaryOp) and isinstance(t.op, ast.Not):
            v = ev(t.operand, env)
            return None if v is None else (not v)
        if isinstance(t, ast.BoolOp):
            vals = [ev(v, env) for v in t.values]
            if any(v is None for v in vals):
                return None
            return all(vals) if isinstance(t.op, ast.And) else any(vals)
        return None
    chain = None
    for st in iter_stmts(call.body):
        if isinstance(st, ast.If) and {"args", "kwargs"} & names_in(st.test):
            chain = st
            break
    cons_b = construct_of(call, "branch-selection")
    if chain is None:
        rep.undecided("C18.1", cons_b, "no if/elif chain over args and kwargs found", call.loc())
    else:
        branches = []
        node = chain
        while isinstance(node, ast.If):
            branches.append(node)
            node = node.orelse[0] if len(node.orelse) == 1 and isinstance(node.orelse[0], ast.If) else None

        def taken(env):
            for i, b in enumerate(branches):
                v = ev(b.test, env)
                if v is None:
                    return None
                if v:
                    return i
            return len(branches)

        def kind(b):
            if b.body and all(isinstance(x, ast.Raise) for x in b.body):
                return "reject"
            txt = ast.unparse(ast.Module(body=b.body, type_ignores=[]))
            if "kwargs" in txt:
                return "keyword"
            if "args" in txt:
                return "positional"
            return "other"
        want = {(True, False): "positional", (False, True): "keyword", (True, True): "reject"}
        problems = []
        for (a_, k_), w in want.items():
            i = taken({"args": a_, "kwargs": k_})
            if i is None:
                problems = None
                break
            got = kind(branches[i]) if i < len(branches) else "none"
            if got != w:
                problems.append(f"args={'given' if a_ else 'none'}, kwargs={'given' if k_ else 'none'} takes the {got} branch instead of the {w} one")
        if problems is None:
            rep.undecided("C18.1", cons_b, "branch tests are not boolean combinations of args and kwargs", call.loc())
        elif problems:
            rep.violation("C18.1", cons_b, "; ".join(problems) + ": a call mixing positional and keyword arguments is not rejected (some arguments are silently ignored)", f"{call.path}:{chain.lineno}")
        else:
            rep.ok("C18.1", cons_b, "positional iff only args, keyword iff only kwargs, rejection when both", f"{call.path}:{chain.lineno}")
    # unknown keyword names are rejected
    cons = construct_of(call, "unknown-keywords-rejected")
    leftover = any(isinstance(st, ast.If) and isinstance(st.test, ast.Name) and st.test.id == "kwargs" and any(isinstance(s, ast.Raise) for s in st.body) for st in iter_stmts(call.body))
    if not leftover:
        # other spellings: a raising test that depends on an iteration over kwargs (names not among the parameters) or on its length
        def iterates_kwargs(e):
            for m in ast.walk(e):
                if isinstance(m, ast.comprehension) and isinstance(m.iter, ast.Name) and m.iter.id == "kwargs":
                    return True
                if isinstance(m, ast.Call) and isinstance(m.func, ast.Name) and m.func.id in ("set", "len", "list", "sorted") and m.args and isinstance(m.args[0], ast.Name) and m.args[0].id == "kwargs":
                    return True
                if isinstance(m, ast.BinOp) and isinstance(m.op, ast.Sub) and any(isinstance(k, ast.Name) and k.id == "kwargs" for k in ast.walk(m)):
                    return True
            return False
        for st in iter_stmts(call.body):
            if isinstance(st, ast.If) and any(isinstance(s_, ast.Raise) for s_ in st.body):
                ids, roots = fl.depends(st.test)
                if iterates_kwargs(st.test) or any(iterates_kwargs(r) for r in roots):
                    leftover = True
            if isinstance(st, ast.For) and isinstance(st.iter, ast.Name) and st.iter.id == "kwargs" and any(isinstance(s_, ast.Raise) for s_ in iter_stmts(st.body)):
                leftover = True
    if leftover:
        rep.ok("C18.1", cons, "keyword arguments that name no parameter raise JaqalError", call.loc())
    else:
        rep.violation("C18.1", cons, "keyword arguments that name no parameter are silently ignored", call.loc())

    # ------------------------------------------------------------ C18.2
    rep.rule("C18.2", "idle definitions: same signature, prepare/measure refused, add_idle_gates keeps every gate and adds its idle twin", floor=3)
    idle = ix.cls(IDLE)
    init = idle.methods.get("__init__")
    if init is None:
        raise AnalysisError("C18.2: IdleGateDefinition.__init__ vanished")
    cons = construct_of(init, "signature")
    gparam = init.params[1]
    sig = [v for fi, v in idle.self_attrs.get("_parameters", []) if fi.name == "__init__"]
    if sig and all(v is not None and any(isinstance(n, ast.Attribute) and n.attr in ("_parameters", "parameters") and isinstance(n.value, ast.Name) and n.value.id == gparam for n in ast.walk(v)) for v in sig):
        rep.ok("C18.2", cons, "the idle gate's parameter list is the parent's", init.loc())
    else:
        rep.violation("C18.2", cons, "the idle gate does not take its parent's parameter list: its signature differs from the active gate's", init.loc())
    cons = construct_of(init, "prepare-measure-refused")
    cfg = CFG(init.body)
    refused = False
    for st in iter_stmts(init.body):
        if isinstance(st, ast.If) and cfg.branch_never_returns(cfg.node(st), True):
            consts = {n.value for n in ast.walk(st.test) if isinstance(n, ast.Constant)}
            if {"prepare_all", "measure_all"} <= consts:
                # polarity: the raise is taken when the name IS one of the two
                pos = any(isinstance(n, ast.Compare) and len(n.ops) == 1 and isinstance(n.ops[0], (ast.In, ast.Eq)) for n in ast.walk(st.test))
                neg = any(isinstance(n, ast.Compare) and len(n.ops) == 1 and isinstance(n.ops[0], (ast.NotIn, ast.NotEq)) for n in ast.walk(st.test)) or any(isinstance(n, ast.UnaryOp) and isinstance(n.op, ast.Not) for n in ast.walk(st.test))
                if pos and not neg:
                    refused = True
    if refused:
        rep.ok("C18.2", cons, "prepare_all / measure_all raise JaqalError", init.loc())
    else:
        rep.violation("C18.2", cons, "idle variants of prepare_all / measure_all are not refused", init.loc())
    aig = ix.functions.get(f"{GATEDEF_MOD}.add_idle_gates")
    if aig is None:
        rep.undecided("C18.2", "core.gatedef:add_idle_gates", "function not found")
    else:
        cons = construct_of(aig, "keeps-and-adds")
        loops = [st for st in iter_stmts(aig.body) if isinstance(st, ast.For)]
        ok_keep = ok_add = False
        for lp in loops:
            for st in lp.body:
                if isinstance(st, ast.Assign) and isinstance(st.targets[0], ast.Subscript):
                    ok_keep = True  # unconditional store of the active gate at loop level
            for st in iter_stmts(lp.body):
                if isinstance(st, ast.Try):
                    constructs = any(isinstance(n, ast.Call) and IDLE in T.types_of(n) for s in st.body for n in ast.walk(s))
                    stores_twin = any(isinstance(s, ast.Assign) and isinstance(s.targets[0], ast.Subscript) and isinstance(s.targets[0].slice, ast.Attribute) and s.targets[0].slice.attr == "name" for s in st.orelse + st.body)
                    ok_add = constructs and stores_twin
        if ok_keep and ok_add:
            rep.ok("C18.2", cons, "gates[n] = g for every gate; gates[idle.name] = idle where construction succeeds", aig.loc())
        else:
            rep.violation("C18.2", cons, ("an active gate can be left out of the result" if not ok_keep else "the idle twin is not stored under its own name"), aig.loc())

    # ------------------------------------------------------------ C18.3
    rep.rule("C18.3", "stretched gates: no late-binding closure, parent unitary called with the splat protocol, parameter list copied plus one trailing FLOAT", floor=3)
    sg = ix.func(STRETCH)
    loops = [st for st in iter_stmts(sg.body) if isinstance(st, ast.For)]
    if not loops:
        raise AnalysisError("C18.3: no loop in stretched_gates")
    loop = loops[0]
    # every variant is stored under a real name
    flsg = FuncFlow(ix, T, sg)
    for st in iter_stmts(sg.body):
        if isinstance(st, ast.Assign) and isinstance(st.targets[0], ast.Subscript) and isinstance(st.targets[0].value, ast.Name) and not isinstance(st.targets[0].slice, ast.Slice):
            key = st.targets[0].slice
            defs = [key] + (flsg.defs.get(key.id, []) if isinstance(key, ast.Name) else [])
            cons = construct_of(sg, f"result-key:{ast.unparse(st.targets[0])}")
            none_def = [d for d in defs if isinstance(d, ast.Constant) and d.value is None]
            if none_def:
                rep.violation("C18.3", cons, f"`{ast.unparse(st)}` can store a variant under the key None (no suffix given): every stretched gate overwrites the previous one and the result holds a single entry {{None: ..}}; with an idle gate in the set `name + suffix` raises TypeError", f"{sg.path}:{st.lineno}", witness="stretched_gates({'Px': Px, 'H': H})")
            else:
                rep.ok("C18.3", cons, "the key is always a gate name", f"{sg.path}:{st.lineno}")
    # update=True returns the caller's table with the variants added, update=False only the variants
    for st in iter_stmts(sg.body):
        if isinstance(st, ast.If) and any(isinstance(m, ast.Name) and m.id == "update" for m in ast.walk(st.test)):
            cons = construct_of(sg, "update-flag")
            negated = any(isinstance(m, ast.UnaryOp) and isinstance(m.op, ast.Not) for m in ast.walk(st.test))
            upd_in_body = any(isinstance(m, ast.Call) and isinstance(m.func, ast.Attribute) and m.func.attr == "update" for b in st.body for m in ast.walk(b))
            if upd_in_body != negated:
                rep.ok("C18.3", cons, "the input table is updated (and returned) exactly when update is set", f"{sg.path}:{st.lineno}")
            else:
                rep.violation("C18.3", cons, "the update flag is inverted: stretched_gates(gates) modifies and returns the caller's gate table, stretched_gates(gates, update=True) returns only the variants", f"{sg.path}:{st.lineno}")
    rebound = set(names_in(loop.target))
    for st in iter_stmts(loop.body):
        if isinstance(st, ast.Assign):
            for t in st.targets:
                rebound |= {n.id for n in ast.walk(t) if isinstance(n, ast.Name)}
    closures = [n for st in loop.body for n in ast.walk(st) if isinstance(n, (ast.Lambda, ast.FunctionDef))]
    if not closures:
        rep.undecided("C18.3", construct_of(sg, "closure"), "no wrapper closure created in the loop", sg.loc())
    for c in closures:
        fn = free_names(c)
        late = sorted(fn & rebound)
        cons = construct_of(sg, "closure:late-binding")
        loc = f"{sg.path}:{c.lineno}"
        if late:
            rep.violation("C18.3", cons, f"the wrapper refers to `{', '.join(late)}`, which the loop rebinds; the closure is stored in the result and called later, so every stretched gate uses the LAST gate's unitary (capture the value with a default argument)", loc)
        else:
            rep.ok("C18.3", cons, "the wrapper captures its parent's unitary by value (default argument / no loop variable)", loc)
        # protocol of the inner call
        inner = [n for n in ast.walk(c) if isinstance(n, ast.Call) and n is not c]
        ucalls = []
        a = c.args
        defaults = {}
        pos = a.posonlyargs + a.args
        for arg, d in list(zip(pos[len(pos) - len(a.defaults):], a.defaults)) + [(x, d) for x, d in zip(a.kwonlyargs, a.kw_defaults) if d is not None]:
            defaults[arg.arg] = d
        for n in inner:
            f_ = n.func
            if isinstance(f_, ast.Attribute) and f_.attr in ("ideal_unitary", "_ideal_unitary"):
                ucalls.append(n)
            elif isinstance(f_, ast.Name) and f_.id in defaults and any(isinstance(m, ast.Attribute) and m.attr in ("ideal_unitary", "_ideal_unitary") for m in ast.walk(defaults[f_.id])):
                ucalls.append(n)
        cons = construct_of(sg, "closure:protocol")
        if not ucalls:
            rep.undecided("C18.3", cons, "the wrapper does not call a parent unitary", loc)
        for u in ucalls:
            ok = len(u.args) == 1 and isinstance(u.args[0], ast.Starred) and isinstance(u.args[0].value, ast.Subscript) and isinstance(u.args[0].value.slice, ast.Slice) \
                and u.args[0].value.slice.lower is None and isinstance(u.args[0].value.slice.upper, ast.UnaryOp) and isinstance(u.args[0].value.slice.upper.operand, ast.Constant) and u.args[0].value.slice.upper.operand.value == 1
            if ok:
                rep.ok("C18.3", cons, f"`{ast.unparse(u)}`: all arguments but the trailing stretch factor, splatted", loc)
            elif splat_protocol(u) == "sequence-unsplatted":
                rep.violation("C18.3", cons, f"`{ast.unparse(u)}` hands the parent's unitary ONE tuple instead of its classical arguments", loc)
            else:
                rep.violation("C18.3", cons, f"`{ast.unparse(u)}` does not pass exactly the arguments before the trailing stretch factor", loc)
    cons = construct_of(sg, "parameters")
    fl = FuncFlow(ix, T, sg)
    pdefs = fl.defs.get("parameters", [])
    copied = any(isinstance(v, ast.Call) and ((isinstance(v.func, ast.Attribute) and v.func.attr == "copy") or (isinstance(v.func, ast.Name) and v.func.id == "list")) and any(isinstance(n, ast.Attribute) and n.attr == "parameters" for n in ast.walk(v)) for v in pdefs) or any(isinstance(v, ast.BinOp) for v in pdefs)
    appends = [n for n in walk_no_nested(sg.node) if isinstance(n, ast.Call) and isinstance(n.func, ast.Attribute) and n.func.attr == "append" and isinstance(n.func.value, ast.Name) and n.func.value.id == "parameters"]
    one_float = len(appends) == 1 and any(isinstance(m, ast.Attribute) and m.attr == "FLOAT" for m in ast.walk(appends[0]))
    if copied and one_float:
        rep.ok("C18.3", cons, "parent's parameter list copied; exactly one trailing FLOAT parameter appended", sg.loc())
    elif not copied:
        rep.violation("C18.3", cons, "the stretch parameter is appended to the parent's own parameter list (not a copy): the parent gate's signature changes too", sg.loc())
    else:
        rep.violation("C18.3", cons, "the stretched gate does not get exactly one extra trailing FLOAT parameter", sg.loc())


    # ------------------------------------------------------------ C18.4
    rep.rule("C18.4", "each typed branch of Parameter.validate accepts exactly the annotated kinds its declared kind allows", floor=4)
    ALLOWED = {"QUBIT": {"QUBIT", "NONE"}, "REGISTER": {"REGISTER", "NONE"}, "FLOAT": {"INT", "FLOAT", "NONE"}, "INT": {"INT", "FLOAT", "NONE"}}
    pt = ix.cls("jaqalpaq.core.parameter.ParamType")
    members = {k for k in pt.class_attrs if k.isupper()}
    val = ix.find_method("jaqalpaq.core.parameter.Parameter", "validate")
    top = [s_ for s_ in val.body if isinstance(s_, ast.If)]
    x = top[-1] if top else None
    while isinstance(x, ast.If):
        kinds = [m.attr for m in ast.walk(x.test) if isinstance(m, ast.Attribute) and isinstance(m.value, ast.Name) and m.value.id == "ParamType" and m.attr in members]
        if kinds and kinds[0] in ALLOWED:
            K = kinds[0]
            accepted = set()
            for st in x.body:
                for m in ast.walk(st):
                    if isinstance(m, ast.Compare) and isinstance(m.left, ast.Attribute) and m.left.attr == "kind" and len(m.ops) == 1:
                        listed = {a.attr for a in ast.walk(m.comparators[0]) if isinstance(a, ast.Attribute) and a.attr in members}
                        if isinstance(m.ops[0], (ast.In, ast.Eq)):
                            accepted |= listed
                        elif isinstance(m.ops[0], (ast.NotIn, ast.NotEq)):
                            accepted |= members - listed
            cons = construct_of(val, f"accepted-kinds:{K}")
            extra = accepted - ALLOWED[K]
            missing = {K, "NONE"} - accepted
            if extra:
                rep.violation("C18.4", cons, f"a {K} parameter accepts annotated values of kind {sorted(extra)}: the call is accepted although the argument does not fit the parameter's declared kind", f"{val.path}:{x.lineno}")
            elif missing:
                rep.violation("C18.4", cons, f"a {K} parameter rejects annotated values of kind {sorted(missing)}", f"{val.path}:{x.lineno}")
            else:
                rep.ok("C18.4", cons, f"accepts annotated kinds {sorted(accepted)}", f"{val.path}:{x.lineno}")
            if K == "INT":
                # a FLOAT-kinded named value fits an integer parameter only through an integral float PAYLOAD:
                # the accepting condition has to test `isinstance(<payload>, float)` itself
                sub = x.body[0] if x.body and isinstance(x.body[0], ast.If) else None
                while isinstance(sub, ast.If):
                    t = sub.test
                    mentions_float_kind = any(isinstance(m, ast.Compare) and isinstance(m.left, ast.Attribute) and m.left.attr == "kind" and any(isinstance(a, ast.Attribute) and a.attr == "FLOAT" for a in ast.walk(m.comparators[0])) and isinstance(m.ops[0], ast.Eq) for m in ast.walk(t))
                    if mentions_float_kind:
                        cons_f = construct_of(val, "float-kind-needs-float-payload")
                        payload_test = any(isinstance(m, ast.Call) and isinstance(m.func, ast.Name) and m.func.id == "isinstance" and len(m.args) == 2 and ("float" in ast.unparse(m.args[1]) or "Real" in ast.unparse(m.args[1])) and "value" in ast.unparse(m.args[0]) for m in ast.walk(t))
                        if payload_test:
                            rep.ok("C18.4", cons_f, "the FLOAT-kind clause tests that the payload is a float (and integral)", f"{val.path}:{sub.lineno}")
                        else:
                            rep.violation("C18.4", cons_f, f"`{ast.unparse(t)[:110]}` accepts a FLOAT-kinded value without establishing that it carries a float payload: a float-typed Parameter (no value at all), or a constant defined from another constant, fits an integer parameter", f"{val.path}:{sub.lineno}", witness="Parameter('n', ParamType.INT).validate(Parameter('x', ParamType.FLOAT))")
                    sub = sub.orelse[0] if len(sub.orelse) == 1 and isinstance(sub.orelse[0], ast.If) else None
        x = x.orelse[0] if len(x.orelse) == 1 and isinstance(x.orelse[0], ast.If) else None

    # ------------------------------------------------------------ C18.3 (idle twin of a stretched gate)
    cons = construct_of(sg, "stretched-idle-parent")
    copied_vars = {var for var, exprs in fl.defs.items() for v in exprs if isinstance(v, ast.Call) and isinstance(v.func, ast.Attribute) and v.func.attr == "copy" and any(k.arg == "parameters" for k in v.keywords)}
    idle_calls = [n for n in walk_no_nested(sg.node) if isinstance(n, ast.Call) and IDLE in T.types_of(n)]
    for n in idle_calls:
        a0 = n.args[0] if n.args else None
        if isinstance(a0, ast.Name) and a0.id in copied_vars:
            rep.ok("C18.3", cons, f"`{ast.unparse(n)}` derives the idle twin from the stretched gate", f"{sg.path}:{n.lineno}")
        else:
            rep.violation("C18.3", cons, f"`{ast.unparse(n)}` derives the idle twin from `{ast.unparse(a0) if a0 is not None else '?'}`, not from the stretched copy: the stretched idle gate lacks the trailing stretch parameter", f"{sg.path}:{n.lineno}")

    # validate() itself must not fail with anything but JaqalError: no bare numeric conversion of the candidate value
    val = ix.functions.get("jaqalpaq.core.parameter.Parameter.validate")
    if val is not None:
        cons = construct_of(val, "int-branch-total")
        convs = [n for n in walk_no_nested(val.node) if isinstance(n, ast.Call) and isinstance(n.func, ast.Name) and n.func.id in ("int", "float") and n.args and any(isinstance(m, ast.Name) and m.id == val.params[1] for m in ast.walk(n.args[0]))]
        in_try = [t for t in walk_no_nested(val.node) if isinstance(t, ast.Try)]
        unprotected = [c for c in convs if not any(any(x is c for b in t.body for x in ast.walk(b)) for t in in_try)]
        if unprotected:
            rep.violation("C18.4", cons, f"`{ast.unparse(unprotected[0])}` converts the candidate value: float('inf') raises OverflowError, NaN ValueError and a Parameter (no .value) AttributeError instead of the JaqalError the other mismatches give", f"{val.path}:{unprotected[0].lineno}", witness="Parameter('n', ParamType.INT).validate(float('inf'))")
        else:
            rep.ok("C18.4", cons, "integrality is tested without converting the value (float.is_integer on floats only)", val.loc())
