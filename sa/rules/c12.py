"""C12 -- only well-bracketed prepare/measure programs are executed (narrow claim).

The acceptance set of DiscoverSubcircuits as a whole is not decided (a state
machine over every nesting and loop count).  What is decided are the guards
that the property's sentences name one by one, as structural necessary
conditions: each exists, sits where it has to, and has the stated sense.
"""

from __future__ import annotations

import ast

from ..index import AnalysisError
from ..cfg import iter_stmts
from .common import construct_of
from .wave3 import _method, _enclosing_ifs
from .sweep2 import discovery_polarity, _none_test
from .sweep3 import discovery_bookkeeping, discovery_more, discovery_results, wraparound_test, superseded_gates_refused, trailing_trace_test, prepare_opens_new_trace

DS = "jaqalpaq.core.algorithm.walkers.DiscoverSubcircuits"


def gate_outside_refused(ctx, rep, rule):
    ix = ctx.ix
    vg = _method(ix, DS, "visit_GateStatement")
    rep.rule(rule, "an ordinary gate met while no trace is open is refused (`every gate lies between a prepare_all and the following measure_all`)", floor=1)
    cons = construct_of(vg, "gate-outside")
    # the branch for gates that are neither the prepare nor the measure gate
    top = [st for st in iter_stmts(vg.body) if isinstance(st, ast.If) and "p_gate" in ast.unparse(st.test)]
    if not top:
        rep.undecided(rule, cons, "dispatch on the prepare gate not recognised", vg.loc())
        return
    node = top[0]
    other = None
    while isinstance(node, ast.If):
        if len(node.orelse) == 1 and isinstance(node.orelse[0], ast.If) and ("m_gate" in ast.unparse(node.orelse[0].test) or "p_gate" in ast.unparse(node.orelse[0].test)):
            node = node.orelse[0]  # (an `elif` of the dispatch on the gate's name)
        else:
            other = node.orelse
            break
    if not other:
        rep.violation(rule, cons, "gates other than prepare/measure are not looked at by discovery: a gate before the first prepare_all, or between measure_all and the next prepare_all, is accepted and silently left out of every subcircuit", vg.loc())
        return
    guard = [i for b in other for i in ast.walk(b) if isinstance(i, ast.If) and _none_test(i.test, "current") is False and any(isinstance(r, ast.Raise) for r in i.body)]
    if guard:
        rep.ok(rule, cons, "`if self.current is None: raise`", f"{vg.path}:{guard[0].lineno}")
    else:
        wrong = [i for b in other for i in ast.walk(b) if isinstance(i, ast.If) and _none_test(i.test, "current") is True and any(isinstance(r, ast.Raise) for r in i.body)]
        if wrong:
            rep.violation(rule, cons, f"`if {ast.unparse(wrong[0].test)}: raise` refuses gates INSIDE a subcircuit and accepts them outside", f"{vg.path}:{wrong[0].lineno}")
        else:
            rep.violation(rule, cons, "a gate met while no trace is open is accepted: `Px q[0]; prepare_all; measure_all` runs and the first gate belongs to no subcircuit", vg.loc(), witness="Px q[0]\nprepare_all\nmeasure_all")


def run(ctx, rep):
    if DS not in ctx.ix.classes:
        raise AnalysisError("C12: DiscoverSubcircuits vanished")
    rep.assume("the acceptance set as a whole (all nestings, loop counts and macro expansions) is not decided; these are the guards the property names, each a necessary condition")
    discovery_polarity(ctx, rep, "C12.1")
    discovery_bookkeeping(ctx, rep, "C12.2")
    discovery_more(ctx, rep, "C12.3")
    wraparound_test(ctx, rep, "C12.4")
    gate_outside_refused(ctx, rep, "C12.5")
    discovery_results(ctx, rep, "C12.6")
    superseded_gates_refused(ctx, rep, "C12.7")
    trailing_trace_test(ctx, rep, "C12.8")
    prepare_opens_new_trace(ctx, rep, "C12.9")
