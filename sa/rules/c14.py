"""C14 -- no program is accepted with a reference that cannot be honoured (decided clauses)."""

from __future__ import annotations

import ast

from ..index import AnalysisError
from ..cfg import CFG, walk_no_nested, iter_stmts
from ..fieldflow import FuncFlow, names_in
from ..lexer import extract_lexer
from ..regex import lang
from .common import construct_of, cls_construct

REGMOD = "jaqalpaq.core.register"
BUILDER = "jaqalpaq.core.circuitbuilder.Builder"
PARAM = "jaqalpaq.core.parameter.Parameter"
PARAMTYPE = "jaqalpaq.core.parameter.ParamType"
ABSTRACT_GATE = "jaqalpaq.core.gatedef.AbstractGate"
USEPULSES = "jaqalpaq.core.usepulses.UsePulsesStatement"
CONTEXT_CLASSES = [
    "jaqalpaq.core.register.Register", "jaqalpaq.core.register.NamedQubit",
    "jaqalpaq.core.constant.Constant", "jaqalpaq.core.parameter.Parameter",
]


def raising_guards(f, cfg):
    """If statements one of whose branches never returns (raise)."""
    out = []
    for st in iter_stmts(f.body):
        if isinstance(st, ast.If):
            tn = cfg.node(st)
            for lbl in (True, False):
                if cfg.branch_never_returns(tn, lbl):
                    out.append((st, lbl))
    return out


def _mentions_size(n) -> bool:
    """A size occurs in n -- except where it is only the default branch of `<size> if x is None else x`."""
    if isinstance(n, ast.IfExp):
        return _mentions_size(n.body) and _mentions_size(n.orelse)
    if isinstance(n, ast.Attribute) and n.attr in ("size", "_size"):
        return True
    if isinstance(n, ast.Call) and isinstance(n.func, (ast.Name, ast.Attribute)) and (getattr(n.func, "id", None) or getattr(n.func, "attr", "")) in ("len", "resolve_size"):
        return True
    return any(_mentions_size(c) for c in ast.iter_child_nodes(n))


def is_size_expr(e, fl: FuncFlow) -> bool:
    ids, roots = fl.depends(e)
    return any(_mentions_size(r) for r in roots)


def root_names(e, fl: FuncFlow):
    ids, roots = fl.depends(e)
    out = set()
    for r in roots:
        out |= names_in(r)
    return out


def run(ctx, rep):
    ix, T = ctx.ix, ctx.typer

    # ------------------------------------------------------------ C14.1
    rep.rule("C14.1", "every index/slice range check against a size is two-sided", floor=3)
    lx = extract_lexer(ix)
    int_rule = lx.rule("INT")
    signed = int_rule is not None and lang(int_rule.pattern).accepts("-1")
    rep.analysed["INT_admits_sign"] = signed
    if not signed:
        rep.info("C14.1", "parser.slyparse:INT", "INT literals cannot be negative in text; lower bounds are reachable only through the builder API")
    sites = 0
    for f in ix.functions.values():
        if f.module != REGMOD or isinstance(f.node, ast.Lambda):
            continue
        cfg = CFG(f.body)
        guards = raising_guards(f, cfg)
        if not guards:
            continue
        fl = FuncFlow(ix, T, f)
        uppers, lowers = [], []
        for st, lbl in guards:
            raises_jaqal = True
            for n in ast.walk(st.test):
                if not isinstance(n, ast.Compare):
                    continue
                operands = [n.left] + list(n.comparators)
                for i, op in enumerate(n.ops):
                    a, b = operands[i], operands[i + 1]
                    if isinstance(op, (ast.Gt, ast.GtE, ast.Lt, ast.LtE)):
                        zero_a = isinstance(a, ast.Constant) and a.value in (0, -1)
                        zero_b = isinstance(b, ast.Constant) and b.value in (0, -1)
                        if zero_a or zero_b:
                            q = b if zero_a else a
                            lowers.append((q, st))
                        elif is_size_expr(b, fl) and not is_size_expr(a, fl):
                            uppers.append((a, st))
                        elif is_size_expr(a, fl) and not is_size_expr(b, fl):
                            uppers.append((b, st))
                    elif isinstance(op, (ast.NotIn, ast.In)) and isinstance(b, ast.Call) and isinstance(b.func, ast.Name) and b.func.id == "range":
                        uppers.append((a, st))
                        lowers.append((a, st))
        seen = set()
        for q, st in uppers:
            key = ast.unparse(q)
            if key in seen:
                continue
            seen.add(key)
            sites += 1
            cons = construct_of(f, f"range-check:{key}")
            loc = f"{f.path}:{st.lineno}"
            rq = root_names(q, fl) - {f.params[0] if f.params else ""}
            selfn_ = f.params[0] if f.params else ""

            def complete_pairs():
                """Quantities bounded on both sides: same expression text, or min(X)/max(X) over the same X."""
                out = []
                for l, _ in lowers:
                    for u, _ in uppers:
                        lt, ut = ast.unparse(l), ast.unparse(u)
                        if lt == ut:
                            out.append(l)
                        elif isinstance(l, ast.Call) and isinstance(u, ast.Call) and isinstance(l.func, ast.Name) and isinstance(u.func, ast.Name) and l.func.id == "min" and u.func.id == "max" and [ast.unparse(a) for a in l.args] == [ast.unparse(a) for a in u.args]:
                            out.append(l)
                return out

            pairs = complete_pairs()
            two_sided = any((root_names(p_, fl) - {selfn_}) & rq for p_ in pairs)
            if two_sided:
                rep.ok("C14.1", cons, "upper bound against the size and a lower bound against 0", loc)
            else:
                rep.violation("C14.1", cons, f"`{ast.unparse(st.test)}` bounds `{key}` from above only: a negative value is accepted and silently addresses a different qubit (Python negative indexing / wrong arithmetic), e.g. `register r[2]; foo r[-1]`", loc, witness="register r[2]\nfoo r[-1]")
    # a violation of EITHER bound must raise: the two tests are alternatives, never conjuncts; and a quantity
    # bounded from below against 0 in a raising guard has its upper bound in a raising guard too
    for f in ix.functions.values():
        if f.module != REGMOD or isinstance(f.node, ast.Lambda):
            continue
        cfg = CFG(f.body)
        fl = FuncFlow(ix, T, f)
        lows, ups = [], []
        for st, lbl in raising_guards(f, cfg):
            if lbl is not True:
                continue
            for n in ast.walk(st.test):
                if isinstance(n, ast.Compare) and len(n.ops) == 1:
                    a, b, op = n.left, n.comparators[0], n.ops[0]
                    if isinstance(op, ast.Lt) and isinstance(b, ast.Constant) and b.value == 0:
                        lows.append((a, n, st))
                    elif isinstance(op, (ast.Gt, ast.GtE)) and is_size_expr(b, fl) and not is_size_expr(a, fl):
                        ups.append((a, n, st))
        for a, n, st in lows:
            key = ast.unparse(a)
            cons = construct_of(f, f"bounds-alternatives:{key[:30]}")
            loc = f"{f.path}:{st.lineno}"
            mates = [(ua, un, ust) for ua, un, ust in ups if (root_names(ua, fl) & root_names(a, fl)) - {f.params[0] if f.params else ""}]
            if not mates:
                rep.violation("C14.1", cons, f"`{ast.unparse(n)}` rejects negative values of `{key}` but nothing rejects values at or beyond the size: `register r[2]; foo r[5]` passes this check", loc, witness="register r[2]\nfoo r[5]")
                continue
            conj = False
            for ua, un, ust in mates:
                if ust is st:
                    for m in ast.walk(st.test):
                        if isinstance(m, ast.BoolOp) and isinstance(m.op, ast.And) and any(x is n for v in m.values for x in ast.walk(v)) and any(x is un for v in m.values for x in ast.walk(v)):
                            # both comparisons below the same `and` (in different operands)
                            vn = [v for v in m.values if any(x is n for x in ast.walk(v))]
                            vu = [v for v in m.values if any(x is un for x in ast.walk(v))]
                            if vn and vu and vn[0] is not vu[0]:
                                conj = True
            if conj:
                rep.violation("C14.1", cons, f"`{ast.unparse(st.test)[:90]}` raises only when the value is negative AND too large at once, which never happens: no out-of-range value is rejected", loc)
            else:
                rep.ok("C14.1", cons, "lower and upper tests are alternatives", loc)
    # strictness: an index is valid for 0 <= i < size, an exclusive end for stop <= size
    for f in ix.functions.values():
        if f.module != REGMOD or isinstance(f.node, ast.Lambda):
            continue
        cfg = CFG(f.body)
        fl = FuncFlow(ix, T, f)
        for st, lbl in raising_guards(f, cfg):
            if lbl is not True:
                continue
            for n in ast.walk(st.test):
                if not (isinstance(n, ast.Compare) and len(n.ops) == 1):
                    continue
                a, b, op = n.left, n.comparators[0], n.ops[0]
                # normalise to  <quantity> OP <size>
                if is_size_expr(b, fl) and not is_size_expr(a, fl):
                    q, o = a, op
                elif is_size_expr(a, fl) and not is_size_expr(b, fl):
                    q = b
                    o = {ast.Lt: ast.Gt(), ast.LtE: ast.GtE(), ast.Gt: ast.Lt(), ast.GtE: ast.LtE()}.get(type(op))
                    if o is None:
                        continue
                else:
                    continue
                if not isinstance(o, (ast.Gt, ast.GtE)):
                    continue
                qtxt = ast.unparse(q)
                exclusive_end = "stop" in qtxt
                cons = construct_of(f, f"bound-strictness:{qtxt[:30]}")
                loc = f"{f.path}:{st.lineno}"
                if exclusive_end and isinstance(o, ast.Gt):
                    rep.ok("C14.1", cons, f"`{ast.unparse(n)}`: an exclusive end may equal the size", loc)
                elif not exclusive_end and isinstance(o, ast.GtE):
                    rep.ok("C14.1", cons, f"`{ast.unparse(n)}`: an index equal to the size is rejected", loc)
                elif exclusive_end:
                    rep.violation("C14.1", cons, f"`{ast.unparse(n)}` rejects an alias that ends exactly at the end of its source (`map a r[0:size]`)", loc)
                else:
                    rep.violation("C14.1", cons, f"`{ast.unparse(n)}` accepts the index size itself: `register r[2]; foo r[2]` passes the check (one past the last qubit)", loc, witness="register r[2]\nfoo r[2]")
    if sites == 0:
        raise AnalysisError("C14.1: no range check found in core/register.py (anchor vanished)")
    # the index check of resolve_qubit applies to aliases as well: it dominates every return
    for f in ix.functions.values():
        if f.module != REGMOD or f.name != "resolve_qubit" or len(f.params) < 2 or f.cls is None or not f.cls.endswith(".Register"):
            continue
        cfg = CFG(f.body)
        idx = f.params[1]
        guards = [st for st, lbl in raising_guards(f, cfg) if idx in names_in(st.test)]
        rets = [st for st in iter_stmts(f.body) if isinstance(st, ast.Return)]
        cons = construct_of(f, "range-check:every-return")
        uncovered = [r for r in rets if not any(cfg.guarded_by_raise(cfg.node(r), cfg.node(g)) is not None for g in guards)]
        if guards and not uncovered:
            rep.ok("C14.1", cons, "the index check dominates every return (fundamental registers and aliases alike)", f.loc())
        else:
            where = f"{f.path}:{uncovered[0].lineno}" if uncovered else f.loc()
            rep.violation("C14.1", cons, f"`{ast.unparse(uncovered[0]) if uncovered else 'return'}` can be reached without the index having been checked against this register's own size: an out-of-range index into a small or offset alias resolves to a different qubit of the source (`let i 2; map a r[0:2]; Px a[i]` runs on r[2])", where, witness="let i 2\nregister r[4]\nmap a r[0:2]\nPx a[i]")

    # ------------------------------------------------------------ C14.2
    rep.rule("C14.2", "duplicate, unknown-identifier, unknown-gate and arity checks dominate the constructions they protect", floor=6)
    builder = ix.cls(BUILDER)
    # (a0) build_macro: repeated parameter names are rejected before the body is built
    bm_ = builder.methods.get("build_macro")
    if bm_ is not None:
        cons = construct_of(bm_, "repeated-parameter")
        flm_ = FuncFlow(ix, T, bm_)
        cfgm_ = CFG(bm_.body)
        ok_ = False
        for st, lbl in raising_guards(bm_, cfgm_):
            ids, roots = flm_.depends(st.test)
            exprs = [st.test] + list(roots)
            from_params = any(isinstance(m, ast.Subscript) and isinstance(m.slice, ast.Slice) for e in exprs for m in ast.walk(e)) or any(isinstance(m, ast.Name) and "param" in m.id for e in exprs for m in ast.walk(e))
            counts = any(isinstance(m, ast.Call) and isinstance(m.func, ast.Name) and m.func.id in ("len", "set", "Counter") for m in ast.walk(st.test)) or any(isinstance(m, ast.Compare) and isinstance(m.ops[0], (ast.In, ast.NotIn)) for m in ast.walk(st.test))
            if from_params and counts and not any(isinstance(m, ast.Constant) and m.value == 2 for m in ast.walk(st.test)):
                ok_ = True
        if ok_:
            rep.ok("C14.2", cons, "a raising test on the parameter names (length of the name set / membership) precedes the body", bm_.loc())
        else:
            rep.violation("C14.2", cons, "`macro f a a { .. }` is accepted: nothing rejects a parameter name that is defined twice", bm_.loc(), witness="register r[2]\nmacro f a a { Px a }")
    # (a) add_to_context: membership test raising dominates the store
    atc = builder.methods.get("add_to_context")
    if atc is None:
        raise AnalysisError("C14.2: Builder.add_to_context vanished")
    cfg = CFG(atc.body)
    store = [st for st in iter_stmts(atc.body) if isinstance(st, ast.Assign) and isinstance(st.targets[0], ast.Subscript)]
    guards = [(st, lbl) for st, lbl in raising_guards(atc, cfg) if any(isinstance(o, (ast.In, ast.NotIn)) for n in ast.walk(st.test) if isinstance(n, ast.Compare) for o in n.ops)]
    cons = construct_of(atc, "duplicate-check")
    if store and guards and cfg.guarded_by_raise(cfg.node(store[0]), cfg.node(guards[0][0])) is not None:
        rep.ok("C14.2", cons, "`name in context` raising JaqalError dominates the insertion", atc.loc())
    else:
        rep.violation("C14.2", cons, "a name can be inserted into the context without the duplicate test: doubly defined identifiers are accepted (the later one silently wins)", atc.loc())
    # every register/constant/macro recorded in build_circuit goes through add_to_context
    bc = builder.methods.get("build_circuit")
    if bc is None:
        raise AnalysisError("C14.2: Builder.build_circuit vanished")
    for st in iter_stmts(bc.body):
        if not isinstance(st, ast.If):
            continue
        branches = []
        x = st
        while isinstance(x, ast.If):
            branches.append(x)
            x = x.orelse[0] if len(x.orelse) == 1 and isinstance(x.orelse[0], ast.If) else None
        for br in branches:
            stores = [s for s in br.body if isinstance(s, ast.Assign) and isinstance(s.targets[0], ast.Subscript) and isinstance(s.targets[0].value, ast.Name)]
            if not stores:
                continue
            tgt = stores[0].targets[0].value.id
            if tgt not in ("registers", "constants", "macros"):
                continue
            calls = [n for s in br.body for n in ast.walk(s) if isinstance(n, ast.Call) and isinstance(n.func, ast.Attribute) and n.func.attr == "add_to_context"]
            cons = construct_of(bc, f"records:{tgt}")
            if calls:
                rep.ok("C14.2", cons, "recorded through add_to_context", f"{bc.path}:{br.lineno}")
            else:
                rep.violation("C14.2", cons, f"objects stored in `{tgt}` are not passed through add_to_context: a second definition of the same name is accepted", f"{bc.path}:{br.lineno}")
        break
    # (b) build_macro: redefinition test dominates the Macro construction
    for mname, fi in builder.methods.items():
        for cs in T.callsites(fi):
            if cs.kind == "constructor" and cs.classes and cs.classes[0] == "jaqalpaq.core.macro.Macro":
                cfg = CFG(fi.body)
                site = cfg.containing_stmt_node(cs.node, fi.body)
                cons = construct_of(fi, "redefinition-check")
                ok = any(
                    cfg.guarded_by_raise(site, cfg.node(st)) is not None and any(isinstance(n, ast.Name) and n.id == "gate_context" for n in ast.walk(st.test))
                    for st, lbl in raising_guards(fi, cfg)
                )
                if ok:
                    rep.ok("C14.2", cons, "`name in gate_context` raising JaqalError dominates the definition", fi.loc())
                else:
                    rep.violation("C14.2", cons, "a macro can be defined although a gate of that name exists: doubly defined gate names are accepted", fi.loc())
    # (c) build: a string that is not in the context raises
    bm = builder.methods.get("build")
    cons = construct_of(bm, "unknown-identifier")
    ok = False
    for st in iter_stmts(bm.body):
        if isinstance(st, ast.If) and any(isinstance(n, ast.Call) and isinstance(n.func, ast.Name) and n.func.id == "isinstance" and any(isinstance(a, ast.Name) and a.id == "str" for a in n.args[1:]) for n in ast.walk(st.test)):
            cfgb = CFG(st.body + [ast.Pass()])
            # inside the str branch every path ends in `return context[...]` or a raise
            rets = [s for s in iter_stmts(st.body) if isinstance(s, ast.Return)]
            only_lookup = rets and all(isinstance(r.value, ast.Subscript) for r in rets)
            falls = cfgb.exit in cfgb.reachable_from(cfgb.entry, removed_nodes=[cfgb.node(r) for r in rets])
            ok = bool(only_lookup) and not falls
    if ok:
        rep.ok("C14.2", cons, "an identifier absent from the context raises JaqalError", bm.loc())
    else:
        rep.violation("C14.2", cons, "an identifier that is not in the context does not raise: an undefined name is accepted (as a bare string)", bm.loc())
    # (d) get_gate_definition: anonymous definition only when no native gate set is in force
    gd = builder.methods.get("get_gate_definition")
    if gd is not None:
        cfg = CFG(gd.body)
        fl = FuncFlow(ix, T, gd)
        for cs in T.callsites(gd):
            if cs.kind == "constructor" and cs.classes and cs.classes[0].endswith("GateDefinition"):
                site = cfg.containing_stmt_node(cs.node, gd.body)
                cons = construct_of(gd, "anonymous-gate")
                ok = False
                for st, lbl in raising_guards(gd, cfg):
                    if cfg.guarded_by_raise(site, cfg.node(st)) is None:
                        continue
                    ids, roots = fl.depends(st.test)
                    attrs = {n.attr for r in roots for n in ast.walk(r) if isinstance(n, ast.Attribute)}
                    # the test may sit in a helper method of the builder (self.is_anonymous_gate_allowed())
                    for r in list(roots) + [st.test]:
                        for c in ast.walk(r):
                            if isinstance(c, ast.Call) and isinstance(c.func, ast.Attribute) and isinstance(c.func.value, ast.Name) and c.func.value.id == gd.params[0]:
                                h = builder.methods.get(c.func.attr)
                                if h is not None:
                                    attrs |= {n.attr for n in ast.walk(h.node) if isinstance(n, ast.Attribute)}
                    if {"inject_pulses", "autoload_pulses"} <= attrs:
                        ok = True
                if ok:
                    rep.ok("C14.2", cons, "creating a gate definition on the fly is dominated by the test that no native gate set (injected or imported) is in force", gd.loc())
                else:
                    rep.violation("C14.2", cons, "an unknown gate name gets a fresh definition without testing both inject_pulses and autoload_pulses: a call to an undefined gate is accepted while a native gate set is in force", gd.loc())
    # (e) AbstractGate.call: count comparison and validate-all dominate the statement construction
    call = ix.find_method(ABSTRACT_GATE, "call")
    if call is None:
        raise AnalysisError("C14.2: AbstractGate.call vanished")
    cfg = CFG(call.body)
    site = None
    for cs in T.callsites(call):
        if cs.kind == "constructor" and cs.classes and cs.classes[0] == "jaqalpaq.core.gate.GateStatement":
            site = cfg.containing_stmt_node(cs.node, call.body)
    cons = construct_of(call, "arity")
    if site is None:
        rep.undecided("C14.2", cons, "no GateStatement construction in call()")
    else:
        fl = FuncFlow(ix, T, call)
        ok = False
        for st, lbl in raising_guards(call, cfg):
            if cfg.guarded_by_raise(site, cfg.node(st)) is None:
                continue
            lens = [n for n in ast.walk(st.test) if isinstance(n, ast.Call) and isinstance(n.func, ast.Name) and n.func.id == "len"]
            srcs = {ast.unparse(n.args[0]) for n in lens if n.args}
            ops = {type(o) for n in ast.walk(st.test) if isinstance(n, ast.Compare) for o in n.ops}
            if len(srcs) >= 2 and any("parameters" in s for s in srcs) and (ast.NotEq in ops or ast.Eq in ops):
                ok = True
        if ok:
            rep.ok("C14.2", cons, "len(parameters) != len(arguments) raising JaqalError dominates the statement", call.loc())
        else:
            rep.violation("C14.2", cons, "no exact argument-count comparison dominates the construction of the gate statement: a call with too few or too many arguments is accepted", call.loc())
        cons = construct_of(call, "validate-all")
        vloops = []
        for st in iter_stmts(call.body):
            if isinstance(st, ast.For) and any(isinstance(n, ast.Attribute) and n.attr == "parameters" for n in ast.walk(st.iter)):
                if any(isinstance(n, ast.Call) and isinstance(n.func, ast.Attribute) and n.func.attr == "validate" for s in st.body for n in ast.walk(s)):
                    vloops.append(st)
        if vloops and any(cfg.dominates(cfg.node(v), site) for v in vloops):
            rep.ok("C14.2", cons, "every parameter's validate() runs before the statement is built", call.loc())
        else:
            rep.violation("C14.2", cons, "the statement can be built without validating every argument against its parameter's kind", call.loc())

    # ------------------------------------------------------------ C14.3
    rep.rule("C14.3", "Parameter.validate is exhaustive over ParamType and each typed branch rejects by default", floor=5)
    pt = ix.cls(PARAMTYPE)
    members = [k for k in pt.class_attrs if k.isupper()]
    val = ix.find_method(PARAM, "validate")
    if val is None or not members:
        raise AnalysisError("C14.3: Parameter.validate / ParamType vanished")
    branches = {}
    top = None
    for st in val.body:
        if isinstance(st, ast.If):
            top = st
    x = top
    final_else = None
    while isinstance(x, ast.If):
        for n in ast.walk(x.test):
            if isinstance(n, ast.Attribute) and isinstance(n.value, ast.Name) and n.value.id == "ParamType" and n.attr in members:
                branches[n.attr] = x
        if len(x.orelse) == 1 and isinstance(x.orelse[0], ast.If):
            x = x.orelse[0]
        else:
            final_else = x.orelse
            x = None
    for m in members:
        cons = construct_of(val, f"kind:{m}")
        br = branches.get(m)
        if br is None:
            rep.violation("C14.3", cons, f"Parameter.validate has no branch for ParamType.{m}: values for such parameters are " + ("rejected" if final_else and any(isinstance(s, ast.Raise) for s in final_else) else "never checked"), val.loc())
            continue
        if m == "NONE":
            rep.ok("C14.3", cons, "untyped parameters accept anything", f"{val.path}:{br.lineno}")
            continue
        # inner chain must end in else: raise
        inner = [s for s in br.body if isinstance(s, ast.If)]
        rejects = False
        if inner:
            y = inner[-1]
            while isinstance(y, ast.If):
                if len(y.orelse) == 1 and isinstance(y.orelse[0], ast.If):
                    y = y.orelse[0]
                else:
                    rejects = bool(y.orelse) and any(isinstance(s, ast.Raise) for s in y.orelse)
                    y = None
        else:
            rejects = any(isinstance(s, ast.Raise) for s in iter_stmts(br.body))
        if rejects:
            rep.ok("C14.3", cons, "typed branch ends in else: raise JaqalError", f"{val.path}:{br.lineno}")
        else:
            rep.violation("C14.3", cons, f"the ParamType.{m} branch does not reject values it does not recognise: an argument of the wrong kind is accepted", f"{val.path}:{br.lineno}")
    cons = construct_of(val, "fallthrough")
    if final_else and any(isinstance(s, ast.Raise) for s in final_else):
        rep.ok("C14.3", cons, "unknown kinds raise")
    else:
        rep.violation("C14.3", cons, "a parameter kind without a branch falls through silently", val.loc())

    # ------------------------------------------------------------ C14.4
    rep.rule("C14.4", "indexing is applied only to indexable context values (or rejected with JaqalError)", floor=1)
    bai = None
    for mname, fi in builder.methods.items():
        if mname.startswith("build_"):
            for n in walk_no_nested(fi.node):
                if isinstance(n, ast.Return) and isinstance(n.value, ast.Subscript) and isinstance(n.value.value, ast.Name) and mname != "build":
                    fl = FuncFlow(ix, T, fi)
                    ids, roots = fl.depends(n.value.value)
                    if any(isinstance(r, ast.Call) and isinstance(r.func, ast.Attribute) and r.func.attr == "build" for r in roots):
                        bai = (fi, n)
    if bai is None:
        rep.undecided("C14.4", cls_construct(ix, BUILDER, "array-item"), "no build_* method subscripts a built identifier")
    else:
        fi, ret = bai
        cons = construct_of(fi, "indexable")
        var = ret.value.value.id
        cfg = CFG(fi.body)
        site = cfg.node(ret)
        lacking = [c for c in CONTEXT_CLASSES if ix.find_method(c, "__getitem__") is None]
        guarded = False
        for st, lbl in raising_guards(fi, cfg):
            if cfg.guarded_by_raise(site, cfg.node(st)) is None:
                continue
            if any(isinstance(n, ast.Call) and isinstance(n.func, ast.Name) and n.func.id in ("isinstance", "hasattr") and n.args and isinstance(n.args[0], ast.Name) and n.args[0].id == var for n in ast.walk(st.test)):
                guarded = True
        in_try = False
        for st in iter_stmts(fi.body):
            if isinstance(st, ast.Try) and any(s is ret for s in iter_stmts(st.body)):
                if any(h.type is None or any(isinstance(x, ast.Name) and x.id in ("TypeError", "Exception") for x in ast.walk(h.type)) for h in st.handlers):
                    in_try = True
        if not lacking or guarded or in_try:
            rep.ok("C14.4", cons, "every class a context lookup can yield is indexable, or the subscript is guarded", fi.loc())
        else:
            names = ", ".join(ix.classes[c].name for c in lacking)
            rep.violation("C14.4", cons, f"`{ast.unparse(ret.value)}` is applied to whatever the context yields, but {names} define no __getitem__: `let a 1; foo a[0]` raises TypeError instead of JaqalError", f"{fi.path}:{ret.lineno}", witness="let a 1\nregister r[1]\nfoo a[0]")

    # kind guards at the other places where a looked-up / substituted / user-supplied value is used as a register or as an integer
    KIND_GUARDS = [
        # (function qualname, guarded name, what happens otherwise)
        ("jaqalpaq.core.register.NamedQubit.__init__", "alias_from", "`map a q[0]` on a single-qubit alias raises AttributeError"),
        ("jaqalpaq.core.register.NamedQubit.__init__", "alias_index", "`foo r[r]` raises TypeError"),
        ("jaqalpaq.core.register.Register.__init__", "alias_from", "an alias of something that is not a register is accepted"),
        ("jaqalpaq.core.register.Register.__init__", "size", "`let n 2.5; register r[n]` fails later inside numpy"),
        ("jaqalpaq.core.register.Register.__init__", "alias_slice", "`map a r[0:r]` raises TypeError"),
        ("jaqalpaq.core.algorithm.expand_macros.GateReplacer.visit_NamedQubit", "alias_from", "`macro m a { Px a[0] }; m r[0]` raises TypeError"),
    ]
    for q, var, why in KIND_GUARDS:
        f = ix.functions.get(q)
        cons_q = q[len("jaqalpaq."):]
        if f is None:
            rep.undecided("C14.4", f"{cons_q}:kind-guard:{var}", "function not found")
            continue
        cons = construct_of(f, f"kind-guard:{var}")
        cfg = CFG(f.body)
        flq = FuncFlow(ix, T, f)
        ok = False
        for st, lbl in raising_guards(f, cfg):
            negated = [m.operand for m in ast.walk(st.test) if isinstance(m, ast.UnaryOp) and isinstance(m.op, ast.Not)]
            for n in [x for neg in negated for x in ast.walk(neg)]:
                if isinstance(n, ast.Call) and isinstance(n.func, ast.Name) and n.func.id == "isinstance" and n.args:
                    tested = names_in(n.args[0])
                    if var in tested:
                        ok = True
                    # a loop variable ranging over the parts of the guarded value (slice bounds)
                    for nm in tested:
                        for d in flq.defs.get(nm, []):
                            if var in names_in(d):
                                ok = True
        if ok:
            rep.ok("C14.4", cons, f"an isinstance test on `{var}` guards a JaqalError", f.loc())
        else:
            rep.violation("C14.4", cons, f"`{var}` is used without a kind test that raises JaqalError: {why}", f.loc())
    # counts of loops and subcircuits are validated by the builder
    for mname in ("build_loop", "build_subcircuit_block"):
        fi = builder.methods.get(mname)
        if fi is None:
            continue
        cons = construct_of(fi, "count-kind")
        g = T.graph(weak=False)
        reach = {fi.qualname}
        for cs in T.callsites(fi):
            for t in cs.targets:
                if t.cls == BUILDER and t.name not in ("build",):
                    reach.add(t.qualname)
        guarded = False
        for qn in reach:
            fx = ix.functions[qn]
            cf = CFG(fx.body)
            for st, lbl in raising_guards(fx, cf):
                txt = ast.unparse(st.test)
                if "count" in txt and "isinstance" in txt:
                    guarded = True
        if guarded:
            rep.ok("C14.4", cons, "the repetition count is kind-checked before the statement is built", fi.loc())
        else:
            rep.violation("C14.4", cons, "the repetition count is not checked to be an integer (or a let/parameter standing for one): `let n 2.5; loop n { .. }` is accepted and fails with TypeError when executed", fi.loc(), witness="let n 2.5\nregister r[1]\nloop n { prepare_all; measure_all }")

    # every argument of a macro call is checked before substitution can drop it
    rg_ = ix.functions.get("jaqalpaq.core.algorithm.expand_macros.replace_gate")
    if rg_ is not None:
        cons = construct_of(rg_, "macro-arguments-checked")
        gparam = rg_.params[0]
        ok_ = False
        for st in iter_stmts(rg_.body):
            if isinstance(st, ast.For) and any(isinstance(m, ast.Attribute) and m.attr == "parameters" and isinstance(m.value, ast.Name) and m.value.id == gparam for m in ast.walk(st.iter)):
                for cs in T.callsites(rg_):
                    if isinstance(cs.node, ast.Call) and any(x is cs.node for b in st.body for x in ast.walk(b)):
                        for t in cs.targets:
                            if any(isinstance(m, ast.Call) and isinstance(m.func, ast.Attribute) and m.func.attr == "resolve_qubit" for m in ast.walk(t.node)):
                                ok_ = True
        if ok_:
            rep.ok("C14.4", cons, "each argument of the call goes through a function that resolves qubit references (index range checked) before the body is substituted", rg_.loc())
        else:
            rep.violation("C14.4", cons, "arguments of a macro call are only validated where the body uses them: `macro foo a { Px r[0] }; foo r[n]` with n out of range is accepted once macros are expanded (the argument is dropped unchecked)", rg_.loc(), witness="let n 3\nregister r[3]\nmacro foo a { Px r[0] }\nfoo r[n]   with expand_macro=True")
    # counts that arise by macro substitution are validated by the substituting visitor
    from . import c04 as _c04
    _exp, _repl = _c04.find_visitors(ctx)
    for mname in ("visit_LoopStatement", "visit_BlockStatement"):
        fi = ix.classes[_repl].methods.get(mname)
        if fi is None:
            continue
        cons = construct_of(fi, "substituted-count-kind")
        found = None
        verdict = None
        for cs in T.callsites(fi):
            if cs.kind != "constructor" or not cs.classes or not isinstance(cs.node, ast.Call):
                continue
            cname = cs.classes[0].split(".")[-1]
            if cname not in ("LoopStatement", "BlockStatement"):
                continue
            arg = next((k.value for k in cs.node.keywords if k.arg == "iterations"), None)
            if arg is None and cname == "LoopStatement" and cs.node.args:
                arg = cs.node.args[0]
            if arg is None:
                continue
            found = arg
            # the argument is the result of a call into a function that rejects non-integers
            ok_ = False
            if isinstance(arg, ast.Call):
                for cs2 in T.callsites(fi):
                    if cs2.node is arg:
                        for t in cs2.targets:
                            if t.name in ("visit",) or t.name.startswith("visit_"):
                                continue
                            cf = CFG(t.body)
                            for st, lbl in raising_guards(t, cf):
                                if "isinstance" in ast.unparse(st.test):
                                    ok_ = True
            verdict = ok_
        if found is None:
            rep.undecided("C14.4", cons, "no rebuilt loop/block with a count found in the substituting visitor", fi.loc())
        elif verdict:
            rep.ok("C14.4", cons, f"`{ast.unparse(found)}` goes through a function that raises JaqalError for a non-integer count", fi.loc())
        else:
            rep.violation("C14.4", cons, f"the substituted count `{ast.unparse(found)}` is stored unchecked: `macro f n {{ loop n {{ .. }} }}; f 1.5` (or `f r[0]`) is accepted by the parser and by expand_macros and fails with TypeError when executed", fi.loc(), witness="register r[2]\nmacro f n { prepare_all; loop n { Px r[0] }; measure_all }\nf 1.5")

    # a register's size is positive
    ri = ix.functions.get("jaqalpaq.core.register.Register.__init__")
    if ri is not None:
        cons = construct_of(ri, "size-positive")
        cfg_ri = CFG(ri.body)
        okp = False
        for st, lbl in raising_guards(ri, cfg_ri):
            for c in ast.walk(st.test):
                if isinstance(c, ast.Compare) and len(c.ops) == 1 and isinstance(c.left, ast.Name) and c.left.id == "size" and isinstance(c.comparators[0], ast.Constant):
                    if (isinstance(c.ops[0], ast.LtE) and c.comparators[0].value == 0) or (isinstance(c.ops[0], ast.Lt) and c.comparators[0].value == 1):
                        okp = True
        if okp:
            rep.ok("C14.4", cons, "`size <= 0` raises JaqalError", ri.loc())
        else:
            rep.violation("C14.4", cons, "a register can be created with size zero or negative (only the literal `register q[-1]` is refused by the parser): `let n -1; register q[n]` is accepted and the emulator fails with TypeError", ri.loc(), witness="let n -1\nregister q[n]\nprepare_all\nmeasure_all")

    # ------------------------------------------------------------ C14.6
    rep.rule("C14.6", "gate statements whose arguments were substituted are built through the definition's call (arity and kind validation), not constructed directly", floor=1)
    GS = "jaqalpaq.core.gate.GateStatement"
    for f in ix.functions.values():
        if not f.module.startswith("jaqalpaq.core.algorithm"):
            continue
        for cs in T.callsites(f):
            if cs.kind == "constructor" and cs.classes and cs.classes[0] == GS and isinstance(cs.node, ast.Call):
                rep.violation("C14.6", construct_of(f, "direct-GateStatement"), f"`{ast.unparse(cs.node)[:70]}` builds a gate statement without going through the gate definition's call(): substituted or rewritten arguments are not checked against the parameters' kinds (`macro m a {{ Px a }}; m 1` is accepted)", f"{f.path}:{cs.node.lineno}", witness="macro m a { Px a }\nm 1")
    n_calls = 0
    for f in ix.functions.values():
        if f.module.startswith("jaqalpaq.core.algorithm") and any(cs.kind == "method" and any(t.name == "__call__" and t.cls and t.cls.endswith("AbstractGate") for t in cs.targets) for cs in T.callsites(f)):
            n_calls += 1
            rep.ok("C14.6", construct_of(f, "via-definition-call"), "gate statements are produced by calling the gate definition", f.loc())
    if n_calls == 0:
        rep.undecided("C14.6", "core.algorithm:gate-construction", "no pass builds gate statements through a definition call")

    # ------------------------------------------------------------ C14.5
    rep.rule("C14.5", "precedence of gate sources: injected > later import > earlier import", floor=2)
    ug = ix.find_method(USEPULSES, "update_gates")
    if ug is None:
        raise AnalysisError("C14.5: UsePulsesStatement.update_gates vanished")
    cons = construct_of(ug, "injected-wins")
    cfg = CFG(ug.body)
    store = [st for st in iter_stmts(ug.body) if isinstance(st, ast.Assign) and isinstance(st.targets[0], ast.Subscript)]
    skip = None
    for st in iter_stmts(ug.body):
        if isinstance(st, ast.If) and any(isinstance(s, ast.Continue) for s in st.body) and any(isinstance(n, ast.Name) and n.id == "inject_pulses" for n in ast.walk(st.test)):
            if any(isinstance(o, ast.In) for n in ast.walk(st.test) if isinstance(n, ast.Compare) for o in n.ops):
                skip = st
    if store and skip is not None and cfg.must_pass_edges(cfg.node(store[0]), cfg.branch_edges(cfg.node(skip), False)):
        rep.ok("C14.5", cons, "names present in inject_pulses are skipped before the assignment", ug.loc())
    elif any(isinstance(n, ast.Name) and n.id == "inject_pulses" for n in walk_no_nested(ug.node) if not isinstance(n, ast.arg)) and skip is None and sum(1 for n in walk_no_nested(ug.node) if isinstance(n, ast.Name) and n.id == "inject_pulses") >= 2:
        rep.undecided("C14.5", cons, "inject_pulses is consulted but not through the recognised skip-before-assign idiom", ug.loc())
    else:
        rep.violation("C14.5", cons, "an imported gate can overwrite an injected gate of the same name", ug.loc())
    cons = construct_of(ug, "later-import-wins")
    if not store:
        rep.undecided("C14.5", cons, "gates are not stored by a subscript assignment", ug.loc())
    elif store and not any(isinstance(st, ast.If) and any(s is store[0] for s in iter_stmts(st.body)) and any(isinstance(o, ast.NotIn) for n in ast.walk(st.test) if isinstance(n, ast.Compare) for o in n.ops) for st in iter_stmts(ug.body)):
        rep.ok("C14.5", cons, "assignment overwrites earlier imports unconditionally", ug.loc())
    else:
        rep.violation("C14.5", cons, "an earlier import is kept when a later usepulses provides the same gate", ug.loc())
    mgc = builder.methods.get("make_gate_context")
    cons = construct_of(mgc, "seeded-from-injected") if mgc else cls_construct(ix, BUILDER, "seeded-from-injected")
    if mgc and any(isinstance(n, ast.Call) and isinstance(n.func, ast.Attribute) and n.func.attr == "update" and any(isinstance(m, ast.Attribute) and m.attr == "inject_pulses" for a in n.args for m in ast.walk(a)) for n in walk_no_nested(mgc.node)):
        rep.ok("C14.5", cons, "the gate context starts from the injected gate set", mgc.loc())
    else:
        rep.violation("C14.5", cons, "the gate context is not seeded from inject_pulses: injected gates are unknown while building", mgc.loc() if mgc else "")
