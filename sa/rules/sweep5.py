"""Clauses added after the seventh mutation sweep (800 mutants, another sample):
polarity and completeness of tests in subcircuit discovery, the used-qubit
analysis, the emulator's result construction and the parser's override guards.
Same layout as sweep3/sweep4."""
from __future__ import annotations

import ast

from ..cfg import iter_stmts, walk_no_nested
from .common import construct_of
from .wave3 import _func, _method, _enclosing_ifs, _names

EXTRA: dict = {}


def _add(prop, fn, rule, *extra):
    EXTRA.setdefault(prop, []).append((fn, rule, *extra))


def _fold_not(e):
    neg = False
    while isinstance(e, ast.UnaryOp) and isinstance(e.op, ast.Not):
        neg, e = not neg, e.operand
    return e, neg


DS = "jaqalpaq.core.algorithm.walkers.DiscoverSubcircuits"


# ---------------------------------------------------------------- C13 / C12: the refusal of bounds in parallel means "something changed"

def _changed_sense(e, neg=False):
    """True: the expression is true when the compared things DIFFER; False: when they are the same; None: unknown."""
    e, n2 = _fold_not(e)
    neg = neg != n2
    if isinstance(e, ast.BoolOp):
        parts = [_changed_sense(v) for v in e.values]
        if any(p is None for p in parts) or len(set(parts)) != 1:
            return None
        # De Morgan keeps the sense of the parts under one negation of the whole
        return parts[0] != neg
    if isinstance(e, ast.Compare) and len(e.ops) == 1:
        if isinstance(e.ops[0], (ast.IsNot, ast.NotEq)):
            return True != neg
        if isinstance(e.ops[0], (ast.Is, ast.Eq)):
            return False != neg
    return None


def parallel_refusal_polarity(ctx, rep, rule):
    ix = ctx.ix
    vb = _method(ix, DS, "visit_BlockStatement")
    rep.rule(rule, "a branch of a parallel block is refused when the open trace or the number of closed traces CHANGED while it was visited (the test compares the snapshot with the state by `is not` / `!=`)", floor=1)
    cons = construct_of(vb, "parallel-branches-changed")
    hit = None
    for st in ast.walk(vb.node):
        if isinstance(st, ast.If) and any(isinstance(r, ast.Raise) for b in st.body for r in ast.walk(b)) and any(isinstance(x, ast.Subscript) for x in ast.walk(st.test)) and "subcircuits" in ast.unparse(st.test):
            hit = st
            break
    if hit is None:
        rep.undecided(rule, cons, "the snapshot comparison is not recognised", vb.loc())
        return
    s = _changed_sense(hit.test)
    if s is True:
        rep.ok(rule, cons, f"`{ast.unparse(hit.test)[:80]}` is true when something changed", f"{vb.path}:{hit.lineno}")
    elif s is False:
        rep.violation(rule, cons, f"`{ast.unparse(hit.test)[:90]}` is true when NOTHING changed: every parallel block of ordinary gates is refused (`< Px q[0] | Px q[1] >`: prepare_all and measure_all cannot be parallel ..) and a prepare_all next to other statements is accepted", f"{vb.path}:{hit.lineno}", witness="prepare_all; < Px q[0] | Px q[1] >; measure_all")
    else:
        rep.undecided(rule, cons, "mixed senses in the comparison", f"{vb.path}:{hit.lineno}")


_add("C13", parallel_refusal_polarity, "C13.29")
_add("C12", parallel_refusal_polarity, "C12.12")


# ---------------------------------------------------------------- C08 / C12: a trace keeps the start it is given

def trace_keeps_start(ctx, rep, rule):
    ix = ctx.ix
    init = _method(ix, "jaqalpaq.core.algorithm.walkers.Trace", "__init__")
    rep.rule(rule, "Trace.__init__ stores the start address it is given and makes up an empty one only when none is given", floor=1)
    cons = construct_of(init, "start")
    selfn = init.params[0]
    stores = [a for a in ast.walk(init.node) if isinstance(a, ast.Assign) and any(isinstance(t, ast.Attribute) and t.attr == "start" and isinstance(t.value, ast.Name) and t.value.id == selfn for t in a.targets)]
    if not stores:
        rep.undecided(rule, cons, "no store to self.start", init.loc())
        return
    bad = None
    for a in stores:
        given = isinstance(a.value, ast.Name) and a.value.id == "start"
        ifs = _enclosing_ifs(init.node, a)
        sense = None
        for t, taken in ifs:
            e, neg = _fold_not(t)
            if isinstance(e, ast.Compare) and len(e.ops) == 1 and isinstance(e.left, ast.Name) and e.left.id == "start" and isinstance(e.comparators[0], ast.Constant) and e.comparators[0].value is None:
                is_none = isinstance(e.ops[0], (ast.Is, ast.Eq)) != neg
                sense = is_none if taken else not is_none   # True: we are where start IS None
        if isinstance(a.value, ast.IfExp) or isinstance(a.value, ast.BoolOp):
            continue  # `start if start is not None else []`, `start or []`: judged below
        if sense is True and given:
            bad = (a, "stores the given start where there is none (None)")
        elif sense is False and not given:
            bad = (a, "replaces every given start by a made-up one")
    for a in stores:
        v = a.value
        if isinstance(v, ast.IfExp):
            e, neg = _fold_not(v.test)
            if isinstance(e, ast.Compare) and len(e.ops) == 1 and isinstance(e.comparators[0], ast.Constant) and e.comparators[0].value is None:
                is_none = isinstance(e.ops[0], (ast.Is, ast.Eq)) != neg
                picked_when_none = v.body if is_none else v.orelse
                if isinstance(picked_when_none, ast.Name) and picked_when_none.id == "start":
                    bad = (a, "keeps None where no start is given and drops a given one")
        if isinstance(v, ast.BoolOp) and isinstance(v.op, ast.And):
            bad = (a, "`and` replaces every given start")
    if bad:
        a, why = bad
        rep.violation(rule, cons, f"`{ast.unparse(a)}` {why}: every subcircuit that discovery opens (`Trace(self.address[:])`) starts at the address [] -- the walk that emulates the traces and assigns the readouts begins each of them at the top of the circuit", f"{init.path}:{a.lineno}", witness="prepare_all; measure_all; prepare_all; Px q[0]; measure_all")
    else:
        rep.ok(rule, cons, "a given start is stored; the empty default is used only for None", init.loc())


_add("C08", trace_keeps_start, "C08.23")
_add("C12", trace_keeps_start, "C12.13")


# ---------------------------------------------------------------- C12: the repetition handed to the body is the loop's own count

def reps_is_the_loop_count(ctx, rep, rule):
    ix = ctx.ix
    vl = _method(ix, DS, "visit_LoopStatement")
    rep.rule(rule, "DiscoverSubcircuits hands the loop's own count to the handler of its body (`reps=<loop>.iterations`): the refusals for bodies that do not run exactly once depend on it", floor=1)
    cons = construct_of(vl, "reps")
    p = vl.params[1]
    kws = [k for c in ast.walk(vl.node) if isinstance(c, ast.Call) for k in c.keywords if k.arg == "reps"]
    if not kws:
        rep.violation(rule, cons, "the body is visited without `reps`: it is taken to run exactly once, so `loop 2 { prepare_all }; measure_all` and `prepare_all; loop 2 { measure_all }` are accepted and run with the wrong number of readouts", vl.loc(), witness="prepare_all; loop 2 { measure_all }")
        return
    v = kws[0].value
    if isinstance(v, ast.Attribute) and v.attr == "iterations" and isinstance(v.value, ast.Name) and v.value.id == p:
        rep.ok(rule, cons, f"`reps={ast.unparse(v)}`", vl.loc())
    elif isinstance(v, ast.Attribute) and isinstance(v.value, ast.Name) and v.value.id == p:
        rep.violation(rule, cons, f"`reps={ast.unparse(v)}` is not the loop's count: it never equals 1, so every loop body is treated as repeated and `loop 1 {{ prepare_all }}; measure_all` is refused", vl.loc(), witness="loop 1 { prepare_all }; measure_all")
    elif isinstance(v, ast.Constant):
        rep.violation(rule, cons, f"`reps={ast.unparse(v)}` is a constant: the count of the loop is ignored", vl.loc(), witness="prepare_all; loop 2 { measure_all }")
    else:
        rep.undecided(rule, cons, f"`reps={ast.unparse(v)[:40]}` not recognised", vl.loc())


_add("C12", reps_is_the_loop_count, "C12.14")
_add("C08", reps_is_the_loop_count, "C08.24")


# ---------------------------------------------------------------- C12 / C08: the empty answer is given when there is nothing

def discovery_empty_answer(ctx, rep, rule):
    ix = ctx.ix
    vc = _method(ix, DS, "visit_Circuit")
    rep.rule(rule, "DiscoverSubcircuits.visit_Circuit answers `()` exactly when no trace was recorded (`len(..) == 0`, `not ..`)", floor=1)
    cons = construct_of(vc, "empty-answer")
    for st in iter_stmts(vc.body):
        if not isinstance(st, ast.If):
            continue
        rets = [r for r in st.body if isinstance(r, ast.Return)]
        if not rets or not (isinstance(rets[0].value, (ast.Tuple, ast.List)) and not rets[0].value.elts):
            continue
        e, neg = _fold_not(st.test)
        empty = None
        if isinstance(e, ast.Compare) and len(e.ops) == 1 and isinstance(e.left, ast.Call) and isinstance(e.left.func, ast.Name) and e.left.func.id == "len" and isinstance(e.comparators[0], ast.Constant):
            k, op = e.comparators[0].value, e.ops[0]
            if k == 0:
                empty = isinstance(op, (ast.Eq, ast.LtE)) if not isinstance(op, (ast.NotEq, ast.Gt)) else False
            elif k == 1:
                empty = isinstance(op, ast.Lt) if not isinstance(op, ast.GtE) else False
        elif isinstance(e, (ast.Name, ast.Attribute)):
            empty = False     # `if subcircuits:` is the non-empty case
        if empty is None:
            rep.undecided(rule, cons, f"`{ast.unparse(st.test)}` not recognised", f"{vc.path}:{st.lineno}")
            return
        if empty != neg:
            rep.ok(rule, cons, f"`{ast.unparse(st.test)}` is the empty case", f"{vc.path}:{st.lineno}")
        else:
            rep.violation(rule, cons, f"`{ast.unparse(st.test)}` is the NON-empty case: every program with a subcircuit is answered with no subcircuits at all (nothing is emulated, no readout is assigned) and a program without any fails with IndexError", f"{vc.path}:{st.lineno}", witness="prepare_all; measure_all")
        return
    rep.undecided(rule, cons, "no early empty answer found", vc.loc())


_add("C12", discovery_empty_answer, "C12.15")
_add("C08", discovery_empty_answer, "C08.25")


# ---------------------------------------------------------------- C08 / C15: arguments of the result constructors by name

def result_constructor_argument_order(ctx, rep, rule):
    """A positional argument that is a plain name equal to a parameter name of the constructor must sit at that parameter's position."""
    ix, T = ctx.ix, ctx.typer
    rep.rule(rule, "positional arguments of the subcircuit-result constructors that are named like a parameter (`trace`, `index`) sit at that parameter's position", floor=1)
    classes = [q for q in ix.classes if "jaqalpaq.core.result.Subcircuit" in ix.mro(q)]
    n = 0
    for f in ix.functions.values():
        if not (f.module.startswith("jaqalpaq.emulator") or f.module == "jaqalpaq.core.result") or isinstance(f.node, ast.Lambda):
            continue
        for c in walk_no_nested(f.node):
            if not (isinstance(c, ast.Call) and isinstance(c.func, ast.Name)):
                continue
            r = ix.resolve_name(f.module, c.func.id, f)
            if not (r and r[0] == "class" and r[1] in classes):
                continue
            init = ix.find_method(r[1], "__init__")
            # follow *args to the base class that names the parameters
            params = None
            for k in ix.mro(r[1]):
                ini = ix.classes[k].methods.get("__init__") if k in ix.classes else None
                if ini is not None and len(ini.params) >= 3 and not (ini.node.args.vararg and len(ini.params) < 3):
                    if "trace" in ini.params and "index" in ini.params:
                        params = ini.params[1:]
                        break
            if params is None:
                continue
            n += 1
            cons = construct_of(f, f"arguments:{c.func.id}")
            wrong = [(i, a.id) for i, a in enumerate(c.args) if isinstance(a, ast.Name) and a.id in params and i < len(params) and params[i] != a.id]
            if wrong:
                i, nm = wrong[0]
                rep.violation(rule, cons, f"`{ast.unparse(c)[:80]}` passes `{nm}` where the constructor expects `{params[i]}`: the subcircuit result carries the wrong trace / index, so readouts and probabilities are reported for another subcircuit", f"{f.path}:{c.lineno}")
            else:
                rep.ok(rule, cons, f"`{ast.unparse(c)[:60]}`", f"{f.path}:{c.lineno}")
    if n == 0:
        rep.undecided(rule, "core.result:Subcircuit", "no construction of a subcircuit result found")


_add("C08", result_constructor_argument_order, "C08.26")
_add("C15", result_constructor_argument_order, "C15.20")


# ---------------------------------------------------------------- C10 / C14: guards on the override dictionary

def override_guards(ctx, rep, rule):
    ix = ctx.ix
    f = _func(ix, "jaqalpaq.parser.parser.parse_jaqal_string")
    rep.rule(rule, "parse_jaqal_string refuses an override dictionary when NEITHER let-expanding flag is set (both flags are consulted) and refuses names that are not lets of the circuit", floor=2)
    ov = next((p for p in f.all_params if "override" in p), None)
    if ov is None:
        rep.undecided(rule, construct_of(f, "override"), "no override parameter", f.loc())
        return
    # (1) the no-effect guard mentions both flags
    cons = construct_of(f, "override-needs-a-flag:both-flags")
    g = None
    for st in ast.walk(f.node):
        if isinstance(st, ast.If) and any(isinstance(r, ast.Raise) for b in st.body for r in ast.walk(b)) and {"expand_let", "expand_let_map"} & _names(st.test):
            if ov in _names(st.test) or any(ov in _names(t) for t, _ in _enclosing_ifs(f.node, st)):
                g = st
                break
    if g is None:
        rep.undecided(rule, cons, "guard not recognised (its presence is C10.1's business)", f.loc())
    else:
        names = _names(g.test)
        e, neg = _fold_not(g.test)
        if {"expand_let", "expand_let_map"} <= names:
            rep.ok(rule, cons, f"`{ast.unparse(g.test)[:70]}` consults both flags", f"{f.path}:{g.lineno}")
        else:
            missing = sorted({"expand_let", "expand_let_map"} - names)[0]
            rep.violation(rule, cons, f"`{ast.unparse(g.test)[:70]}` does not consult `{missing}`: parse_jaqal_string(text, {missing}=True, override_dict=..) -- a combination that does substitute the values -- is refused", f"{f.path}:{g.lineno}", witness=f"parse_jaqal_string('let n 1 ...', {missing}=True, override_dict={{'n': 2}})")
    # (2) unknown names are refused
    cons = construct_of(f, "override-unknown-names")
    found = None
    for st in ast.walk(f.node):
        if isinstance(st, ast.If) and any(isinstance(r, ast.Raise) for b in st.body for r in ast.walk(b)):
            tn = _names(st.test)
            deps = set(tn)
            for a in ast.walk(f.node):
                if isinstance(a, ast.Assign) and any(isinstance(t, ast.Name) and t.id in tn for t in a.targets):
                    deps |= _names(a.value) | {x.attr for x in ast.walk(a.value) if isinstance(x, ast.Attribute)}
            if ov in deps and "constants" in deps:
                found = st
    if found is not None:
        rep.ok(rule, cons, f"`if {ast.unparse(found.test)[:40]}: raise` compares the dictionary's names with the circuit's lets", f"{f.path}:{found.lineno}")
    else:
        rep.violation(rule, cons, f"no raise depends on both `{ov}` and the circuit's constants: an override for a name that is no let of the program (a typo) is silently ignored and the circuit is built with the declared value", f.loc(), witness="parse_jaqal_string('let n 1 ...', expand_let=True, override_dict={'m': 2})")


_add("C10", override_guards, "C10.19")
_add("C14", override_guards, "C14.20")


# ---------------------------------------------------------------- C13: the branches of a parallel block are merged as disjoint

def parallel_merge_is_disjoint(ctx, rep, rule):
    ix = ctx.ix
    UQ = "jaqalpaq.core.algorithm.used_qubit_visitor.UsedQubitIndicesVisitor"
    vb = _method(ix, UQ, "visit_BlockStatement")
    rep.rule(rule, "where the used-qubit visitor merges the branches of a parallel block under its validating switch, the merge is asked to be disjoint", floor=1)
    p = vb.params[1]
    n = 0
    for c in ast.walk(vb.node):
        if not (isinstance(c, ast.Call) and isinstance(c.func, ast.Attribute) and c.func.attr == "merge_into"):
            continue
        tests = [(t, taken) for t, taken in _enclosing_ifs(vb.node, c)]
        par = any(taken and any(isinstance(x, ast.Attribute) and x.attr == "parallel" for x in ast.walk(t)) and _positive(t, "parallel") for t, taken in tests)
        if not par:
            continue
        n += 1
        cons = construct_of(vb, "parallel-merge")
        kw = next((k for k in c.keywords if k.arg == "disjoint"), None)
        loc = f"{vb.path}:{c.lineno}"
        if kw is None:
            rep.violation(rule, cons, "the branches of a parallel block are merged without `disjoint`: `< Px q[0] | Px q[0] >` is accepted by get_used_qubit_indices with validation switched on", loc, witness="< Px q[0] | Px q[0] >")
        elif isinstance(kw.value, ast.Constant) and kw.value.value is True:
            rep.ok(rule, cons, "disjoint=True", loc)
        elif isinstance(kw.value, ast.Constant):
            rep.violation(rule, cons, f"`disjoint={kw.value.value!r}` in the branch taken for a parallel block under validation: two branches that use the same qubit are accepted (`< Px q[0] | Px q[0] >`)", loc, witness="< Px q[0] | Px q[0] >")
        elif isinstance(kw.value, ast.Attribute) and kw.value.attr == "parallel":
            rep.ok(rule, cons, f"disjoint={ast.unparse(kw.value)}", loc)
        else:
            rep.undecided(rule, cons, f"disjoint={ast.unparse(kw.value)[:40]}", loc)
    if n == 0:
        rep.undecided(rule, construct_of(vb, "parallel-merge"), "no merge under a test of `.parallel` found", vb.loc())


def _positive(t, attr):
    """`attr` occurs in t as a positive conjunct (reached through `and` only, no `not` above it)."""
    def walk(e, neg):
        if isinstance(e, ast.UnaryOp) and isinstance(e.op, ast.Not):
            return walk(e.operand, not neg)
        if isinstance(e, ast.BoolOp) and isinstance(e.op, ast.And):
            return any(walk(v, neg) for v in e.values)
        if isinstance(e, ast.Attribute) and e.attr == attr:
            return not neg
        return False
    return walk(t, False)


_add("C13", parallel_merge_is_disjoint, "C13.30")
