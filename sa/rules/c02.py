"""C02 -- the parser accepts exactly the Jaqal grammar, layout-insensitively (decided clauses)."""

from __future__ import annotations

import ast
import os

from ..index import AnalysisError
from ..cfg import CFG, walk_no_nested, iter_stmts
from ..fieldflow import FuncFlow, names_in
from ..lexer import extract_lexer, extract_parser, SLY_ASSUMPTIONS
from ..grammar import Grammar, parse_reference, render
from ..regex import lang, DFA, Unsupported
from .common import construct_of, cls_construct

REF = os.path.join(os.path.dirname(os.path.dirname(os.path.abspath(__file__))), "ref", "jaqal.grammar")
EXPERIMENTAL_TOKENS = {"BRANCH", "BININT"}
VALUE_TOKENS = {"IDENTIFIER", "DOTIDENTIFIER", "NUMBER", "INT", "BININT"}
HEADER_KEYWORDS = {"REG", "LET", "MAP", "FROM", "IMPORT"}


def never_returning_methods(ix, cls):
    """Methods of cls (by name) that cannot return normally (every path raises)."""
    out = set()
    for _ in range(3):
        for name, lst in cls.methods_all.items():
            for fi in lst:
                if name in out:
                    continue
                if _never_returns(fi, out):
                    out.add(name)
    return out


def _never_returns(fi, noreturn_names) -> bool:
    body = _with_noreturn_calls(fi, noreturn_names)
    cfg = CFG(body)
    return cfg.exit not in cfg.reachable_from(cfg.entry)


def _with_noreturn_calls(fi, noreturn_names):
    """Copy of the body in which `self.<noreturn>(...)` statements become raises."""
    selfname = fi.params[0] if fi.params else None

    class Tr(ast.NodeTransformer):
        def visit_Expr(self, node):
            v = node.value
            if isinstance(v, ast.Call) and isinstance(v.func, ast.Attribute) and isinstance(v.func.value, ast.Name) and v.func.value.id == selfname and v.func.attr in noreturn_names:
                return ast.copy_location(ast.Raise(exc=v, cause=None), node)
            return node

        def visit_FunctionDef(self, node):
            return node

    import copy

    mod = ast.Module(body=copy.deepcopy(fi.node.body), type_ignores=[])
    return Tr().visit(mod).body


def sly_names(rhs):
    """sly's attribute names for the symbols of a production (duplicates get 0,1,.. suffixes)."""
    counts = {}
    for s in rhs:
        counts[s] = counts.get(s, 0) + 1
    seen = {}
    names = []
    for s in rhs:
        if s.startswith('"'):
            names.append(None)
            continue
        if counts[s] > 1:
            i = seen.get(s, 0)
            seen[s] = i + 1
            names.append(f"{s}{i}")
        else:
            names.append(s)
    return names


def run(ctx, rep):
    ix, T = ctx.ix, ctx.typer
    from .common import check_context_bookkeeping_keys
    check_context_bookkeeping_keys(ctx, rep, "C02.7")
    from .common import check_falsy_zero
    check_falsy_zero(ctx, rep, "C02.6", ['jaqalpaq.parser.slyparse', 'jaqalpaq.core.circuitbuilder'], floor_positions=10)
    for a in SLY_ASSUMPTIONS:
        rep.assume(a)
    rep.assume("sly parser: the action of a production receives the RHS values as tree.<symbol> / tree[i]; sly calls Parser.error(None) at end of input")
    lx = extract_lexer(ix)
    pm = extract_parser(ix)
    pcls = pm.cls
    rep.analysed["productions"] = len(pm.productions)
    noret = never_returning_methods(ix, pcls)
    rep.analysed["never_returning_parser_methods"] = sorted(noret)

    # grammar with the always-raising actions and the experimental tokens removed
    prods = {}
    raising = []
    for p in pm.productions:
        if _never_returns(p.func, noret):
            raising.append((p.lhs, tuple(p.rhs)))
            continue
        prods.setdefault(p.lhs, []).append(tuple(p.rhs))
    for p in pm.productions:
        prods.setdefault(p.lhs, [])
    G_full = Grammar(prods, pm.start)
    G = G_full.without_terminals(EXPERIMENTAL_TOKENS)
    rep.analysed["always_raising_productions"] = [f"{a} -> {' '.join(r)}" for a, r in raising]
    rep.analysed["alternatives_compared"] = G.count()

    # ------------------------------------------------------------ C02.1
    n = 8 if ctx.tier == "quick" else 10
    rep.rule("C02.1", f"token-level language of the extracted grammar equals the reference grammar for all strings of length <= {n}", floor=1)
    with open(REF) as fd:
        Rg = parse_reference(fd.read())
    alpha = sorted(G.terminals | Rg.terminals)
    unknown = [t for t in G.terminals if not t.startswith('"') and t not in lx.tokens]
    if unknown:
        raise AnalysisError(f"C02.1: grammar uses terminals that are not lexer tokens: {unknown}")
    A, _ = G.enumerate(n, alpha)
    B, _ = Rg.enumerate(n, alpha)
    rep.analysed["L_n"] = {"n": n, "extracted": len(A), "reference": len(B)}
    cons = cls_construct(ix, pcls.qualname, "language")
    if A == B:
        rep.ok("C02.1", cons, f"|L_{n}| = {len(A)} token strings on both sides, no difference", pcls.loc())
    else:
        extra = sorted(A - B, key=lambda w: (len(w), w))
        missing = sorted(B - A, key=lambda w: (len(w), w))
        if extra:
            w = render(extra[0], alpha)
            rep.violation("C02.1", cons + ":accepts-too-much", f"the parser's grammar derives the token string `{w}` which the Jaqal grammar does not ({len(extra)} such strings of length <= {n})", pcls.loc(), witness=w)
        if missing:
            w = render(missing[0], alpha)
            rep.violation("C02.1", cons + ":rejects-legal", f"the Jaqal grammar derives the token string `{w}` which the parser's grammar does not ({len(missing)} such strings of length <= {n})", pcls.loc(), witness=w)
    # literals / tokens used by the grammar must be produced by the lexer
    for t in sorted(G.terminals):
        if t.startswith('"') and t.strip('"') not in lx.literals:
            rep.violation("C02.1", cons + f":literal:{t}", f"the grammar uses the literal {t} but the lexer's literals set does not contain it: that production can never match", lx.cls.loc())
    # keywords: each keyword token used by the grammar is remapped from IDENTIFIER with the reference spelling
    KEYWORDS = {"REG": "register", "MAP": "map", "LET": "let", "MACRO": "macro", "LOOP": "loop", "USEPULSES": "usepulses", "FROM": "from", "SUBCIRCUIT": "subcircuit"}
    remapped = {tok: text for (src, text), tok in lx.remap.items() if src == "IDENTIFIER"}
    for tok, text in KEYWORDS.items():
        c2 = cls_construct(ix, lx.cls.qualname, f"keyword:{tok}")
        if tok in G.terminals:
            if remapped.get(tok) == text:
                rep.ok("C02.1", c2, f"`{text}` lexes as {tok}")
            else:
                rep.violation("C02.1", c2, f"the keyword token {tok} is produced for {remapped.get(tok)!r}, not for `{text}`: statements spelled `{text} ...` are not recognised", lx.cls.loc())

    # ------------------------------------------------------------ C02.3
    rep.rule("C02.3", "every value-bearing right-hand-side symbol flows into the action's result", floor=30)
    # value-bearing nonterminals: some alternative's action returns a value
    returns_value = set()
    for p in pm.productions:
        for st in iter_stmts(p.func.body):
            if isinstance(st, ast.Return) and st.value is not None and not (isinstance(st.value, ast.Constant) and st.value.value is None):
                returns_value.add(p.lhs)
    # a nonterminal all of whose alternatives can only yield None (e.g. `return None` for an absent slice bound) still bears a value if others do
    flows_cache = {}
    checked = set()
    for p in pm.productions:
        if (p.lhs, tuple(p.rhs)) in raising:
            continue
        key = (p.func.qualname, tuple(p.rhs))
        if key in checked:
            continue
        checked.add(key)
        fl = flows_cache.get(p.func.qualname)
        if fl is None:
            fl = flows_cache[p.func.qualname] = FuncFlow(ix, T, p.func)
        tree = p.func.params[1] if len(p.func.params) > 1 else None
        names = sly_names(p.rhs)
        for i, s in enumerate(p.rhs):
            bearing = (s in VALUE_TOKENS) or (s in returns_value)
            if not bearing:
                continue
            cons = construct_of(p.func, f"{' '.join(p.rhs)}:{i}:{s}")
            used = False
            for nnode in walk_no_nested(p.func.node):
                if not fl.is_relevant(nnode):
                    continue
                if isinstance(nnode, ast.Attribute) and isinstance(nnode.value, ast.Name) and nnode.value.id == tree and nnode.attr == names[i]:
                    used = True
                if isinstance(nnode, ast.Subscript) and isinstance(nnode.value, ast.Name) and nnode.value.id == tree and isinstance(nnode.slice, ast.Constant) and nnode.slice.value == i:
                    used = True
                if isinstance(nnode, ast.Starred) and isinstance(nnode.value, ast.Name) and nnode.value.id == tree:
                    used = True
            if used:
                rep.ok("C02.3", cons, "read in a position that reaches the returned/appended value", p.func.loc())
            else:
                rep.violation("C02.3", cons, f"the value of `{s}` (symbol {i} of `{p.lhs} : {' '.join(p.rhs)}`) never reaches the action's result: that part of the program is silently dropped from the statement tree", p.func.loc())
    # the start action must return the accumulated top-level expression
    st_funcs = [p.func for p in pm.productions if p.lhs == pm.start]
    for f in st_funcs:
        cons = construct_of(f, "returns-accumulator")
        rets = [s for s in iter_stmts(f.body) if isinstance(s, ast.Return) and s.value is not None]
        if rets and all(isinstance(r.value, ast.Attribute) and isinstance(r.value.value, ast.Name) and r.value.value.id == f.params[0] for r in rets):
            rep.ok("C02.3", cons, f"returns self.{rets[0].value.attr}", f.loc())
        else:
            rep.undecided("C02.3", cons, "start action does not return a parser attribute", f.loc())

    # ------------------------------------------------------------ C02.2
    rep.rule("C02.2", "header/body typestate: header statements are rejected once a body statement was seen", floor=2)
    flags = {}
    for name, lst in pcls.self_attrs.items():
        for fi, v in lst:
            if fi.name != "__init__" and isinstance(v, ast.Constant) and v.value is True:
                flags.setdefault(name, []).append(fi)
    init_false = {name for name, lst in pcls.self_attrs.items() for fi, v in lst if fi.name == "__init__" and isinstance(v, ast.Constant) and v.value is False}
    flags = {k: v for k, v in flags.items() if k in init_false}
    if not flags:
        rep.violation("C02.2", cls_construct(ix, pcls.qualname, "in-body-flag"), "no parser attribute records that a body statement was seen: header statements after body statements are accepted", pcls.loc())
    allprods = {}
    for p in pm.productions:
        allprods.setdefault(p.lhs, []).append(tuple(p.rhs))
    first = Grammar(allprods, pm.start).first()
    for flag, setters in flags.items():
        setter_q = {f.qualname for f in setters}
        top_prods = [p for p in pm.productions if p.func.qualname in setter_q or any(
            isinstance(nn, ast.Attribute) and nn.attr == flag for nn in walk_no_nested(p.func.node))]
        lhss = {p.lhs for p in top_prods}
        for p in pm.productions:
            if p.lhs not in lhss or len(p.rhs) != 1:
                continue
            sym = p.rhs[0]
            fs = first.get(sym, {sym})
            is_header = bool(fs) and fs <= HEADER_KEYWORDS
            f = p.func
            selfn = f.params[0]
            cons = construct_of(f, f"{sym}:typestate")
            body = _with_noreturn_calls(f, noret)
            cfg = CFG(body)
            if is_header:
                guarded = False
                for st in iter_stmts(body):
                    if isinstance(st, ast.If) and any(isinstance(nn, ast.Attribute) and nn.attr == flag and isinstance(nn.value, ast.Name) and nn.value.id == selfn for nn in ast.walk(st.test)):
                        if cfg.branch_never_returns(cfg.node(st), True):
                            # the guard must dominate the normal exit
                            if cfg.must_pass_edges(cfg.exit, cfg.branch_edges(cfg.node(st), False)):
                                guarded = True
                if guarded:
                    rep.ok("C02.2", cons, f"header alternative raises when self.{flag} is set", f.loc())
                else:
                    rep.violation("C02.2", cons, f"the header statement `{sym}` is accepted without testing self.{flag}: a header statement after a body statement is not rejected", f.loc())
            else:
                sets_nodes = [cfg.node(st) for st in iter_stmts(body) if isinstance(st, ast.Assign) and any(isinstance(t, ast.Attribute) and t.attr == flag for t in st.targets) and isinstance(st.value, ast.Constant) and st.value.value is True]
                if sets_nodes and cfg.must_pass_nodes(cfg.exit, sets_nodes):
                    rep.ok("C02.2", cons, f"body alternative sets self.{flag} on every returning path", f.loc())
                else:
                    rep.violation("C02.2", cons, f"the body statement `{sym}` can be accepted without setting self.{flag}: header statements after it are not rejected", f.loc())
        # nobody else resets the flag
        for name, lst in pcls.self_attrs.items():
            if name != flag:
                continue
            for fi, v in lst:
                if fi.name != "__init__" and not (isinstance(v, ast.Constant) and v.value is True):
                    rep.violation("C02.2", construct_of(fi, f"{flag}:reset"), f"self.{flag} is written with something other than True outside __init__", fi.loc())

    # ------------------------------------------------------------ C02.4
    rep.rule("C02.4", "comment and whitespace token languages", floor=5)
    lcons = cls_construct(ix, lx.cls.qualname)
    autom = {}
    for r in lx.rules:
        try:
            autom[r.name] = DFA.from_pattern(r.pattern)
        except Unsupported as ex:
            autom[r.name] = None
            rep.undecided("C02.4", f"{lcons}:{r.name}", f"pattern outside the supported fragment: {ex}")
    token_shadowing(ctx, rep, lx, autom)
    identifier_components(ctx, rep, lx, autom)
    line = [r for r in lx.rules if autom.get(r.name) and autom[r.name][0].accepts("//x")]
    block = [r for r in lx.rules if autom.get(r.name) and autom[r.name][0].accepts("/**/")]
    if not line:
        rep.violation("C02.4", f"{lcons}:line-comment", "no lexer rule matches `//x`: line comments are not recognised", lx.cls.loc())
    if not block:
        rep.violation("C02.4", f"{lcons}:block-comment", "no lexer rule matches `/**/`: block comments are not recognised", lx.cls.loc())
    for r in line + block:
        c2 = f"{lcons}:{'ignore_' if r.ignored else ''}{r.name}"
        loc = f"{lx.cls.path}:{r.lineno}"
        # (a) ignored and returning nothing
        if r.ignored and (r.func is None or not r.returns_token):
            rep.ok("C02.4", c2 + ":discarded", "comment text is discarded", loc)
        else:
            rep.violation("C02.4", c2 + ":discarded", "the comment rule yields a token: comments change the parse", loc)
        # earlier rules must not steal the opener
        for e in lx.rules[: lx.index_of(r.name)]:
            if autom.get(e.name):
                w = autom[r.name][0].nonempty_prefixes_matching(autom[e.name][0])
                if w is not None:
                    rep.violation("C02.4", c2 + ":priority", f"the earlier rule {e.name} matches a prefix of the comment {w!r}: the comment is not recognised as one", loc, witness=w)
    for r in line:
        c2 = f"{lcons}:ignore_{r.name}:no-newline"
        w = autom[r.name][0].contains_char(10)
        if w is None:
            rep.ok("C02.4", c2, "a line comment never contains a newline (the NL token after it is kept)")
        else:
            rep.violation("C02.4", c2, "a line comment can swallow a newline: the statement separator after the comment is lost and two statements are joined", f"{lx.cls.path}:{r.lineno}", witness=w)
        # must extend to the end of the line: `//a b` entirely matched
        full = lang(r"//[^\n]*")
        w = full.included_in(autom[r.name][0])
        if w is not None:
            rep.violation("C02.4", c2 + ":whole-line", f"the line-comment rule does not match the comment {w!r} entirely: its tail is lexed as program text", f"{lx.cls.path}:{r.lineno}", witness=w)
        else:
            rep.ok("C02.4", c2 + ":whole-line", "every `//...` up to the end of line is matched")
    good = lang(r"/\*([^*]|\*+[^*/])*\*+/")
    for r in block:
        c2 = f"{lcons}:ignore_{r.name}:non-nesting"
        dfa, feats = autom[r.name]
        loc = f"{lx.cls.path}:{r.lineno}"
        w = dfa.included_in(good)
        if w is None:
            w2 = good.included_in(dfa)
            if w2 is None:
                rep.ok("C02.4", c2, "L(block comment) = `/*` . (no `*/` inside) . `*/`", loc)
            else:
                rep.violation("C02.4", c2 + ":incomplete", f"the block-comment rule does not match the comment {w2!r}", loc, witness=w2)
        else:
            # shortest-match idiom: opener (any)*? closer
            lazy_ok = False
            if feats.lazy and len(feats.lazy_nodes) == 1:
                lo, hi, p = feats.lazy_nodes[0]
                try:
                    total = lang(r"/\*(\n|[^\n])*\*/")
                    lazy_ok = lo == 0 and total.included_in(dfa) is None and dfa.included_in(total) is None
                except Unsupported:
                    lazy_ok = False
            if lazy_ok:
                rep.ok("C02.4", c2, "lazy body repeat: the match ends at the first `*/`", loc)
            else:
                demo = "/**/x/**/"
                wit = demo if dfa.accepts(demo) else w
                rep.violation("C02.4", c2, f"the block-comment rule matches {wit!r} as ONE comment (greedy body): everything between the first `/*` and the last `*/` of the text is dropped, including statements", loc, witness=wit)
    # (d) whitespace
    c2 = f"{lcons}:ignore"
    # blanks, tabs and carriage returns (Windows line ends) may be skipped; a newline never (it separates statements)
    if set(lx.ignore) <= {" ", "\t", "\r"} and " " in lx.ignore and "\t" in lx.ignore:
        rep.ok("C02.4", c2, "only blanks, tabs and carriage returns are skipped")
    else:
        extra = set(lx.ignore) - {" ", "\t", "\r"}
        rep.violation("C02.4", c2, f"`ignore` is {lx.ignore!r}: " + ("newlines are skipped, so statements on consecutive lines are joined" if "\n" in lx.ignore else (f"{sorted(extra)} are skipped silently" if extra else "blanks or tabs are not skipped")), lx.cls.loc())
    nl = lx.rule("NL")
    c2 = f"{lcons}:NL"
    if nl is not None and not nl.ignored and nl.returns_token and autom.get("NL") and autom["NL"][0].included_in(lang(r"\n+")) is None and lang(r"\n+").included_in(autom["NL"][0]) is None:
        rep.ok("C02.4", c2, "NL is a token matching exactly runs of newlines")
    else:
        rep.violation("C02.4", c2, "NL is not a token matching exactly runs of newlines", lx.cls.loc())

    # ------------------------------------------------------------ C02.5
    rep.rule("C02.5", "the parser's error handler is total (it is called with None at end of input)", floor=1)
    err = pcls.methods.get("error")
    cons = cls_construct(ix, pcls.qualname, "error")
    if err is None:
        rep.violation("C02.5", cons, "the parser defines no error handler: sly's default prints to stderr and continues", pcls.loc())
    else:
        from .c16 import none_guard_contradictions

        tok = err.params[1]
        bad = none_guard_contradictions(err, tok)
        if bad is None:
            rep.undecided("C02.5", cons, "no None test on the token parameter", err.loc())
        elif bad:
            rep.violation("C02.5", cons, f"`{ast.unparse(bad[0])}` is evaluated after the None test on `{tok}` has been joined: at end of input (token is None) the handler raises AttributeError instead of JaqalParseError", f"{err.path}:{bad[0].lineno}", witness="loop 2 {")
        else:
            rep.ok("C02.5", cons, "every use of the token is under the non-None branch", err.loc())
        raises = [s for s in iter_stmts(err.body) if isinstance(s, ast.Raise)]
        if not raises or not _never_returns(err, noret):
            rep.violation("C02.5", cons + ":raises", "the error handler can return normally: sly then resynchronises and a syntax error is silently skipped", err.loc())
        else:
            rep.ok("C02.5", cons + ":raises", "the error handler always raises", err.loc())


def token_shadowing(ctx, rep, lx, autom):
    """C02.8: sly joins the token patterns into one alternation in definition order, and Python's alternation takes the
    first alternative that matches *some* prefix.  A string of a later token whose prefix is matched by an earlier
    rule can therefore never be lexed as that later token."""
    rep.rule("C02.8", "no token's language is shadowed by an earlier lexer rule (the earlier rule would match a prefix and win)", floor=8)
    lcons = "parser.slyparse:" + lx.cls.name
    order = list(lx.rules)
    for i, r in enumerate(order):
        if not autom.get(r.name):
            continue
        shadow = None
        for e in order[:i]:
            if not autom.get(e.name):
                continue
            w = autom[r.name][0].nonempty_prefixes_matching(autom[e.name][0])
            if w is not None:
                shadow = (e, w)
                break
        cons = f"{lcons}:{'ignore_' if r.ignored else ''}{r.name}:not-shadowed"
        loc = f"{lx.cls.path}:{r.lineno}"
        if shadow is None:
            rep.ok("C02.8", cons, "no earlier rule matches a prefix of any of its strings", loc)
        else:
            e, w = shadow
            rep.violation("C02.8", cons, f"{w!r} is in the language of {r.name}, but the earlier rule {e.name} matches a prefix of it and wins: the text is split into other tokens and rejected (or mis-parsed)", loc, witness=w)


def identifier_components(ctx, rep, lx, autom):
    """C02.9: the lexer's identifier tokens are qualified identifiers in the sense of core.identifier: components
    joined by single periods, each component a valid identifier (so `a.5` is `a` followed by the number `.5`)."""
    from ..regex import lang, Unsupported
    ix = ctx.ix
    rep.rule("C02.9", "every IDENTIFIER / DOTIDENTIFIER token is a period-joined sequence of components that each satisfy core.identifier's definition of an identifier", floor=2)
    idm = ix.modules.get("jaqalpaq.core.identifier")
    pat = None
    if idm is not None:
        for st in idm.tree.body:
            if isinstance(st, ast.Assign) and isinstance(st.value, ast.Call) and st.value.args and isinstance(st.value.args[0], ast.Constant) and "compile" in ast.unparse(st.value.func):
                pat = st.value.args[0].value
    if pat is None:
        raise AnalysisError("C02.9: core.identifier.valid_identifier_regex not found")
    comp = pat.strip("^$")
    lcons = "parser.slyparse:" + lx.cls.name
    try:
        qual = lang(f"{comp}(\\.{comp})*")
        dotq = lang(f"\\.({comp}(\\.{comp})*)?")
    except Unsupported as ex:
        rep.undecided("C02.9", lcons + ":IDENTIFIER:components", str(ex))
        return
    for name, ref in (("IDENTIFIER", qual), ("DOTIDENTIFIER", dotq)):
        r = lx.rule(name)
        cons = f"{lcons}:{name}:components"
        if r is None or not autom.get(name):
            rep.undecided("C02.9", cons, "token not found")
            continue
        w = autom[name][0].included_in(ref)
        loc = f"{lx.cls.path}:{r.lineno}"
        if w is None:
            rep.ok("C02.9", cons, f"L({name}) is included in the qualified-identifier language built from `{comp}`", loc)
        else:
            rep.violation("C02.9", cons, f"{w!r} is lexed as one {name} although a component of it is not an identifier: `foo a.5` is read as the single name 'a.5' while `foo a .5` is the name a and the number 0.5 (inserting a blank between two tokens changes the parse)", loc, witness=w)
