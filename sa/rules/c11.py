"""C11 -- analyses and transformations never modify their input circuit (ownership/effect analysis)."""

from __future__ import annotations

import ast

from ..index import AnalysisError, Index
from ..ownership import Ownership
from .common import construct_of, short

ENTRIES = [
    "jaqalpaq.core.algorithm.expand_macros.expand_macros",
    "jaqalpaq.core.algorithm.fill_in_let.fill_in_let",
    "jaqalpaq.core.algorithm.fill_in_map.fill_in_map",
    "jaqalpaq.core.algorithm.expand_subcircuits.expand_subcircuits",
    "jaqalpaq.core.algorithm.unit_timing.normalize_blocks_with_unitary_timing",
    "jaqalpaq.core.algorithm.used_qubit_visitor.get_used_qubit_indices",
    "jaqalpaq.generator.generator.generate_jaqal_program",
    "jaqalpaq.run.run.run_jaqal_circuit",
    "jaqalpaq.core.result.parse_jaqal_output_list",
]
EXCLUDE = ("jaqalpaq.emulator.pygsti", "jaqalpaq.ipc", "jaqalpaq._cli", "jaqalpaq.qsyntax")

# per-symbol table of idempotent caches on shared objects (C11.3)
IDEMPOTENT_CACHES = {
    ("jaqalpaq.core.usepulses.UsePulsesStatement", "_gates"):
        "gate table of a usepulses statement: loaded once from the named module, never invalidated, not compared by __eq__, not printed",
}

POSITIVE_CONTROL = '''
def _verif_positive_control(circuit):
    stmts = circuit.body.statements
    stmts.append(None)
    return circuit
'''


def run_engine(ctx, sources=None, entries=None):
    from ..typing import Typer

    if sources is None:
        ix, T = ctx.ix, ctx.typer
    else:
        ix = Index(sources)
        T = Typer(ix, duck=True)
    own = Ownership(ix, T, exclude_modules=EXCLUDE)
    own.analyse(entries or ENTRIES)
    return ix, own


def classify(own: Ownership, f, recv):
    g = own.ground(recv)
    flat = set()
    for a in g:
        if isinstance(a, tuple):
            flat.add(a[0])
        else:
            flat.add(a)
    return g, flat


def run(ctx, rep):
    ix = ctx.ix
    for q in ENTRIES:
        ix.func(q)
    ix2, own = run_engine(ctx)
    rep.assume("no setattr/__dict__/exec tricks on input objects beyond the sites enumerated; numpy, sly and the standard library do not retain or mutate circuit objects passed to them")
    rep.assume("the ideal_unitary functions of gate definitions (user-supplied) are pure functions of their numeric arguments")
    rep.assume("generator-style visitors (yield / yield from) are treated like returns of a fresh container")
    rep.assume("call edges: resolved calls, visitor dispatch and Builder dispatch; the backend is the default one (pyGSTi back ends, IPC and the CLI are outside the model); every parameter of an entry point is INPUT")
    rep.analysed["entries"] = ENTRIES
    rep.analysed["reachable_functions"] = len(own.reachable)
    rep.analysed["fixpoint_rounds"] = own.rounds
    rep.analysed["functions"] = sorted(short(f.qualname) for f in own.reachable)

    rep.rule("C11.1", "every mutating operation reachable from the entry points acts on a fresh or visitor-owned object, never on one that may alias the input", floor=80)
    rep.rule("C11.3", "stores to attributes of input-reachable objects are idempotent caches from the per-symbol table", floor=0)
    n_sites = 0
    for f in own.reachable:
        s = own.summaries[f.qualname]
        for recv, site in s.mutations:
            n_sites += 1
            g, flat = classify(own, f, recv)
            cons = construct_of(f, f"{type(site.node).__name__}@{_ordinal(f, site.node)}:{_norm(site)}")
            if "INPUT" in flat:
                # C11.3 table
                attr = None
                if "[attr " in site.desc:
                    attr = site.desc.split("[attr ")[1].rstrip("]")
                if attr and f.cls and (f.cls, attr) in IDEMPOTENT_CACHES:
                    rep.exempt("C11.3", cons, IDEMPOTENT_CACHES[(f.cls, attr)], site.loc())
                    continue
                rep.violation("C11.1", cons, f"{site.desc}: the receiver may be (part of) the input circuit [{_show(g)}]", site.loc())
            elif "UNKNOWN" in flat:
                rep.undecided("C11.1", cons, f"{site.desc}: receiver not tracked [{_show(g)}]", site.loc())
            else:
                rep.ok("C11.1", cons, f"{site.desc}: receiver is {_show(g)}", site.loc())
    rep.analysed["mutation_sites"] = n_sites
    # unresolved method calls on input-derived receivers
    seen = set()
    for f, call, recv in own.unresolved:
        g, flat = classify(own, f, recv)
        if "INPUT" in flat and id(call) not in seen:
            seen.add(id(call))
            rep.undecided("C11.1", construct_of(f, f"unresolved-call:{ast.unparse(call.func)}"), "method call on an input-derived receiver could not be resolved; its effect is not known", f"{f.path}:{call.lineno}")

    # positive control: an embedded violating pass must be flagged on every run
    rep.rule("C11.control", "positive control: an embedded pass that appends to circuit.body.statements is flagged", floor=1)
    src = dict(ctx.sources)
    path = "src/jaqalpaq/core/algorithm/unit_timing.py"
    if path not in src:
        raise AnalysisError("C11: positive-control host module vanished")
    src[path] = src[path] + "\n" + POSITIVE_CONTROL
    ix3, own3 = run_engine(ctx, sources=src, entries=["jaqalpaq.core.algorithm.unit_timing._verif_positive_control"])
    flagged = False
    for f in own3.reachable:
        for recv, site in own3.summaries[f.qualname].mutations:
            g, flat = classify(own3, f, recv)
            if "INPUT" in flat:
                flagged = True
    if not flagged:
        raise AnalysisError("C11: positive control not flagged -- the ownership analysis is broken")
    rep.ok("C11.control", "embedded:_verif_positive_control", "stmts = circuit.body.statements; stmts.append(None) is flagged as a mutation of INPUT")


def _show(g):
    out = []
    for a in sorted(g, key=str):
        if isinstance(a, tuple):
            out.append(a[0])
        else:
            out.append(a)
    return ", ".join(sorted(set(out)))


def _norm(site):
    d = site.desc
    for ch in "`":
        d = d.replace(ch, "")
    return d.replace(" ", "_")[:80]


def _ordinal(f, node):
    """Index of the node among same-typed mutation-capable nodes of the function (stable under line shifts)."""
    n = 0
    for x in ast.walk(f.node):
        if type(x) is type(node):
            if x is node:
                return n
            n += 1
    return n
