"""Clauses added after the sixth mutation sweep: polarity and completeness
of tests that earlier rules recognise by their operands only.  Same layout
as sweep3: EXTRA = {property: [(function, rule id, *extra)]}."""
from __future__ import annotations

import ast

from ..cfg import iter_stmts
from .common import construct_of
from .wave3 import _func, _method, _enclosing_ifs, _names
from .sweep2 import _cmp_sense
from .sweep3 import _none_test_name, _positive_conjunct

EXTRA: dict = {}


def _add(prop, fn, rule, *extra):
    EXTRA.setdefault(prop, []).append((fn, rule, *extra))


def _fold_not(e):
    neg = False
    while isinstance(e, ast.UnaryOp) and isinstance(e.op, ast.Not):
        neg, e = not neg, e.operand
    return e, neg


def _above(test, marker):
    """True if `test` means `<something> is above <expression mentioning
    marker>`, False if it means below-or-equal, None if it is neither
    (`not` is folded; > and >= count alike)."""
    e, neg = _fold_not(test)
    if not (isinstance(e, ast.Compare) and len(e.ops) == 1 and isinstance(e.ops[0], (ast.Gt, ast.GtE, ast.Lt, ast.LtE))):
        return None
    left, right = ast.unparse(e.left), ast.unparse(e.comparators[0])
    gt = isinstance(e.ops[0], (ast.Gt, ast.GtE))
    if marker in right and marker not in left:
        above = gt
    elif marker in left and marker not in right:
        above = not gt
    else:
        return None
    return above != neg


# ---------------------------------------------------------------- C06

def dependence_loop_polarity(ctx, rep, rule):
    ix = ctx.ix
    f = _func(ix, "jaqalpaq.core.algorithm.fill_in_map._depends_on_parameter")
    rep.rule(rule, "_depends_on_parameter walks the alias chain while there IS a link (`while obj is not None`)", floor=1)
    cons = construct_of(f, "chain-walk")
    ws = [w for w in ast.walk(f.node) if isinstance(w, ast.While)]
    if not ws:
        rep.undecided(rule, cons, "no loop", f.loc())
        return
    w = ws[0]
    names = _names(w.test)
    sense = _none_test_name(w.test, next(iter(names)) if len(names) == 1 else "")
    if sense is True:
        rep.ok(rule, cons, f"`while {ast.unparse(w.test)}`", f"{f.path}:{w.lineno}")
    elif sense is False:
        rep.violation(rule, cons, f"`while {ast.unparse(w.test)}`: the chain is never looked at, so no qubit depends on a parameter or a let constant: fill_in_map resolves `q[n]` inside a macro at once (JaqalError: unbound identifier), or with the declared value of an overridable let", f"{f.path}:{w.lineno}", witness="register r[2]; map q r; macro f n { Px q[n] }; f 0")
    else:
        rep.undecided(rule, cons, f"`while {ast.unparse(w.test)}`", f"{f.path}:{w.lineno}")


# ---------------------------------------------------------------- C08 / C15

def trace_walk_empty_return(ctx, rep, rule):
    ix = ctx.ix
    vc = _method(ix, "jaqalpaq.core.algorithm.walkers.TraceVisitor", "visit_Circuit")
    rep.rule(rule, "the trace walk returns at once exactly when there are NO traces; otherwise it takes the first trace as its objective and walks the body", floor=1)
    cons = construct_of(vc, "no-traces")
    hit = False
    for st in iter_stmts(vc.body):
        if isinstance(st, ast.If) and "traces" in ast.unparse(st.test) and any(isinstance(s, ast.Return) and s.value is None for s in st.body):
            hit = True
            e, neg = _fold_not(st.test)
            empty = None
            if isinstance(e, ast.Compare) and len(e.ops) == 1 and "len(" in ast.unparse(e.left) and isinstance(e.comparators[0], ast.Constant):
                k = e.comparators[0].value
                op = e.ops[0]
                if (isinstance(op, ast.Eq) and k == 0) or (isinstance(op, ast.Lt) and k == 1) or (isinstance(op, ast.LtE) and k == 0):
                    empty = True
                elif (isinstance(op, ast.NotEq) and k == 0) or (isinstance(op, ast.Gt) and k == 0) or (isinstance(op, ast.GtE) and k == 1):
                    empty = False
            elif isinstance(e, ast.Attribute) and e.attr == "traces":
                empty = False          # `if self.traces` (before folding the nots)
            if empty is None:
                rep.undecided(rule, cons, f"`if {ast.unparse(st.test)}`", f"{vc.path}:{st.lineno}")
            elif empty != neg:
                rep.ok(rule, cons, f"`if {ast.unparse(st.test)}: return`", f"{vc.path}:{st.lineno}")
            else:
                rep.violation(rule, cons, f"`if {ast.unparse(st.test)}: return`: every circuit that HAS subcircuits is left unwalked (no readout is ever assigned to a subcircuit, no emulated subcircuit gets its data) and an empty one raises IndexError", f"{vc.path}:{st.lineno}", witness="prepare_all; measure_all")
    if not hit:
        rep.ok(rule, cons, "no early return", vc.loc())


# ---------------------------------------------------------------- C13

def made_up_busy_condition(ctx, rep, rule):
    ix = ctx.ix
    gd = _method(ix, "jaqalpaq.core.circuitbuilder.Builder", "get_gate_definition")
    rep.rule(rule, "a made-up definition is a busy one when the name IS prepare_all or measure_all (positive membership naming both) and, where the number of arguments is asked about, when there are none: no other made-up gate acts on every qubit", floor=1)
    cons = construct_of(gd, "made-up-bounding-condition")
    busy = [c for c in ast.walk(gd.node) if isinstance(c, ast.Call) and isinstance(c.func, ast.Name) and c.func.id == "BusyGateDefinition"]
    if not busy:
        rep.undecided(rule, cons, "no busy definition is made up (see the rule on made-up bounding gates)", gd.loc())
        return
    for c in busy:
        tests = [(t, taken) for t, taken in _enclosing_ifs(gd.node, c) if "prepare_all" in ast.unparse(t) or "measure_all" in ast.unparse(t)]
        if not tests:
            rep.undecided(rule, cons, "no test on the name", f"{gd.path}:{c.lineno}")
            continue
        t, taken = tests[-1]
        is_names = lambda e: isinstance(e, ast.Compare) and len(e.ops) == 1 and isinstance(e.ops[0], ast.In) and "prepare_all" in ast.unparse(e.comparators[0]) and "measure_all" in ast.unparse(e.comparators[0])
        counts = [x for x in ast.walk(t) if isinstance(x, ast.Compare) and len(x.ops) == 1 and isinstance(x.comparators[0], ast.Constant) and isinstance(x.comparators[0].value, int) and ("count" in ast.unparse(x.left) or "len(" in ast.unparse(x.left))]
        is_zero = lambda e: any(e is x for x in counts) and isinstance(e.ops[0], ast.Eq) and e.comparators[0].value == 0
        if not taken or not _positive_conjunct(t, is_names):
            rep.violation(rule, cons, f"`if {ast.unparse(t)[:90]}`: the busy definition is not made up for exactly the names prepare_all and measure_all -- every OTHER unknown gate uses all qubits (any two of them in a parallel block collide) and the bounding gates use none", f"{gd.path}:{t.lineno}", witness="register q[2]; prepare_all; < Px q[0] | Py q[1] >; measure_all  (no gate set)")
        elif counts and not _positive_conjunct(t, is_zero):
            rep.violation(rule, cons, f"`if {ast.unparse(t)[:90]}`: the test on the number of arguments is not `== 0`, so `prepare_all` as it is written in every program gets a plain definition that uses no qubit", f"{gd.path}:{t.lineno}", witness="parse_jaqal_string('register q[3]; prepare_all; Px q[0]; measure_all', autoload_pulses=False)")
        else:
            rep.ok(rule, cons, f"`if {ast.unparse(t)[:80]}`", f"{gd.path}:{t.lineno}")


def relinker_passes_every_field(ctx, rep, rule):
    ix = ctx.ix
    RV = "jaqalpaq.core.circuitbuilder.RebuildMacroInContextVisitor"
    cls = ix.classes.get(RV)
    rep.rule(rule, "a node rebuilt by the builder's relinker is constructed with every parameter of its class's constructor (an omitted one falls back to the default: no cases, one iteration, sequential)", floor=4)
    if cls is None:
        rep.undecided(rule, "core.circuitbuilder:RebuildMacroInContextVisitor", "class not found")
        return
    byname = {}
    for q in ix.classes:
        if q.startswith("jaqalpaq.core.") and ".algorithm." not in q:
            byname.setdefault(q.rsplit(".", 1)[1], []).append(q)
    for mn, m in sorted(cls.methods.items()):
        if not mn.startswith("visit_"):
            continue
        T = mn[6:]
        tq = byname.get(T)
        if not tq:
            continue
        init = ix.classes[tq[0]].methods.get("__init__")
        if init is None:
            continue
        params = list(init.params[1:])
        for call in ast.walk(m.node):
            if isinstance(call, ast.Call) and isinstance(call.func, ast.Name) and call.func.id == T:
                cons = construct_of(m, f"rebuilt:{T}")
                if any(isinstance(a, ast.Starred) for a in call.args) or any(k.arg is None for k in call.keywords):
                    rep.undecided(rule, cons, f"`{ast.unparse(call)[:70]}` unpacks its arguments", f"{m.path}:{call.lineno}")
                    continue
                given = set(params[:len(call.args)]) | {k.arg for k in call.keywords}
                missing = [p_ for p_ in params if p_ not in given]
                if missing:
                    rep.violation(rule, cons, f"`{ast.unparse(call)[:80]}` leaves out {missing}: a {T} that contains a relinked call loses that part (a branch loses its cases, a loop its count, a block its kind) whenever something below it changed", f"{m.path}:{call.lineno}")
                else:
                    rep.ok(rule, cons, f"all of {params} given", f"{m.path}:{call.lineno}")


# ---------------------------------------------------------------- C01

def reserved_words_consulted(ctx, rep, rule):
    ix = ctx.ix
    f = _func(ix, "jaqalpaq.core.identifier.is_identifier_valid")
    rep.rule(rule, "is_identifier_valid consults the table of reserved words", floor=1)
    cons = construct_of(f, "reserved-words")
    if any(isinstance(n, ast.Name) and n.id == "RESERVED_WORDS" for n in ast.walk(f.node)):
        rep.ok(rule, cons, "RESERVED_WORDS is read", f.loc())
    else:
        rep.violation(rule, cons, "is_identifier_valid never looks at RESERVED_WORDS: `let loop 1` or a register named `macro` is built and written out as text that does not parse", f.loc(), witness="CircuitBuilder().let('loop', 1)")


def value_writer_polarity(ctx, rep, rule):
    ix = ctx.ix
    f = _func(ix, "jaqalpaq.generator.generator.generate_jaqal_value")
    rep.rule(rule, "the value writer turns a number of a non-builtin type into int when it IS Integral and into float when it IS Real (positive type tests)", floor=1)
    valn = f.params[0]
    n = 0
    for a in ast.walk(f.node):
        if isinstance(a, ast.Assign) and isinstance(a.value, ast.Call) and isinstance(a.value.func, ast.Name) and a.value.func.id in ("int", "float") and len(a.targets) == 1 and isinstance(a.targets[0], ast.Name) and a.targets[0].id == valn:
            want = "Integral" if a.value.func.id == "int" else "Real"
            cons = construct_of(f, f"conversion:{a.value.func.id}")
            tests = [(t, taken) for t, taken in _enclosing_ifs(f.node, a) if want in ast.unparse(t)]
            n += 1
            if not tests:
                rep.undecided(rule, cons, f"`{ast.unparse(a)}` is not under a test for {want}", f"{f.path}:{a.lineno}")
                continue
            t, taken = tests[-1]
            e, neg = _fold_not(t)
            positive = isinstance(e, ast.Call) and isinstance(e.func, ast.Name) and e.func.id == "isinstance" and not neg
            if positive and taken:
                rep.ok(rule, cons, f"`{ast.unparse(a)}` under `{ast.unparse(t)}`", f"{f.path}:{a.lineno}")
            else:
                rep.violation(rule, cons, f"`{ast.unparse(a)}` runs when the value is NOT {want}: a numpy integer is written as a float (`loop 3.0` does not parse back to the same count) or refused, and fractions are truncated", f"{f.path}:{a.lineno}")
    if n == 0:
        rep.undecided(rule, construct_of(f, "conversion"), "no conversion of other number types (see the rule on the total value writer)", f.loc())


# ---------------------------------------------------------------- C18

def copy_applies_overrides(ctx, rep, rule):
    ix = ctx.ix
    cp = _method(ix, "jaqalpaq.core.gatedef.AbstractGate", "copy")
    rep.rule(rule, "AbstractGate.copy applies each override (name, parameters, ideal_unitary) exactly when it IS given: stretched_gates relies on all three to make the stretched variant", floor=3)
    kw = [a.arg for a in cp.node.args.kwonlyargs] or [p_ for p_ in cp.params[1:]]
    for p_ in kw:
        cons = construct_of(cp, f"override:{p_}")
        stores = [a for a in ast.walk(cp.node) if isinstance(a, ast.Assign) and any(isinstance(t, ast.Attribute) and t.attr.lstrip("_") == p_ for t in a.targets) and isinstance(a.value, ast.Name) and a.value.id == p_]
        if not stores:
            rep.violation(rule, cons, f"the override `{p_}` is never stored in the copy: the stretched variant of a gate keeps its parent's {p_}", cp.loc())
            continue
        for a in stores:
            tests = [(t, taken) for t, taken in _enclosing_ifs(cp.node, a) if _none_test_name(t, p_) is not None]
            if not tests:
                # unconditional store: an absent override would erase the field
                rep.violation(rule, cons, f"`{ast.unparse(a)}` is unconditional: a copy that does not override {p_} loses it", f"{cp.path}:{a.lineno}")
                continue
            t, taken = tests[-1]
            given = _none_test_name(t, p_) == taken
            if given:
                rep.ok(rule, cons, f"`{ast.unparse(a)}` when {p_} is given", f"{cp.path}:{a.lineno}")
            else:
                rep.violation(rule, cons, f"`if {ast.unparse(t)}: {ast.unparse(a)}`: the override is stored when it is ABSENT (erasing the field) and ignored when given -- a stretched gate keeps its parent's name, lacks the stretch parameter, or calls the parent's unitary with one argument too many", f"{cp.path}:{t.lineno}", witness="stretched_gates({'Px': Px}, suffix='_s')")


# ---------------------------------------------------------------- C15

def cutoff_polarity(ctx, rep, rule):
    ix = ctx.ix
    init = _method(ix, "jaqalpaq.core.result.ProbabilisticSubcircuit", "__init__")
    rep.rule(rule, "the correction applied to a distribution is refused when it is ABOVE CUTOFF_FAIL and reported when it is ABOVE CUTOFF_WARN", floor=1)
    for r in ast.walk(init.node):
        if isinstance(r, ast.Raise):
            for t, taken in _enclosing_ifs(init.node, r):
                if "CUTOFF_FAIL" in ast.unparse(t):
                    cons = construct_of(init, "cutoff-fail-sense")
                    s = _above(t, "CUTOFF_FAIL")
                    if s is None:
                        rep.undecided(rule, cons, f"`if {ast.unparse(t)}`", f"{init.path}:{t.lineno}")
                    elif s == taken:
                        rep.ok(rule, cons, f"raises under `{ast.unparse(t)}`", f"{init.path}:{t.lineno}")
                    else:
                        rep.violation(rule, cons, f"`if {ast.unparse(t)}` raises for corrections BELOW the cutoff and lets the large ones pass with a warning: a distribution that is far from normalised is reported as sound", f"{init.path}:{t.lineno}")
        if isinstance(r, ast.Call) and ast.unparse(r.func).endswith("warn"):
            for t, taken in _enclosing_ifs(init.node, r):
                if "CUTOFF_WARN" in ast.unparse(t):
                    cons = construct_of(init, "cutoff-warn-sense")
                    s = _above(t, "CUTOFF_WARN")
                    if s is None:
                        rep.undecided(rule, cons, f"`if {ast.unparse(t)}`", f"{init.path}:{t.lineno}")
                    elif s == taken:
                        rep.ok(rule, cons, f"warns under `{ast.unparse(t)}`", f"{init.path}:{t.lineno}")
                    else:
                        rep.violation(rule, cons, f"`if {ast.unparse(t)}`: corrections above the cutoffs are neither reported nor refused (the failing test sits inside this branch)", f"{init.path}:{t.lineno}")


# ---------------------------------------------------------------- C16 / C03

def distinct_qubits_polarity(ctx, rep, rule):
    ix = ctx.ix
    ms = _method(ix, "jaqalpaq.emulator.unitary.UnitarySerializedEmulator", "_make_subcircuit")
    rep.rule(rule, "the emulator refuses a gate when its resolved qubit positions are NOT all distinct (len(set(..)) differs from / is below len(..))", floor=1)
    cons = construct_of(ms, "distinct-qubits-sense")
    hit = False
    for r in ast.walk(ms.node):
        if not isinstance(r, ast.Raise):
            continue
        for t, taken in _enclosing_ifs(ms.node, r):
            src = ast.unparse(t)
            if "set(" not in src or "len(" not in src:
                continue
            hit = True
            e, neg = _fold_not(t)
            dup = None
            if isinstance(e, ast.Compare) and len(e.ops) == 1:
                op = e.ops[0]
                lset = "set(" in ast.unparse(e.left)
                rset = "set(" in ast.unparse(e.comparators[0])
                if isinstance(op, ast.NotEq):
                    dup = True
                elif isinstance(op, ast.Eq):
                    dup = False
                elif lset != rset and isinstance(op, (ast.Lt, ast.Gt)):
                    dup = isinstance(op, ast.Lt) == lset
                elif lset != rset and isinstance(op, (ast.LtE, ast.GtE)):
                    # len(set) >= len  <=>  distinct
                    dup = not (isinstance(op, ast.GtE) == lset)
            if dup is None:
                rep.undecided(rule, cons, f"`if {src}`", f"{ms.path}:{t.lineno}")
            elif (dup != neg) == taken:
                rep.ok(rule, cons, f"raises under `{src}`", f"{ms.path}:{t.lineno}")
            else:
                rep.violation(rule, cons, f"`if {src}` raises for gates whose qubits ARE distinct -- every two-qubit gate is refused -- and lets `Sxx r[0] r[0]` through to the index arithmetic", f"{ms.path}:{t.lineno}", witness="Sxx r[0] r[1]")
    if not hit:
        rep.undecided(rule, cons, "no test of the positions (see the rule on distinct qubits)", ms.loc())


def memo_default_polarity(ctx, rep, rule):
    ix = ctx.ix
    f = _func(ix, "jaqalpaq.core.circuitbuilder.contains_subcircuit")
    rep.rule(rule, "contains_subcircuit starts a fresh memo only when NONE was handed in: recursive calls and the builder share one", floor=1)
    cons = construct_of(f, "memo-default")
    hit = False
    for st in ast.walk(f.node):
        if isinstance(st, ast.If):
            for p_ in f.all_params:
                s = _none_test_name(st.test, p_)
                if s is None:
                    continue
                fresh = [a for a in st.body if isinstance(a, ast.Assign) and any(isinstance(t, ast.Name) and t.id == p_ for t in a.targets)]
                fresh_else = [a for a in st.orelse if isinstance(a, ast.Assign) and any(isinstance(t, ast.Name) and t.id == p_ for t in a.targets)]
                if not fresh and not fresh_else:
                    continue
                hit = True
                if (fresh and s is False) or (fresh_else and s is True):
                    rep.ok(rule, cons, f"`if {ast.unparse(st.test)}` makes the fresh memo", f"{f.path}:{st.lineno}")
                else:
                    rep.violation(rule, cons, f"`if {ast.unparse(st.test)}: {p_} = ...` throws away the memo that was handed in, at every level of the recursion: the answers are never reused (time 2**i for `macro m{{i}} {{ m{{i-1}}; m{{i-1}} }}`), and a call without a memo fails (TypeError)", f"{f.path}:{st.lineno}")
    if not hit:
        rep.undecided(rule, cons, "no default for the memo", f.loc())


# ---------------------------------------------------------------- C14

def resolve_qubit_range_guard(ctx, rep, rule):
    ix = ctx.ix
    rq = _method(ix, "jaqalpaq.core.register.Register", "resolve_qubit")
    rep.rule(rule, "Register.resolve_qubit compares the index with the size when the size IS known (`size is not None and idx >= size`)", floor=1)
    cons = construct_of(rq, "upper-bound-guard")
    hit = False
    for st in iter_stmts(rq.body):
        if isinstance(st, ast.If) and any(isinstance(r, ast.Raise) for r in st.body) and "size" in ast.unparse(st.test):
            for b in ast.walk(st.test):
                if isinstance(b, ast.BoolOp) and isinstance(b.op, ast.And):
                    senses = [_none_test_name(v, "size") for v in b.values]
                    if any(s is not None for s in senses):
                        hit = True
                        if any(s is True for s in senses):
                            rep.ok(rule, cons, f"`{ast.unparse(b)[:70]}`", f"{rq.path}:{st.lineno}")
                        else:
                            rep.violation(rule, cons, f"`{ast.unparse(b)[:80]}`: the upper bound is compared only when there is NO size (int(None): TypeError), so `r[5]` of a two-qubit register reached through a macro parameter resolves to a qubit that does not exist", f"{rq.path}:{st.lineno}", witness="register r[2]; macro f a { Px a[5] }; f r")
    if not hit:
        rep.ok(rule, cons, "the size is compared unconditionally", rq.loc())


def slice_bounds_defaulted(ctx, rep, rule):
    ix = ctx.ix
    rep.rule(rule, "wherever the register module copies a slice bound into a local it supplies the default for an absent (None) bound, in the same expression or by a later `if x is None`", floor=3)
    n = 0
    for f in ix.functions.values():
        if f.module != "jaqalpaq.core.register" or isinstance(f.node, ast.Lambda):
            continue
        for a in ast.walk(f.node):
            if not (isinstance(a, ast.Assign) and len(a.targets) == 1 and isinstance(a.targets[0], ast.Name) and a.targets[0].id in ("start", "stop", "step")):
                continue
            x = a.targets[0].id
            if not any(isinstance(v, ast.Attribute) and v.attr == x and "slice" in ast.unparse(v.value) for v in ast.walk(a.value)):
                continue
            n += 1
            cons = construct_of(f, f"bound:{x}")
            raw = isinstance(a.value, ast.Attribute)
            later = any(isinstance(st, (ast.If, ast.IfExp)) and _none_test_name(st.test, x) is not None for st in ast.walk(f.node))
            if not raw or later:
                rep.ok(rule, cons, f"`{ast.unparse(a)[:60]}`", f"{f.path}:{a.lineno}")
            else:
                rep.violation(rule, cons, f"`{ast.unparse(a)}` copies the bound as it is and nothing replaces None: `map a q[:2]` (no lower bound) fails with TypeError instead of starting at 0", f"{f.path}:{a.lineno}", witness="register q[4]; map a q[:2]")
    if n == 0:
        rep.undecided(rule, "core.register:slice-bounds", "no local copy of a slice bound")


# ---------------------------------------------------------------- C09

def subcircuit_builder_count(ctx, rep, rule):
    ix = ctx.ix
    init = ix.find_method("jaqalpaq.core.circuitbuilder.SubcircuitBlockBuilder", "__init__")
    rep.rule(rule, "SubcircuitBlockBuilder writes the count it is given, and the parser's empty marker only when there is none", floor=1)
    if init is None:
        rep.undecided(rule, "core.circuitbuilder:SubcircuitBlockBuilder.__init__", "not found")
        return
    cons = construct_of(init, "count")
    hit = False
    for e in ast.walk(init.node):
        if isinstance(e, ast.IfExp):
            for p_ in init.all_params:
                s = _none_test_name(e.test, p_)
                if s is None:
                    continue
                hit = True
                given, absent = (e.body, e.orelse) if s else (e.orelse, e.body)
                if isinstance(given, ast.Name) and given.id == p_ and not (isinstance(absent, ast.Name) and absent.id == p_):
                    rep.ok(rule, cons, f"`{ast.unparse(e)}`", f"{init.path}:{e.lineno}")
                else:
                    rep.violation(rule, cons, f"`{ast.unparse(e)}`: a given count is replaced by the empty marker (the subcircuit runs once, whatever was asked) and an absent one is written as None", f"{init.path}:{e.lineno}", witness="SubcircuitBlockBuilder(iterations=5)")
    if not hit:
        rep.undecided(rule, cons, "no conditional expression on the count", init.loc())


_add("C06", dependence_loop_polarity, "C06.20")
_add("C08", trace_walk_empty_return, "C08.20")
_add("C15", trace_walk_empty_return, "C15.17")
_add("C13", made_up_busy_condition, "C13.24")
_add("C13", relinker_passes_every_field, "C13.25")
_add("C01", reserved_words_consulted, "C01.17")
_add("C01", value_writer_polarity, "C01.18")
_add("C18", copy_applies_overrides, "C18.19")
_add("C15", cutoff_polarity, "C15.18")
_add("C16", distinct_qubits_polarity, "C16.30")
_add("C03", distinct_qubits_polarity, "C03.12")
_add("C16", memo_default_polarity, "C16.31")
_add("C14", resolve_qubit_range_guard, "C14.17")
_add("C14", slice_bounds_defaulted, "C14.18")
_add("C06", slice_bounds_defaulted, "C06.21")
_add("C09", subcircuit_builder_count, "C09.15")
