"""Clauses added after the sixth mutation sweep: polarity and completeness
of tests that earlier rules recognise by their operands only.  Same layout
as sweep3: EXTRA = {property: [(function, rule id, *extra)]}."""
from __future__ import annotations

import ast

from ..cfg import iter_stmts
from .common import construct_of
from .wave3 import _func, _method, _enclosing_ifs, _names
from .sweep2 import _cmp_sense
from .sweep3 import _none_test_name, _positive_conjunct, _nots_above

EXTRA: dict = {}


def _add(prop, fn, rule, *extra):
    EXTRA.setdefault(prop, []).append((fn, rule, *extra))


def _fold_not(e):
    neg = False
    while isinstance(e, ast.UnaryOp) and isinstance(e.op, ast.Not):
        neg, e = not neg, e.operand
    return e, neg


def _above(test, marker):
    """True if `test` means `<something> is above <expression mentioning
    marker>`, False if it means below-or-equal, None if it is neither
    (`not` is folded; > and >= count alike)."""
    e, neg = _fold_not(test)
    if not (isinstance(e, ast.Compare) and len(e.ops) == 1 and isinstance(e.ops[0], (ast.Gt, ast.GtE, ast.Lt, ast.LtE))):
        return None
    left, right = ast.unparse(e.left), ast.unparse(e.comparators[0])
    gt = isinstance(e.ops[0], (ast.Gt, ast.GtE))
    if marker in right and marker not in left:
        above = gt
    elif marker in left and marker not in right:
        above = not gt
    else:
        return None
    return above != neg


# ---------------------------------------------------------------- C06

def dependence_loop_polarity(ctx, rep, rule):
    ix = ctx.ix
    f = _func(ix, "jaqalpaq.core.algorithm.fill_in_map._depends_on_parameter")
    rep.rule(rule, "_depends_on_parameter walks the alias chain while there IS a link (`while obj is not None`)", floor=1)
    cons = construct_of(f, "chain-walk")
    ws = [w for w in ast.walk(f.node) if isinstance(w, ast.While)]
    if not ws:
        rep.undecided(rule, cons, "no loop", f.loc())
        return
    w = ws[0]
    names = _names(w.test)
    sense = _none_test_name(w.test, next(iter(names)) if len(names) == 1 else "")
    if sense is True:
        rep.ok(rule, cons, f"`while {ast.unparse(w.test)}`", f"{f.path}:{w.lineno}")
    elif sense is False:
        rep.violation(rule, cons, f"`while {ast.unparse(w.test)}`: the chain is never looked at, so no qubit depends on a parameter or a let constant: fill_in_map resolves `q[n]` inside a macro at once (JaqalError: unbound identifier), or with the declared value of an overridable let", f"{f.path}:{w.lineno}", witness="register r[2]; map q r; macro f n { Px q[n] }; f 0")
    else:
        rep.undecided(rule, cons, f"`while {ast.unparse(w.test)}`", f"{f.path}:{w.lineno}")


# ---------------------------------------------------------------- C08 / C15

def trace_walk_empty_return(ctx, rep, rule):
    ix = ctx.ix
    vc = _method(ix, "jaqalpaq.core.algorithm.walkers.TraceVisitor", "visit_Circuit")
    rep.rule(rule, "the trace walk returns at once exactly when there are NO traces; otherwise it takes the first trace as its objective and walks the body", floor=1)
    cons = construct_of(vc, "no-traces")
    hit = False
    for st in iter_stmts(vc.body):
        if isinstance(st, ast.If) and "traces" in ast.unparse(st.test) and any(isinstance(s, ast.Return) and s.value is None for s in st.body):
            hit = True
            e, neg = _fold_not(st.test)
            empty = None
            if isinstance(e, ast.Compare) and len(e.ops) == 1 and "len(" in ast.unparse(e.left) and isinstance(e.comparators[0], ast.Constant):
                k = e.comparators[0].value
                op = e.ops[0]
                if (isinstance(op, ast.Eq) and k == 0) or (isinstance(op, ast.Lt) and k == 1) or (isinstance(op, ast.LtE) and k == 0):
                    empty = True
                elif (isinstance(op, ast.NotEq) and k == 0) or (isinstance(op, ast.Gt) and k == 0) or (isinstance(op, ast.GtE) and k == 1):
                    empty = False
            elif isinstance(e, ast.Attribute) and e.attr == "traces":
                empty = False          # `if self.traces` (before folding the nots)
            if empty is None:
                rep.undecided(rule, cons, f"`if {ast.unparse(st.test)}`", f"{vc.path}:{st.lineno}")
            elif empty != neg:
                rep.ok(rule, cons, f"`if {ast.unparse(st.test)}: return`", f"{vc.path}:{st.lineno}")
            else:
                rep.violation(rule, cons, f"`if {ast.unparse(st.test)}: return`: every circuit that HAS subcircuits is left unwalked (no readout is ever assigned to a subcircuit, no emulated subcircuit gets its data) and an empty one raises IndexError", f"{vc.path}:{st.lineno}", witness="prepare_all; measure_all")
    if not hit:
        rep.ok(rule, cons, "no early return", vc.loc())


# ---------------------------------------------------------------- C13

def made_up_busy_condition(ctx, rep, rule):
    ix = ctx.ix
    gd = _method(ix, "jaqalpaq.core.circuitbuilder.Builder", "get_gate_definition")
    rep.rule(rule, "a made-up definition is a busy one when the name IS prepare_all or measure_all (positive membership naming both) and, where the number of arguments is asked about, when there are none: no other made-up gate acts on every qubit", floor=1)
    cons = construct_of(gd, "made-up-bounding-condition")
    busy = [c for c in ast.walk(gd.node) if isinstance(c, ast.Call) and isinstance(c.func, ast.Name) and c.func.id == "BusyGateDefinition"]
    if not busy:
        rep.undecided(rule, cons, "no busy definition is made up (see the rule on made-up bounding gates)", gd.loc())
        return
    for c in busy:
        tests = [(t, taken) for t, taken in _enclosing_ifs(gd.node, c) if "prepare_all" in ast.unparse(t) or "measure_all" in ast.unparse(t)]
        if not tests:
            rep.undecided(rule, cons, "no test on the name", f"{gd.path}:{c.lineno}")
            continue
        t, taken = tests[-1]
        is_names = lambda e: isinstance(e, ast.Compare) and len(e.ops) == 1 and isinstance(e.ops[0], ast.In) and "prepare_all" in ast.unparse(e.comparators[0]) and "measure_all" in ast.unparse(e.comparators[0])
        counts = [x for x in ast.walk(t) if isinstance(x, ast.Compare) and len(x.ops) == 1 and isinstance(x.comparators[0], ast.Constant) and isinstance(x.comparators[0].value, int) and ("count" in ast.unparse(x.left) or "len(" in ast.unparse(x.left))]
        is_zero = lambda e: any(e is x for x in counts) and isinstance(e.ops[0], ast.Eq) and e.comparators[0].value == 0
        if not taken or not _positive_conjunct(t, is_names):
            rep.violation(rule, cons, f"`if {ast.unparse(t)[:90]}`: the busy definition is not made up for exactly the names prepare_all and measure_all -- every OTHER unknown gate uses all qubits (any two of them in a parallel block collide) and the bounding gates use none", f"{gd.path}:{t.lineno}", witness="register q[2]; prepare_all; < Px q[0] | Py q[1] >; measure_all  (no gate set)")
        elif counts and not _positive_conjunct(t, is_zero):
            rep.violation(rule, cons, f"`if {ast.unparse(t)[:90]}`: the test on the number of arguments is not `== 0`, so `prepare_all` as it is written in every program gets a plain definition that uses no qubit", f"{gd.path}:{t.lineno}", witness="parse_jaqal_string('register q[3]; prepare_all; Px q[0]; measure_all', autoload_pulses=False)")
        else:
            rep.ok(rule, cons, f"`if {ast.unparse(t)[:80]}`", f"{gd.path}:{t.lineno}")


def relinker_passes_every_field(ctx, rep, rule):
    ix = ctx.ix
    RV = "jaqalpaq.core.circuitbuilder.RebuildMacroInContextVisitor"
    cls = ix.classes.get(RV)
    rep.rule(rule, "a node rebuilt by the builder's relinker is constructed with every parameter of its class's constructor (an omitted one falls back to the default: no cases, one iteration, sequential)", floor=4)
    if cls is None:
        rep.undecided(rule, "core.circuitbuilder:RebuildMacroInContextVisitor", "class not found")
        return
    byname = {}
    for q in ix.classes:
        if q.startswith("jaqalpaq.core.") and ".algorithm." not in q:
            byname.setdefault(q.rsplit(".", 1)[1], []).append(q)
    for mn, m in sorted(cls.methods.items()):
        if not mn.startswith("visit_"):
            continue
        T = mn[6:]
        tq = byname.get(T)
        if not tq:
            continue
        init = ix.classes[tq[0]].methods.get("__init__")
        if init is None:
            continue
        params = list(init.params[1:])
        p0 = m.params[1] if len(m.params) > 1 else None

        def _same_class(fn):
            # T(...), type(<node>)(...), <node>.__class__(...): all construct (a subclass of) the handler's class
            if isinstance(fn, ast.Name) and fn.id == T:
                return True
            if isinstance(fn, ast.Call) and isinstance(fn.func, ast.Name) and fn.func.id == "type" and len(fn.args) == 1 and isinstance(fn.args[0], ast.Name) and fn.args[0].id == p0:
                return True
            return isinstance(fn, ast.Attribute) and fn.attr == "__class__" and isinstance(fn.value, ast.Name) and fn.value.id == p0

        for call in ast.walk(m.node):
            if isinstance(call, ast.Call) and _same_class(call.func):
                cons = construct_of(m, f"rebuilt:{T}")
                if any(isinstance(a, ast.Starred) for a in call.args) or any(k.arg is None for k in call.keywords):
                    rep.undecided(rule, cons, f"`{ast.unparse(call)[:70]}` unpacks its arguments", f"{m.path}:{call.lineno}")
                    continue
                given = set(params[:len(call.args)]) | {k.arg for k in call.keywords}
                missing = [p_ for p_ in params if p_ not in given]
                if missing:
                    rep.violation(rule, cons, f"`{ast.unparse(call)[:80]}` leaves out {missing}: a {T} that contains a relinked call loses that part (a branch loses its cases, a loop its count, a block its kind) whenever something below it changed", f"{m.path}:{call.lineno}")
                else:
                    rep.ok(rule, cons, f"all of {params} given", f"{m.path}:{call.lineno}")


# ---------------------------------------------------------------- C01

def reserved_words_consulted(ctx, rep, rule):
    ix = ctx.ix
    f = _func(ix, "jaqalpaq.core.identifier.is_identifier_valid")
    rep.rule(rule, "is_identifier_valid consults the table of reserved words", floor=1)
    cons = construct_of(f, "reserved-words")
    if any(isinstance(n, ast.Name) and n.id == "RESERVED_WORDS" for n in ast.walk(f.node)):
        rep.ok(rule, cons, "RESERVED_WORDS is read", f.loc())
    else:
        rep.violation(rule, cons, "is_identifier_valid never looks at RESERVED_WORDS: `let loop 1` or a register named `macro` is built and written out as text that does not parse", f.loc(), witness="CircuitBuilder().let('loop', 1)")


def value_writer_polarity(ctx, rep, rule):
    ix = ctx.ix
    f = _func(ix, "jaqalpaq.generator.generator.generate_jaqal_value")
    rep.rule(rule, "the value writer turns a number of a non-builtin type into int when it IS Integral and into float when it IS Real (positive type tests)", floor=1)
    valn = f.params[0]
    n = 0
    for a in ast.walk(f.node):
        if isinstance(a, ast.Assign) and isinstance(a.value, ast.Call) and isinstance(a.value.func, ast.Name) and a.value.func.id in ("int", "float") and len(a.targets) == 1 and isinstance(a.targets[0], ast.Name) and a.targets[0].id == valn:
            want = "Integral" if a.value.func.id == "int" else "Real"
            cons = construct_of(f, f"conversion:{a.value.func.id}")
            tests = [(t, taken) for t, taken in _enclosing_ifs(f.node, a) if want in ast.unparse(t)]
            n += 1
            if not tests:
                rep.undecided(rule, cons, f"`{ast.unparse(a)}` is not under a test for {want}", f"{f.path}:{a.lineno}")
                continue
            t, taken = tests[-1]
            e, neg = _fold_not(t)
            positive = isinstance(e, ast.Call) and isinstance(e.func, ast.Name) and e.func.id == "isinstance" and not neg
            if positive and taken:
                rep.ok(rule, cons, f"`{ast.unparse(a)}` under `{ast.unparse(t)}`", f"{f.path}:{a.lineno}")
            else:
                rep.violation(rule, cons, f"`{ast.unparse(a)}` runs when the value is NOT {want}: a numpy integer is written as a float (`loop 3.0` does not parse back to the same count) or refused, and fractions are truncated", f"{f.path}:{a.lineno}")
    if n == 0:
        rep.undecided(rule, construct_of(f, "conversion"), "no conversion of other number types (see the rule on the total value writer)", f.loc())


# ---------------------------------------------------------------- C18

def copy_applies_overrides(ctx, rep, rule):
    ix = ctx.ix
    cp = _method(ix, "jaqalpaq.core.gatedef.AbstractGate", "copy")
    rep.rule(rule, "AbstractGate.copy applies each override (name, parameters, ideal_unitary) exactly when it IS given: stretched_gates relies on all three to make the stretched variant", floor=3)
    kw = [a.arg for a in cp.node.args.kwonlyargs] or [p_ for p_ in cp.params[1:]]
    for p_ in kw:
        cons = construct_of(cp, f"override:{p_}")
        stores = [a for a in ast.walk(cp.node) if isinstance(a, ast.Assign) and any(isinstance(t, ast.Attribute) and t.attr.lstrip("_") == p_ for t in a.targets) and isinstance(a.value, ast.Name) and a.value.id == p_]
        if not stores:
            rep.violation(rule, cons, f"the override `{p_}` is never stored in the copy: the stretched variant of a gate keeps its parent's {p_}", cp.loc())
            continue
        for a in stores:
            tests = [(t, taken) for t, taken in _enclosing_ifs(cp.node, a) if _none_test_name(t, p_) is not None]
            if not tests:
                # unconditional store: an absent override would erase the field
                rep.violation(rule, cons, f"`{ast.unparse(a)}` is unconditional: a copy that does not override {p_} loses it", f"{cp.path}:{a.lineno}")
                continue
            t, taken = tests[-1]
            given = _none_test_name(t, p_) == taken
            if given:
                rep.ok(rule, cons, f"`{ast.unparse(a)}` when {p_} is given", f"{cp.path}:{a.lineno}")
            else:
                rep.violation(rule, cons, f"`if {ast.unparse(t)}: {ast.unparse(a)}`: the override is stored when it is ABSENT (erasing the field) and ignored when given -- a stretched gate keeps its parent's name, lacks the stretch parameter, or calls the parent's unitary with one argument too many", f"{cp.path}:{t.lineno}", witness="stretched_gates({'Px': Px}, suffix='_s')")


# ---------------------------------------------------------------- C15

def cutoff_polarity(ctx, rep, rule):
    ix = ctx.ix
    init = _method(ix, "jaqalpaq.core.result.ProbabilisticSubcircuit", "__init__")
    rep.rule(rule, "the correction applied to a distribution is refused when it is ABOVE CUTOFF_FAIL and reported when it is ABOVE CUTOFF_WARN", floor=1)
    for r in ast.walk(init.node):
        if isinstance(r, ast.Raise):
            for t, taken in _enclosing_ifs(init.node, r):
                if "CUTOFF_FAIL" in ast.unparse(t):
                    cons = construct_of(init, "cutoff-fail-sense")
                    s = _above(t, "CUTOFF_FAIL")
                    if s is None:
                        rep.undecided(rule, cons, f"`if {ast.unparse(t)}`", f"{init.path}:{t.lineno}")
                    elif s == taken:
                        rep.ok(rule, cons, f"raises under `{ast.unparse(t)}`", f"{init.path}:{t.lineno}")
                    else:
                        rep.violation(rule, cons, f"`if {ast.unparse(t)}` raises for corrections BELOW the cutoff and lets the large ones pass with a warning: a distribution that is far from normalised is reported as sound", f"{init.path}:{t.lineno}")
        if isinstance(r, ast.Call) and ast.unparse(r.func).endswith("warn"):
            for t, taken in _enclosing_ifs(init.node, r):
                if "CUTOFF_WARN" in ast.unparse(t):
                    cons = construct_of(init, "cutoff-warn-sense")
                    s = _above(t, "CUTOFF_WARN")
                    if s is None:
                        rep.undecided(rule, cons, f"`if {ast.unparse(t)}`", f"{init.path}:{t.lineno}")
                    elif s == taken:
                        rep.ok(rule, cons, f"warns under `{ast.unparse(t)}`", f"{init.path}:{t.lineno}")
                    else:
                        rep.violation(rule, cons, f"`if {ast.unparse(t)}`: corrections above the cutoffs are neither reported nor refused (the failing test sits inside this branch)", f"{init.path}:{t.lineno}")


# ---------------------------------------------------------------- C16 / C03

def distinct_qubits_polarity(ctx, rep, rule):
    ix = ctx.ix
    ms = _method(ix, "jaqalpaq.emulator.unitary.UnitarySerializedEmulator", "_make_subcircuit")
    rep.rule(rule, "the emulator refuses a gate when its resolved qubit positions are NOT all distinct (len(set(..)) differs from / is below len(..))", floor=1)
    cons = construct_of(ms, "distinct-qubits-sense")
    hit = False
    for r in ast.walk(ms.node):
        if not isinstance(r, ast.Raise):
            continue
        for t, taken in _enclosing_ifs(ms.node, r):
            src = ast.unparse(t)
            if "set(" not in src or "len(" not in src:
                continue
            hit = True
            e, neg = _fold_not(t)
            dup = None
            if isinstance(e, ast.Compare) and len(e.ops) == 1:
                op = e.ops[0]
                lset = "set(" in ast.unparse(e.left)
                rset = "set(" in ast.unparse(e.comparators[0])
                if isinstance(op, ast.NotEq):
                    dup = True
                elif isinstance(op, ast.Eq):
                    dup = False
                elif lset != rset and isinstance(op, (ast.Lt, ast.Gt)):
                    dup = isinstance(op, ast.Lt) == lset
                elif lset != rset and isinstance(op, (ast.LtE, ast.GtE)):
                    # len(set) >= len  <=>  distinct
                    dup = not (isinstance(op, ast.GtE) == lset)
            if dup is None:
                rep.undecided(rule, cons, f"`if {src}`", f"{ms.path}:{t.lineno}")
            elif (dup != neg) == taken:
                rep.ok(rule, cons, f"raises under `{src}`", f"{ms.path}:{t.lineno}")
            else:
                rep.violation(rule, cons, f"`if {src}` raises for gates whose qubits ARE distinct -- every two-qubit gate is refused -- and lets `Sxx r[0] r[0]` through to the index arithmetic", f"{ms.path}:{t.lineno}", witness="Sxx r[0] r[1]")
    if not hit:
        rep.undecided(rule, cons, "no test of the positions (see the rule on distinct qubits)", ms.loc())


def memo_default_polarity(ctx, rep, rule):
    ix = ctx.ix
    f = _func(ix, "jaqalpaq.core.circuitbuilder.contains_subcircuit")
    rep.rule(rule, "contains_subcircuit starts a fresh memo only when NONE was handed in: recursive calls and the builder share one", floor=1)
    cons = construct_of(f, "memo-default")
    hit = False
    for st in ast.walk(f.node):
        if isinstance(st, ast.If):
            for p_ in f.all_params:
                s = _none_test_name(st.test, p_)
                if s is None:
                    continue
                fresh = [a for a in st.body if isinstance(a, ast.Assign) and any(isinstance(t, ast.Name) and t.id == p_ for t in a.targets)]
                fresh_else = [a for a in st.orelse if isinstance(a, ast.Assign) and any(isinstance(t, ast.Name) and t.id == p_ for t in a.targets)]
                if not fresh and not fresh_else:
                    continue
                hit = True
                if (fresh and s is False) or (fresh_else and s is True):
                    rep.ok(rule, cons, f"`if {ast.unparse(st.test)}` makes the fresh memo", f"{f.path}:{st.lineno}")
                else:
                    rep.violation(rule, cons, f"`if {ast.unparse(st.test)}: {p_} = ...` throws away the memo that was handed in, at every level of the recursion: the answers are never reused (time 2**i for `macro m{{i}} {{ m{{i-1}}; m{{i-1}} }}`), and a call without a memo fails (TypeError)", f"{f.path}:{st.lineno}")
    if not hit:
        rep.undecided(rule, cons, "no default for the memo", f.loc())


# ---------------------------------------------------------------- C14

def resolve_qubit_range_guard(ctx, rep, rule):
    ix = ctx.ix
    rq = _method(ix, "jaqalpaq.core.register.Register", "resolve_qubit")
    rep.rule(rule, "Register.resolve_qubit compares the index with the size when the size IS known (`size is not None and idx >= size`)", floor=1)
    cons = construct_of(rq, "upper-bound-guard")
    hit = False
    for st in iter_stmts(rq.body):
        if isinstance(st, ast.If) and any(isinstance(r, ast.Raise) for r in st.body) and "size" in ast.unparse(st.test):
            for b in ast.walk(st.test):
                if isinstance(b, ast.BoolOp) and isinstance(b.op, ast.And):
                    senses = [_none_test_name(v, "size") for v in b.values]
                    if any(s is not None for s in senses):
                        hit = True
                        if any(s is True for s in senses):
                            rep.ok(rule, cons, f"`{ast.unparse(b)[:70]}`", f"{rq.path}:{st.lineno}")
                        else:
                            rep.violation(rule, cons, f"`{ast.unparse(b)[:80]}`: the upper bound is compared only when there is NO size (int(None): TypeError), so `r[5]` of a two-qubit register reached through a macro parameter resolves to a qubit that does not exist", f"{rq.path}:{st.lineno}", witness="register r[2]; macro f a { Px a[5] }; f r")
    if not hit:
        rep.ok(rule, cons, "the size is compared unconditionally", rq.loc())


def slice_bounds_defaulted(ctx, rep, rule):
    ix = ctx.ix
    rep.rule(rule, "wherever the register module copies a slice bound into a local it supplies the default for an absent (None) bound, in the same expression or by a later `if x is None`", floor=3)
    n = 0
    for f in ix.functions.values():
        if f.module != "jaqalpaq.core.register" or isinstance(f.node, ast.Lambda):
            continue
        for a in ast.walk(f.node):
            if not (isinstance(a, ast.Assign) and len(a.targets) == 1 and isinstance(a.targets[0], ast.Name) and a.targets[0].id in ("start", "stop", "step")):
                continue
            x = a.targets[0].id
            if not any(isinstance(v, ast.Attribute) and v.attr == x and "slice" in ast.unparse(v.value) for v in ast.walk(a.value)):
                continue
            n += 1
            cons = construct_of(f, f"bound:{x}")
            raw = isinstance(a.value, ast.Attribute)
            later = any(isinstance(st, (ast.If, ast.IfExp)) and _none_test_name(st.test, x) is not None for st in ast.walk(f.node))
            if not raw or later:
                rep.ok(rule, cons, f"`{ast.unparse(a)[:60]}`", f"{f.path}:{a.lineno}")
            else:
                rep.violation(rule, cons, f"`{ast.unparse(a)}` copies the bound as it is and nothing replaces None: `map a q[:2]` (no lower bound) fails with TypeError instead of starting at 0", f"{f.path}:{a.lineno}", witness="register q[4]; map a q[:2]")
    if n == 0:
        rep.undecided(rule, "core.register:slice-bounds", "no local copy of a slice bound")


# ---------------------------------------------------------------- C09

def subcircuit_builder_count(ctx, rep, rule):
    ix = ctx.ix
    init = ix.find_method("jaqalpaq.core.circuitbuilder.SubcircuitBlockBuilder", "__init__")
    rep.rule(rule, "SubcircuitBlockBuilder writes the count it is given, and the parser's empty marker only when there is none", floor=1)
    if init is None:
        rep.undecided(rule, "core.circuitbuilder:SubcircuitBlockBuilder.__init__", "not found")
        return
    cons = construct_of(init, "count")
    hit = False
    for e in ast.walk(init.node):
        if isinstance(e, ast.IfExp):
            for p_ in init.all_params:
                s = _none_test_name(e.test, p_)
                if s is None:
                    continue
                hit = True
                given, absent = (e.body, e.orelse) if s else (e.orelse, e.body)
                if isinstance(given, ast.Name) and given.id == p_ and not (isinstance(absent, ast.Name) and absent.id == p_):
                    rep.ok(rule, cons, f"`{ast.unparse(e)}`", f"{init.path}:{e.lineno}")
                else:
                    rep.violation(rule, cons, f"`{ast.unparse(e)}`: a given count is replaced by the empty marker (the subcircuit runs once, whatever was asked) and an absent one is written as None", f"{init.path}:{e.lineno}", witness="SubcircuitBlockBuilder(iterations=5)")
    if not hit:
        rep.undecided(rule, cons, "no conditional expression on the count", init.loc())


_add("C06", dependence_loop_polarity, "C06.20")
_add("C08", trace_walk_empty_return, "C08.20")
_add("C15", trace_walk_empty_return, "C15.17")
_add("C13", made_up_busy_condition, "C13.24")
_add("C13", relinker_passes_every_field, "C13.25")
_add("C01", reserved_words_consulted, "C01.17")
_add("C01", value_writer_polarity, "C01.18")
_add("C18", copy_applies_overrides, "C18.19")
_add("C15", cutoff_polarity, "C15.18")
_add("C16", distinct_qubits_polarity, "C16.30")
_add("C03", distinct_qubits_polarity, "C03.12")
_add("C16", memo_default_polarity, "C16.31")
_add("C14", resolve_qubit_range_guard, "C14.17")
_add("C14", slice_bounds_defaulted, "C14.18")
_add("C06", slice_bounds_defaulted, "C06.21")
_add("C09", subcircuit_builder_count, "C09.15")


# ---------------------------------------------------------------- C08 / C03

def _addr_call(st, attr):
    """`address.<attr>(..)` / `self.address.<attr>(..)` as a statement."""
    if isinstance(st, ast.Expr) and isinstance(st.value, ast.Call) and isinstance(st.value.func, ast.Attribute) and st.value.func.attr == attr:
        recv = st.value.func.value
        return (isinstance(recv, ast.Name) and recv.id == "address") or (isinstance(recv, ast.Attribute) and recv.attr == "address")
    return False


def trace_address_balance(ctx, rep, rule):
    from ..cfg import CFG
    ix = ctx.ix
    rep.rule(rule, "the address of the walk is a stack: in every function of core.algorithm that pushes onto `address`, each statement handed out (yield) and each pop is reached through exactly one push, a push reaches the normal exit only through a pop, the last component follows the statement counter (`n = address[-1] = ..`), and trace_statements leaves a block early exactly when the trace's start is NOT below the current address and marks the walk started exactly when the start IS reached", floor=2)
    seen = 0
    done = set()
    for f in ix.functions.values():
        if not f.module.startswith("jaqalpaq.core.algorithm.") or isinstance(f.node, ast.Lambda):
            continue
        stmts = list(iter_stmts(f.body))
        pushes = [st for st in stmts if _addr_call(st, "append")]
        pops = [st for st in stmts if _addr_call(st, "pop")]
        if not (pushes or pops) or id(f.node) in done:
            continue
        done.add(id(f.node))
        seen += 1
        if not pushes:
            rep.violation(rule, construct_of(f, "address-stack"), f"`{ast.unparse(pops[0])[:60]}`: the function pops the address but never pushes onto it: the component of the enclosing block is removed and every statement visited below is looked for at the wrong address; subcircuit discovery records wrong start/end addresses and the trace walk (emulation, readout assignment) follows them", f"{f.path}:{pops[0].lineno}")
            continue
        cfg = CFG(f.node.body)
        pn = [cfg.node(st) for st in pushes]
        qn = [cfg.node(st) for st in pops]
        cons = construct_of(f, "address-stack")
        bad = []
        yields = [st for st in stmts if isinstance(st, ast.Expr) and isinstance(st.value, (ast.Yield, ast.YieldFrom))]
        for y in yields:
            if not cfg.must_pass_nodes(cfg.node(y), pn):
                bad.append((y, "a statement is handed out before the address was extended for this block (its address is that of the enclosing block)"))
        for p_, node in zip(pops, qn):
            if not cfg.must_pass_nodes(node, pn):
                bad.append((p_, "a pop is reached without a push: the enclosing block's component is removed"))
        for p_, node in zip(pushes, pn):
            reach = cfg.reachable_from(node, removed_nodes=qn)
            if cfg.exit in reach:
                bad.append((p_, "the function returns after this push without a pop: every later address is one level too deep"))
            if any(o in reach for o in pn if o != node):
                bad.append((p_, "a second push is reached without a pop in between"))
        if not pops:
            bad.append((pushes[0], "nothing is ever popped"))
        for st, why in bad:
            rep.violation(rule, cons, f"`{ast.unparse(st)[:60]}`: {why}; subcircuit discovery records wrong start/end addresses and the trace walk (emulation, readout assignment) follows them", f"{f.path}:{st.lineno}")
        if not bad:
            rep.ok(rule, cons, f"{len(pushes)} push(es), {len(pops)} pop(s), {len(yields)} yield(s): balanced on every path", f.loc())
        # the last component follows the counter
        ctr = [a for a in stmts if isinstance(a, ast.Assign) and any(isinstance(t, ast.Subscript) and ast.unparse(t).endswith("address[-1]") for t in a.targets)]
        lone = [a for a in stmts if isinstance(a, ast.Assign) and any(isinstance(t, ast.Name) and t.id == "n" for t in a.targets) and a not in ctr]
        if yields:
            cons2 = construct_of(f, "address-counter")
            wrong = []
            for a in lone:
                # allowed when the value is pushed before anything is handed out
                if any(cfg.node(y) in cfg.reachable_from(cfg.node(a), removed_nodes=pn) for y in yields):
                    wrong.append((a, "the counter moves on without the address"))
            for a in ctr:
                if not any(isinstance(t, ast.Name) and t.id == "n" for t in a.targets):
                    wrong.append((a, "the address moves on without the counter"))
                elif isinstance(a.value, ast.BinOp) and not (isinstance(a.value.op, ast.Add) and isinstance(a.value.right, ast.Constant) and a.value.right.value == 1 and isinstance(a.value.left, ast.Name) and a.value.left.id == "n"):
                    wrong.append((a, "the step is not `n + 1`"))
            if not ctr:
                wrong.append((yields[0], "the last component of the address is never advanced"))
            for a, why in wrong:
                rep.violation(rule, cons2, f"`{ast.unparse(a)[:60]}`: {why} -- every statement of a block is recorded under the same address, or the loop does not advance", f"{f.path}:{a.lineno}")
            if not wrong:
                rep.ok(rule, cons2, f"{len(ctr)} joint updates of n and address[-1]", f.loc())
    ts = ix.find_method("jaqalpaq.core.algorithm.visitor.Visitor", "trace_statements")
    if ts is not None:
        cons = construct_of(ts, "start-tests")
        for st in iter_stmts(ts.body):
            if isinstance(st, ast.If) and "start" in _names(st.test) and "address" in _names(st.test):
                sense = _cmp_sense(st.test)
                sliced = any(isinstance(x, ast.Slice) for x in ast.walk(st.test))
                returns = any(isinstance(s, ast.Return) for s in st.body)
                marks = any(isinstance(s, ast.Assign) and "started" in ast.unparse(s.targets[0]) for s in st.body)
                if returns and sliced:
                    if sense == "ne":
                        rep.ok(rule, cons, f"`if {ast.unparse(st.test)}: return`", f"{ts.path}:{st.lineno}")
                    elif sense == "eq":
                        rep.violation(rule, cons, f"`if {ast.unparse(st.test)}: return` leaves exactly the blocks that contain the start of the trace: the emulator never reaches the subcircuit it was asked to run", f"{ts.path}:{st.lineno}")
                    else:
                        rep.undecided(rule, cons, f"`if {ast.unparse(st.test)}`", f"{ts.path}:{st.lineno}")
                elif marks:
                    if sense == "eq":
                        rep.ok(rule, cons, f"`if {ast.unparse(st.test)}: started`", f"{ts.path}:{st.lineno}")
                    elif sense == "ne":
                        rep.violation(rule, cons, f"`if {ast.unparse(st.test)}` marks the walk as started everywhere but at the start of the trace: gates before the prepare_all are emulated too", f"{ts.path}:{st.lineno}")
                    else:
                        rep.undecided(rule, cons, f"`if {ast.unparse(st.test)}`", f"{ts.path}:{st.lineno}")
        cons = construct_of(ts, "end-tests")
        for c in ast.walk(ts.node):
            if isinstance(c, ast.Compare) and "trace.end" in ast.unparse(c) and not any(isinstance(p_, ast.Assert) and any(x is c for x in ast.walk(p_)) for p_ in ast.walk(ts.node)):
                s_ = _above(c, "trace.end")
                if s_ is None:
                    rep.undecided(rule, cons, f"`{ast.unparse(c)}`", f"{ts.path}:{c.lineno}")
                elif s_ and _nots_above(ts.node, c) % 2 == 0:
                    rep.ok(rule, cons, f"`{ast.unparse(c)}`: past the end of the trace", f"{ts.path}:{c.lineno}")
                else:
                    rep.violation(rule, cons, f"`{ast.unparse(c)}` (as used) holds BEFORE the end of the trace: the walk of a block stops after its first statement, or treats every trace as one that wraps around a loop", f"{ts.path}:{c.lineno}")
    if seen == 0:
        rep.undecided(rule, "core.algorithm:address-stack", "no function pushes onto an address")


_add("C08", trace_address_balance, "C08.21")
_add("C03", trace_address_balance, "C03.13")


# ---------------------------------------------------------------- C03: shape of the sparse product

def _parents(root):
    par = {}
    for n in ast.walk(root):
        for c in ast.iter_child_nodes(n):
            par[id(c)] = n
    return par


def sparse_product_shape(ctx, rep, rule):
    """vec = U * inp, with U the gate's dense matrix embedded on the acted
    qubits.  The arithmetic is not evaluated; what is decided is that the
    pieces are wired the way any correct version of this loop nest needs."""
    ix = ctx.ix
    ms = _method(ix, "jaqalpaq.emulator.unitary.UnitarySerializedEmulator", "_make_subcircuit")
    rep.rule(rule, "shape of the emulator's sparse product `out[i] += in[j] * U[r, c]`: r is decoded from the OUTPUT index i and c is the sub-index from which the INPUT index j is encoded; both decodings walk the same qubit list in the same order with a bit that starts at 1 and is doubled once per qubit (outside the conditional); a qubit's bit is tested positively, cleared from the bystander mask and set with `1 << qubit`; j starts from the cleared mask; and before each gate the two buffers are exchanged and the output cleared", floor=5)
    par = _parents(ms.node)
    base = construct_of(ms, "product")
    acc = None
    for a in ast.walk(ms.node):
        if isinstance(a, ast.AugAssign) and isinstance(a.op, ast.Add) and isinstance(a.target, ast.Subscript) and isinstance(a.value, ast.BinOp) and isinstance(a.value.op, ast.Mult):
            l, r = a.value.left, a.value.right
            if isinstance(l, ast.Subscript) and isinstance(r, ast.Subscript) and (isinstance(l.slice, ast.Tuple) != isinstance(r.slice, ast.Tuple)):
                acc = a
    if acc is None:
        rep.undecided(rule, base, "no accumulation of the form out[i] += in[j] * U[r, c]", ms.loc())
        return
    l, r = acc.value.left, acc.value.right
    umat, inref = (l, r) if isinstance(l.slice, ast.Tuple) else (r, l)
    names_ok = all(isinstance(x, ast.Name) for x in (acc.target.value, acc.target.slice, inref.value, inref.slice, umat.value)) and len(umat.slice.elts) == 2 and all(isinstance(e, ast.Name) for e in umat.slice.elts)
    if not names_ok:
        rep.undecided(rule, base, f"`{ast.unparse(acc)}`: operands are not plain names", f"{ms.path}:{acc.lineno}")
        return
    outv, iname, inv, jname = acc.target.value.id, acc.target.slice.id, inref.value.id, inref.slice.id
    rname, cname = (e.id for e in umat.slice.elts)
    loc = lambda n: f"{ms.path}:{n.lineno}"
    # enclosing loops, innermost first
    fors = []
    n = acc
    while id(n) in par:
        n = par[id(n)]
        if isinstance(n, ast.For):
            fors.append(n)
    iloop = next((f for f in fors if isinstance(f.target, ast.Name) and f.target.id == iname), None)
    if iloop is None:
        rep.undecided(rule, base, f"no loop over the output index `{iname}`", loc(acc))
        return
    gloop = next((f for f in fors[fors.index(iloop) + 1:]), None)

    def ors(var, root):
        """[(AugAssign `var |= e`, guarding If or None)] below root"""
        out = []
        for a in ast.walk(root):
            if isinstance(a, ast.AugAssign) and isinstance(a.op, ast.BitOr) and isinstance(a.target, ast.Name) and a.target.id == var:
                p_ = par.get(id(a))
                out.append((a, p_ if isinstance(p_, ast.If) and a in p_.body else None))
        return out

    def inner_for(node):
        n = node
        while id(n) in par:
            n = par[id(n)]
            if isinstance(n, ast.For):
                return n
        return None

    # --- which sub-index is decoded from i, which one encodes j
    cons = construct_of(ms, "product:element")
    j_or = [x for x in ors(jname, iloop)]
    in_sub = None
    for a, g in j_or:
        if g is not None:
            t, neg = _fold_not(g.test)
            if isinstance(t, ast.BinOp) and isinstance(t.op, ast.BitAnd) and isinstance(t.left, ast.Name):
                in_sub = t.left.id
    cand_out = [v for v in (rname, cname) if v != in_sub and ors(v, iloop)]
    out_sub = cand_out[0] if len(cand_out) == 1 else None
    if in_sub is None or out_sub is None:
        rep.undecided(rule, cons, f"cannot tell which of `{rname}`, `{cname}` is decoded from `{iname}` and which encodes `{jname}`", loc(acc))
        return
    if (rname, cname) == (out_sub, in_sub):
        rep.ok(rule, cons, f"`{ast.unparse(acc)}`: row from the output index, column from the input index", loc(acc))
    elif (rname, cname) == (in_sub, out_sub):
        rep.violation(rule, cons, f"`{ast.unparse(acc)}` multiplies with the TRANSPOSED matrix: `{rname}` encodes the input index and `{cname}` is decoded from the output index; every gate whose matrix is not symmetric (Sy, Rz, CX read as target-control ...) acts as its transpose", loc(acc), witness="prepare_all; Py q[0]; measure_all")
    else:
        rep.undecided(rule, cons, f"`{ast.unparse(umat)}`", loc(acc))
    if outv == inv:
        rep.violation(rule, cons, f"`{ast.unparse(acc)}` reads and writes the same buffer", loc(acc))

    # --- the two decodings
    out_or = ors(out_sub, iloop)
    loops = []
    for what, lst in (("row", out_or), ("column", j_or)):
        for a, g in lst:
            lp = inner_for(a)
            if lp is not None and lp is not iloop and (a, g, lp, what) not in loops:
                loops.append((a, g, lp, what))
    cons = construct_of(ms, "product:decoding")
    if len(loops) != 2:
        rep.undecided(rule, cons, f"{len(loops)} decoding loops recognised (expected one for the row and one for the column)", loc(iloop))
        return
    iters = {ast.unparse(lp.iter) for _a, _g, lp, _w in loops}
    if len(iters) == 1:
        rep.ok(rule, cons, f"row and column are decoded over `{iters.pop()}`", loc(iloop))
    else:
        rep.violation(rule, cons, f"the row is decoded over one sequence and the column over another ({sorted(iters)}): for a gate on two or more qubits the two sides disagree about which qubit is which (CX becomes a permutation of CX)", loc(iloop), witness="prepare_all; Px q[1]; CX q[1] q[0]; measure_all")
    for a, g, lp, what in loops:
        k = lp.target.id if isinstance(lp.target, ast.Name) else None
        cons = construct_of(ms, f"product:{what}-bits")
        probs = []
        # the guard
        if g is None:
            probs.append((a, "is unconditional"))
            bitn = None
        else:
            t, neg = _fold_not(g.test)
            if neg:
                probs.append((g, f"`if {ast.unparse(g.test)}` is negated: the sub-index gets the complement of the qubits' bits"))
            bitn = None
            if what == "column" and isinstance(t, ast.BinOp) and isinstance(t.right, ast.Name):
                bitn = t.right.id
        if what == "row":
            # a |= bit under `if n_high`, n_high = mask & (1 << k), mask ^= n_high
            bitn = a.value.id if isinstance(a.value, ast.Name) else None
            hv = g.test if g is not None else None
            hv, _neg = _fold_not(hv) if hv is not None else (None, False)
            hdef = None
            if isinstance(hv, ast.Name):
                for d in lp.body:
                    if isinstance(d, ast.Assign) and isinstance(d.targets[0], ast.Name) and d.targets[0].id == hv.id:
                        hdef = d
            if hdef is None:
                probs.append((lp, "the tested value is not defined in the loop"))
            else:
                v = hdef.value
                shift = next((b for b in ast.walk(v) if isinstance(b, ast.BinOp) and isinstance(b.op, ast.LShift)), None)
                if not (isinstance(v, ast.BinOp) and isinstance(v.op, ast.BitAnd) and shift is not None):
                    probs.append((hdef, f"`{ast.unparse(hdef)}` is not `mask & (1 << qubit)`"))
                else:
                    if not (isinstance(shift.left, ast.Constant) and shift.left.value == 1 and isinstance(shift.right, ast.Name) and shift.right.id == k):
                        probs.append((hdef, f"`{ast.unparse(shift)}` is not `1 << {k}`"))
                    maskn = next((x.id for x in (v.left, v.right) if isinstance(x, ast.Name)), None)
                    clears = [c for c in lp.body if isinstance(c, ast.AugAssign) and isinstance(c.target, ast.Name) and c.target.id == maskn and isinstance(c.op, (ast.BitXor, ast.BitAnd, ast.Sub))]
                    if not clears:
                        probs.append((lp, f"the acted qubit's bit is never cleared from `{maskn}`: the input index keeps the output's bit whatever the column says"))
                    inits = [d for d in iloop.body if isinstance(d, ast.Assign) and isinstance(d.targets[0], ast.Name) and d.targets[0].id == maskn]
                    if not (inits and isinstance(inits[0].value, ast.Name) and inits[0].value.id == iname):
                        probs.append((iloop, f"`{maskn}` does not start as the output index `{iname}`"))
                    # j starts from the cleared mask
                    jinit = [d for d in ast.walk(iloop) if isinstance(d, ast.Assign) and isinstance(d.targets[0], ast.Name) and d.targets[0].id == jname]
                    if not (jinit and all(isinstance(d.value, ast.Name) and d.value.id == maskn for d in jinit)):
                        probs.append((jinit[0] if jinit else iloop, f"`{jname}` does not start from the bystander mask `{maskn}`"))
        else:
            v = a.value
            if not (isinstance(v, ast.BinOp) and isinstance(v.op, ast.LShift) and isinstance(v.left, ast.Constant) and v.left.value == 1 and isinstance(v.right, ast.Name) and v.right.id == k):
                probs.append((a, f"`{ast.unparse(a)}` does not set `1 << {k}`"))
        # the running bit
        if bitn is None:
            probs.append((lp, "no running bit recognised"))
        else:
            holder = par.get(id(lp))
            body = getattr(holder, "body", [])
            before = [d for d in body[:body.index(lp)] if isinstance(d, ast.Assign) and isinstance(d.targets[0], ast.Name) and d.targets[0].id == bitn] if lp in body else []
            if not before:
                probs.append((lp, f"`{bitn}` is not reset before the loop"))
            elif not (isinstance(before[-1].value, ast.Constant) and before[-1].value.value == 1):
                probs.append((before[-1], f"`{ast.unparse(before[-1])}`: the running bit does not start at 1"))
            steps = [d for d in lp.body if isinstance(d, ast.AugAssign) and isinstance(d.target, ast.Name) and d.target.id == bitn]
            if len(steps) != 1:
                probs.append((lp, f"`{bitn}` is not advanced exactly once per qubit, outside the conditional"))
            elif not ((isinstance(steps[0].op, ast.LShift) and isinstance(steps[0].value, ast.Constant) and steps[0].value.value == 1) or (isinstance(steps[0].op, ast.Mult) and isinstance(steps[0].value, ast.Constant) and steps[0].value.value == 2)):
                probs.append((steps[0], f"`{ast.unparse(steps[0])}` does not double the running bit"))
        for node, why in probs:
            rep.violation(rule, cons, f"{why} -- the {what} handed to the gate's matrix is not the acted qubits' bits of the index, so the emulated state is not U applied to the previous one", loc(node))
        if not probs:
            rep.ok(rule, cons, f"bits of `{ast.unparse(lp.iter)}` -> `{out_sub if what == 'row' else in_sub}`", loc(lp))
    # --- buffers
    cons = construct_of(ms, "product:buffers")
    if gloop is None:
        rep.undecided(rule, cons, "no loop over the gates around the product", loc(iloop))
        return
    pre = []
    for d in gloop.body:
        if d is iloop or any(x is iloop for x in ast.walk(d)):
            break
        pre.append(d)
    swap = [d for d in pre if isinstance(d, ast.Assign) and isinstance(d.targets[0], ast.Tuple) and isinstance(d.value, ast.Tuple) and [ast.unparse(e) for e in d.targets[0].elts] == [ast.unparse(e) for e in reversed(d.value.elts)] and {ast.unparse(e) for e in d.value.elts} == {outv, inv}]
    clear = [d for d in pre if isinstance(d, ast.Assign) and isinstance(d.targets[0], ast.Subscript) and isinstance(d.targets[0].value, ast.Name) and d.targets[0].value.id == outv and isinstance(d.targets[0].slice, ast.Slice) and isinstance(d.value, ast.Constant) and d.value.value == 0]
    if swap and clear and pre.index(swap[-1]) < pre.index(clear[-1]):
        rep.ok(rule, cons, f"`{ast.unparse(swap[-1])}` then `{ast.unparse(clear[-1])}` before every gate", loc(swap[-1]))
    elif not swap:
        rep.violation(rule, cons, f"the buffers `{outv}` and `{inv}` are not exchanged before a gate is applied: every gate acts on the state before the previous gate (or on uninitialised memory)", loc(gloop))
    else:
        rep.violation(rule, cons, f"`{outv}` is not cleared after the exchange: the amplitudes of the state two gates back are added to the result", loc(gloop))


_add("C03", sparse_product_shape, "C03.14")


# ---------------------------------------------------------------- C14: kind guards of symbolic components

# components that the two constructors accept as AnnotatedValue (their own
# isinstance(.., (Integral, AnnotatedValue)) / (Register, AnnotatedValue) tests)
KIND_GUARDED = {
    "jaqalpaq.core.register.Register": ["size", "alias_slice.start", "alias_slice.stop", "alias_slice.step", "alias_from"],
    "jaqalpaq.core.register.NamedQubit": ["alias_index", "alias_from"],
}


def kind_guards_own_component(ctx, rep, rule):
    ix = ctx.ix
    rep.rule(rule, "in the constructors of Register and NamedQubit, a guard `isinstance(X, AnnotatedValue) and X.kind not in (..)` that refuses a symbolic size, bound, index or source of the wrong kind reads the kind of X itself, refuses under `not in`, and allows INT (REGISTER for a source) besides NONE", floor=6)
    n = 0
    for cls in ("jaqalpaq.core.register.Register", "jaqalpaq.core.register.NamedQubit"):
        init = ix.find_method(cls, "__init__")
        if init is None:
            continue
        for b in ast.walk(init.node):
            if not (isinstance(b, (ast.If,)) ):
                continue
            tests = []
            t = b.test
            if isinstance(t, ast.BoolOp) and isinstance(t.op, ast.And):
                inst = [v for v in t.values if isinstance(v, ast.Call) and isinstance(v.func, ast.Name) and v.func.id == "isinstance" and len(v.args) == 2 and "AnnotatedValue" in ast.unparse(v.args[1]) and not isinstance(v.args[1], ast.Tuple)]
                kinds = [v for v in t.values if isinstance(v, ast.Compare) and isinstance(v.left, ast.Attribute) and v.left.attr == "kind" and isinstance(v.ops[0], (ast.In, ast.NotIn))]
                if inst and kinds:
                    tests.append((inst[0].args[0], kinds[0], b))
            elif isinstance(t, ast.Compare) and isinstance(t.left, ast.Attribute) and t.left.attr == "kind" and isinstance(t.ops[0], (ast.In, ast.NotIn)):
                # nested form: `if isinstance(X, AnnotatedValue): if X.kind not in ..`
                for et, taken in _enclosing_ifs(init.node, b):
                    if taken and isinstance(et, ast.Call) and isinstance(et.func, ast.Name) and et.func.id == "isinstance" and "AnnotatedValue" in ast.unparse(et.args[1]) and not isinstance(et.args[1], ast.Tuple):
                        tests.append((et.args[0], t, b))
            for subj, kc, st in tests:
                if not any(isinstance(r, ast.Raise) for r in st.body):
                    continue
                n += 1
                comp = ast.unparse(subj)
                cons = construct_of(init, f"kind-guard:{comp}")
                read = ast.unparse(kc.left.value)
                allowed = ast.unparse(kc.comparators[0])
                want = "REGISTER" if comp.endswith("alias_from") else "INT"
                if read != comp:
                    rep.violation(rule, cons, f"`{ast.unparse(st.test)[:100]}` tests whether `{comp}` is symbolic and then reads the kind of `{read}`: a float parameter as this component is accepted when the other one is an integer parameter (and AttributeError when the other one is a literal)", f"{init.path}:{st.lineno}")
                elif not isinstance(kc.ops[0], ast.NotIn):
                    rep.violation(rule, cons, f"`{ast.unparse(kc)[:90]}` refuses the parameters of the RIGHT kind and accepts the others", f"{init.path}:{st.lineno}")
                elif not (isinstance(kc.comparators[0], (ast.Tuple, ast.List, ast.Set)) and {e.attr if isinstance(e, ast.Attribute) else ast.unparse(e) for e in kc.comparators[0].elts} == {want, "NONE"}):
                    rep.violation(rule, cons, f"`{ast.unparse(kc)[:90]}`: the allowed kinds for `{comp}` are not {want} and NONE", f"{init.path}:{st.lineno}")
                else:
                    rep.ok(rule, cons, f"`{comp}.kind not in {allowed}` raises", f"{init.path}:{st.lineno}")
        # every component that the constructor accepts in symbolic form has a guard
        have = {o.construct.rsplit("kind-guard:", 1)[1] for o in rep.obligations if o.rule == rule and "kind-guard:" in o.construct and init.name in o.construct and cls.rsplit(".", 1)[1] in o.construct}
        for comp in KIND_GUARDED[cls]:
            if comp not in have:
                rep.violation(rule, construct_of(init, f"kind-guard:{comp}"), f"no guard on the kind of a symbolic `{comp}`: a macro parameter declared as a qubit or a float is accepted as {comp} of a {cls.rsplit('.', 1)[1]} and fails (or is silently truncated) when the macro is expanded", init.loc())
    if n == 0:
        rep.undecided(rule, "core.register:kind-guards", "no kind guard recognised")


_add("C14", kind_guards_own_component, "C14.19")


# ---------------------------------------------------------------- seed round 9

def superseded_count_is_snapshot(ctx, rep, rule):
    ix = ctx.ix
    DS = "jaqalpaq.core.algorithm.walkers.DiscoverSubcircuits"
    vb = _method(ix, DS, "visit_BlockStatement")
    vg = _method(ix, DS, "visit_GateStatement")
    rep.rule(rule, "the refusal `gates went into the entry trace before it was superseded` compares the trace's gate count with its value AT ENTRY of the body (a local read from the same field before the statements are visited), not with a constant: gates that precede the body are not the body's", floor=1)
    cons = construct_of(vb, "superseded-count-snapshot")
    counted = [a for a in ast.walk(vg.node) if isinstance(a, ast.AugAssign) and isinstance(a.target, ast.Attribute) and isinstance(a.op, ast.Add)]
    field = counted[0].target.attr if counted else None
    if field is None:
        rep.undecided(rule, cons, "no gate counter (see the rule on superseded traces)", vb.loc())
        return
    loops = [n for n in iter_stmts(vb.body) if isinstance(n, ast.For)]
    first_loop = min((l.lineno for l in loops), default=10**9)
    hit = False
    for r in ast.walk(vb.node):
        if not isinstance(r, ast.Raise):
            continue
        for t, taken in _enclosing_ifs(vb.node, r):
            for c in ast.walk(t):
                if isinstance(c, ast.Compare) and len(c.ops) == 1 and any(isinstance(x, ast.Attribute) and x.attr == field for x in ast.walk(c)):
                    hit = True
                    sides = [c.left, c.comparators[0]]
                    other = [s for s in sides if not any(isinstance(x, ast.Attribute) and x.attr == field for x in ast.walk(s))]
                    snap = False
                    for s in other:
                        if isinstance(s, ast.Name):
                            for st in iter_stmts(vb.body):
                                if isinstance(st, ast.Assign) and st.lineno < first_loop and any(isinstance(tg, ast.Name) and tg.id == s.id for tg in st.targets) and any(isinstance(x, ast.Attribute) and x.attr == field for x in ast.walk(st.value)):
                                    snap = True
                    if snap and isinstance(c.ops[0], (ast.NotEq, ast.Gt)):
                        rep.ok(rule, cons, f"`{ast.unparse(c)}`", f"{vb.path}:{c.lineno}")
                    elif not other or any(isinstance(s, ast.Constant) for s in other):
                        rep.violation(rule, cons, f"`{ast.unparse(c)}` counts every gate of the entry trace, also those written BEFORE the body: `prepare_all; Px q[0]; loop 3 {{ prepare_all; measure_all }}` (the first prepare_all and its gate are superseded, nothing follows a measure_all) is refused although each pass yields its readout", f"{vb.path}:{c.lineno}", witness="prepare_all; Px q[0]; loop 3 { prepare_all; Px q[0]; measure_all }")
                    elif snap:
                        rep.violation(rule, cons, f"`{ast.unparse(c)}` does not ask whether the count CHANGED in the body", f"{vb.path}:{c.lineno}")
                    else:
                        rep.undecided(rule, cons, f"`{ast.unparse(c)}`", f"{vb.path}:{c.lineno}")
    if not hit:
        rep.undecided(rule, cons, "no refusal reads the gate count", vb.loc())


def parallel_refusal_order_free(ctx, rep, rule):
    ix = ctx.ix
    vb = _method(ix, "jaqalpaq.core.algorithm.walkers.DiscoverSubcircuits", "visit_BlockStatement")
    rep.rule(rule, "the refusal of a parallel branch that changes the subcircuit state does not look at the branch's position: no enclosing test reads the loop variables, so the first branch is treated like the others", floor=1)
    cons = construct_of(vb, "parallel-branches-position")
    hit = False
    for lp in ast.walk(vb.node):
        if not isinstance(lp, ast.For):
            continue
        targets = {n.id for n in ast.walk(lp.target) if isinstance(n, ast.Name)}
        for r in ast.walk(lp):
            if isinstance(r, ast.Raise):
                tests = [t for t, taken in _enclosing_ifs(vb.node, r)]
                if not any("parallel" in ast.unparse(t) for t in tests):
                    continue
                hit = True
                used = sorted({n.id for t in tests for n in ast.walk(t) if isinstance(n, ast.Name)} & targets)
                if used:
                    rep.violation(rule, cons, f"the refusal depends on the loop variable(s) {used}: `< prepare_all | I_Px q[0] >` is accepted while `< I_Px q[0] | prepare_all >` is refused -- acceptance depends on the order in which simultaneous branches are written", f"{vb.path}:{r.lineno}", witness="< prepare_all | I_Px q[0] >  vs  < I_Px q[0] | prepare_all >")
                else:
                    rep.ok(rule, cons, "no test above the refusal reads the loop variables", f"{vb.path}:{r.lineno}")
    if not hit:
        rep.undecided(rule, cons, "no refusal under a test of `parallel` inside the loop (see the rule on parallel branches)", vb.loc())


def splice_kind_is_conjunct(ctx, rep, rule):
    ix = ctx.ix
    rep.rule(rule, "in macro expansion a block returned for a statement is spliced into its parent only under a test of which `child.parallel == parent.parallel` and `not child.subcircuit` are plain conjuncts (no alternative lets a block of the other kind dissolve)", floor=2)
    for q in ("jaqalpaq.core.algorithm.expand_macros.MacroExpander", "jaqalpaq.core.algorithm.expand_macros.GateReplacer"):
        m = _method(ix, q, "visit_BlockStatement")
        cons = construct_of(m, "splice-conjuncts")
        found = False
        for st in ast.walk(m.node):
            if isinstance(st, ast.If) and any(isinstance(c, ast.Call) and isinstance(c.func, ast.Attribute) and c.func.attr == "extend" for b in st.body for c in ast.walk(b)):
                found = True
                same_kind = lambda e: isinstance(e, ast.Compare) and len(e.ops) == 1 and isinstance(e.ops[0], ast.Eq) and isinstance(e.left, ast.Attribute) and isinstance(e.comparators[0], ast.Attribute) and e.left.attr == e.comparators[0].attr == "parallel"
                not_sub = lambda e: isinstance(e, ast.UnaryOp) and isinstance(e.op, ast.Not) and isinstance(e.operand, ast.Attribute) and e.operand.attr == "subcircuit"
                a, b = _positive_conjunct(st.test, same_kind), _positive_conjunct(st.test, not_sub)
                if a and b:
                    rep.ok(rule, cons, "same kind and not a subcircuit, both required", f"{m.path}:{st.lineno}")
                elif "parallel" not in ast.unparse(st.test) or "subcircuit" not in ast.unparse(st.test):
                    rep.undecided(rule, cons, f"`{ast.unparse(st.test)[:80]}` (see the rules on the splice guard)", f"{m.path}:{st.lineno}")
                else:
                    rep.violation(rule, cons, f"`{ast.unparse(st.test)[:110]}`: {'the kind test' if not a else 'the subcircuit test'} is only one alternative of the splice condition, so some block of the other kind is dissolved into its parent -- a parallel block that stands alone in a sequential macro body becomes sequential (its overlap is no longer refused) or a sequential one becomes parallel", f"{m.path}:{st.lineno}", witness="macro pair x y { < Px x | Rz y 0.5 > }; pair r[0] r[0]")
        if not found:
            rep.undecided(rule, cons, "no splice", m.loc())


def unchanged_by_identity(ctx, rep, rule):
    ix = ctx.ix
    rep.rule(rule, "a rebuilding visitor never decides that a node is unchanged by comparing a visited child with the original by `==`: statement equality ignores definitions, so a child whose calls were relinked equals the old one", floor=0)
    n = 0
    for q, cls in ix.classes.items():
        if not (q.startswith("jaqalpaq.core.algorithm.") or q.startswith("jaqalpaq.core.circuitbuilder.")):
            continue
        for mn, m in cls.methods.items():
            if not mn.startswith("visit_") or len(m.params) < 2:
                continue
            node = m.params[1]
            visited = set()
            for a in ast.walk(m.node):
                if isinstance(a, ast.Assign) and any(isinstance(c, ast.Call) and isinstance(c.func, ast.Attribute) and c.func.attr == "visit" for c in ast.walk(a.value)):
                    for t in a.targets:
                        for x in ast.walk(t):
                            if isinstance(x, ast.Name):
                                visited.add(x.id)
            for c in ast.walk(m.node):
                if isinstance(c, ast.Compare) and len(c.ops) == 1 and isinstance(c.ops[0], (ast.Eq, ast.NotEq)):
                    sides = [c.left, c.comparators[0]]
                    raw = [s for s in sides if any(isinstance(x, ast.Name) and x.id == node for x in ast.walk(s)) and isinstance(s, (ast.Attribute, ast.Name))]
                    new = [s for s in sides if (isinstance(s, ast.Name) and s.id in visited) or any(isinstance(x, ast.Call) and isinstance(x.func, ast.Attribute) and x.func.attr == "visit" for x in ast.walk(s))]
                    if raw and new and raw[0] is not new[0]:
                        n += 1
                        rep.violation(rule, construct_of(m, "unchanged-test"), f"`{ast.unparse(c)}` decides by structural equality whether `{node}` changed: a body in which only the definitions behind the calls were replaced equals the old one, so the old node -- still linked to the unexpanded macros -- is kept (a subcircuit block survives behind a call, or the analysis follows a stale body)", f"{m.path}:{c.lineno}", witness="macro inner a { subcircuit { Px a } }; macro outer a { inner a }; outer q[0]")
    if n == 0:
        rep.ok(rule, "core:rebuilding-visitors:unchanged-test", "no visitor compares a visited child with the original by ==")


_add("C08", superseded_count_is_snapshot, "C08.22")
_add("C12", superseded_count_is_snapshot, "C12.10")
_add("C13", parallel_refusal_order_free, "C13.26")
_add("C04", splice_kind_is_conjunct, "C04.14")
_add("C13", splice_kind_is_conjunct, "C13.27")
_add("C09", unchanged_by_identity, "C09.16")
_add("C13", unchanged_by_identity, "C13.28")


# ---------------------------------------------------------------- C16: every import after an eviction is rolled back

def imports_after_eviction_guarded(ctx, rep, rule):
    from ..cfg import CFG
    ix = ctx.ix
    f = _func(ix, "jaqalpaq._import.jaqal_import")
    rep.rule(rule, "in jaqal_import every call that can fail while importing (import_module, reload, the relative loader) and is reachable from the eviction of the old module sits in a try whose re-raising handler puts the evicted entries back: the second stage (the jaqal_gates submodule) like the first", floor=2)
    cfg = CFG(f.node.body)
    stmts = list(iter_stmts(f.body))
    is_sm = lambda e: isinstance(e, ast.Attribute) and e.attr == "modules" and isinstance(e.value, ast.Name) and e.value.id == "sys"
    ev_stmts = [st for st in stmts if not isinstance(st, (ast.If, ast.For, ast.While, ast.Try, ast.With)) and any(isinstance(c, ast.Call) and isinstance(c.func, ast.Attribute) and c.func.attr == "pop" and is_sm(c.func.value) for c in ast.walk(st))]
    if not ev_stmts:
        rep.ok(rule, construct_of(f, "after-eviction"), "nothing is evicted", f.loc())
        return
    reach = set()
    for st in ev_stmts:
        n = cfg.node(st)
        if n is not None:
            reach |= cfg.reachable_from(n)
    tries = [t for t in ast.walk(f.node) if isinstance(t, ast.Try)]

    def restoring(t):
        for h in t.handlers:
            reraises = any(isinstance(x, ast.Raise) and x.exc is None for b in h.body for x in ast.walk(b))
            puts = any(isinstance(c, ast.Call) and isinstance(c.func, ast.Attribute) and c.func.attr in ("update", "setdefault") and is_sm(c.func.value) and "evicted" in ast.unparse(h) for b in h.body for c in ast.walk(b))
            broad = h.type is None or ast.unparse(h.type) in ("BaseException", "Exception")
            if reraises and puts and broad:
                return True
        return False
    n = 0
    for st in stmts:
        if isinstance(st, (ast.If, ast.For, ast.While, ast.Try, ast.With)):
            continue
        for c in ast.walk(st):
            if not isinstance(c, ast.Call):
                continue
            name = ast.unparse(c.func)
            if not (name in ("importlib.import_module", "importlib.reload", "import_module", "reload") or name.startswith("_jaqal_import")):
                continue
            node = cfg.node(st)
            if node is None or node not in reach:
                continue
            n += 1
            cons = construct_of(f, f"after-eviction:{name}")
            guarded = any(restoring(t) and any(x is c for b in t.body for x in ast.walk(b)) for t in tries)
            if guarded:
                rep.ok(rule, cons, f"`{ast.unparse(c)[:50]}` fails into a handler that restores the evicted modules", f"{f.path}:{c.lineno}")
            else:
                rep.violation(rule, cons, f"`{ast.unparse(c)[:60]}` can raise after the old module was evicted, and no handler puts it back: `from .mod usepulses *` against a directory whose `mod` has no jaqal_gates fails and leaves the process with the new, useless `mod` in place of the one that worked (the same text, or `from mod usepulses *`, behaves differently afterwards)", f"{f.path}:{c.lineno}", witness="from .mod usepulses *  (import_path A: ok; import_path B where mod lacks jaqal_gates: fails; A's module is gone)")
    if n == 0:
        rep.undecided(rule, construct_of(f, "after-eviction"), "no import call is reachable from the eviction", f.loc())


_add("C16", imports_after_eviction_guarded, "C16.32")
