"""Clauses added after the third mutation sweep: one-token changes that the
repository's suite does not kill and that no rule reported.  Each function
decides a structural necessary condition; rule ids are assigned in EXTRA."""

from __future__ import annotations

import ast

from ..index import AnalysisError
from ..cfg import iter_stmts, walk_no_nested
from .common import construct_of, cls_construct
from .wave3 import _func, _method, _enclosing_ifs, _local_defs, _names

VISITOR = "jaqalpaq.core.algorithm.visitor.Visitor"
CHILD_FIELDS = {"statements", "body", "cases"}

# (class, handler) -> reason: raw children that are results by design
RAW_CHILD_EXEMPT = {
    ("UnrollIterator", "visit_BlockStatement"): "flattens one level of a block whose statements were normalised (visited) before: the elements are the results",
}


def _raw_child_uses(fi):
    """Places in a visitor handler where a child of the visited node is used
    as a result without going through self.visit (or another method of the
    visitor)."""
    node = fi.node
    if len(fi.params) < 2:
        return []
    selfn, p = fi.params[0], fi.params[1]
    child_names = set()

    def is_child(e):
        if isinstance(e, ast.Attribute) and e.attr in CHILD_FIELDS and isinstance(e.value, ast.Name) and e.value.id == p:
            return True
        if isinstance(e, ast.Name) and e.id in child_names:
            return True
        if isinstance(e, ast.Subscript) and is_child(e.value):
            return True
        if isinstance(e, ast.Starred):
            return is_child(e.value)
        return False

    def bind(target, it):
        if isinstance(it, ast.Call) and it.args and ((isinstance(it.func, ast.Attribute) and it.func.attr == "trace_statements") or (isinstance(it.func, ast.Name) and it.func.id == "enumerate")):
            if is_child(it.args[0]) and isinstance(target, ast.Tuple) and len(target.elts) == 2 and isinstance(target.elts[1], ast.Name):
                child_names.add(target.elts[1].id)
            return
        if is_child(it) and isinstance(target, ast.Name):
            child_names.add(target.id)

    while True:
        n0 = len(child_names)
        for n in ast.walk(node):
            if isinstance(n, ast.For):
                bind(n.target, n.iter)
            elif isinstance(n, ast.comprehension):
                bind(n.target, n.iter)
            elif isinstance(n, ast.Assign) and len(n.targets) == 1 and isinstance(n.targets[0], ast.Name) and is_child(n.value):
                child_names.add(n.targets[0].id)
        if len(child_names) == n0:
            break
    out = []
    for n in ast.walk(node):
        if isinstance(n, ast.Return) and n.value is not None and is_child(n.value):
            out.append((n, "is returned"))
        elif isinstance(n, (ast.Yield, ast.YieldFrom)) and n.value is not None and is_child(n.value):
            out.append((n, "is yielded"))
        elif isinstance(n, ast.Expr) and is_child(n.value):
            out.append((n, "stands alone as a statement (a visit that was lost)"))
        elif isinstance(n, (ast.List, ast.Tuple, ast.Set)) and isinstance(getattr(n, "ctx", ast.Load()), ast.Load):
            for e in n.elts:
                if is_child(e):
                    out.append((e, "is an element of the built result"))
        elif isinstance(n, (ast.ListComp, ast.GeneratorExp, ast.SetComp)) and is_child(n.elt):
            out.append((n.elt, "is the element of the built sequence"))
        elif isinstance(n, ast.Call):
            f = n.func
            recv_self = isinstance(f, ast.Attribute) and isinstance(f.value, ast.Name) and f.value.id == selfn
            is_super = isinstance(f, ast.Attribute) and isinstance(f.value, ast.Call) and isinstance(f.value.func, ast.Name) and f.value.func.id == "super"
            if (recv_self and f.attr != "merge_into") or is_super:
                continue
            if isinstance(f, ast.Name) and f.id in ("len", "enumerate", "iter", "list", "tuple", "reversed", "zip", "isinstance", "range", "any", "all", "bool"):
                continue
            if any(isinstance(a, ast.Name) and a.id == selfn for a in n.args):
                continue  # a helper that is handed the visitor
            for a in list(n.args) + [k.value for k in n.keywords]:
                if is_child(a):
                    out.append((a, f"is passed to {ast.unparse(f)}"))
    return out


def raw_children(ctx, rep, rule, modules, why):
    """Per occurrence (not `somewhere in the visitor`): every use of a child
    container of the visited node as part of the handler's result goes
    through self.visit."""
    ix = ctx.ix
    if VISITOR not in ix.classes:
        raise AnalysisError("anchor vanished: Visitor")
    rep.rule(rule, "in every handler of the visitors of " + ", ".join(m.split(".")[-1] for m in modules) + " a child of the visited node (statements, body, cases, or an element of them) enters the result only through self.visit: " + why, floor=3)
    n = 0
    for k in ix.subclasses(VISITOR):
        ci = ix.classes[k]
        if ci.module not in modules:
            continue
        for name, fi in ci.methods.items():
            if not name.startswith("visit_") or name == "visit_default":
                continue
            uses = _raw_child_uses(fi)
            has_children = any(isinstance(x, ast.Attribute) and x.attr in CHILD_FIELDS and isinstance(x.value, ast.Name) and len(fi.params) > 1 and x.value.id == fi.params[1] for x in ast.walk(fi.node))
            if not has_children:
                continue
            n += 1
            cons = construct_of(fi, "children")
            ex = RAW_CHILD_EXEMPT.get((ci.name, name))
            if uses and ex:
                rep.exempt(rule, cons, ex, fi.loc())
            elif uses:
                e, how = uses[0]
                rep.violation(rule, cons, f"`{ast.unparse(e)[:60]}` {how} without being visited: what the pass does (or the analysis counts) stops at this node -- statements below it are left as they were", f"{fi.path}:{e.lineno}")
            else:
                rep.ok(rule, cons, "children are used through self.visit only", fi.loc())
    if n < 3:
        raise AnalysisError(f"{rule}: only {n} handlers with children found in {modules}")


# ---------------------------------------------------------------- C03

def emulator_roles(ctx, rep, rule):
    ix = ctx.ix
    ms = _method(ix, "jaqalpaq.emulator.unitary.UnitarySerializedEmulator", "_make_subcircuit")
    rep.rule(rule, "in the unitary emulator the classical arguments (parameter.classical true) are the ones handed to ideal_unitary and every other argument contributes its resolved position (element 1 of resolve_qubit()) to the list the index arithmetic runs over; the state starts as basis vector 0", floor=3)
    # --- roles
    cons = construct_of(ms, "argument-roles")
    split = None
    for st in ast.walk(ms.node):
        if isinstance(st, ast.If) and any(isinstance(a, ast.Attribute) and a.attr == "classical" for a in ast.walk(st.test)):
            split = st
    if split is None:
        raise AnalysisError(f"{rule}: no `.classical` test in _make_subcircuit")
    t = split.test
    neg = False
    while isinstance(t, ast.UnaryOp) and isinstance(t.op, ast.Not):
        neg = not neg
        t = t.operand
    simple = isinstance(t, ast.Attribute) and t.attr == "classical"
    cls_branch, q_branch = (split.orelse, split.body) if neg else (split.body, split.orelse)

    def appended(stmts):
        return [(c.func.value.id, c.args[0]) for s in stmts for c in ast.walk(s) if isinstance(c, ast.Call) and isinstance(c.func, ast.Attribute) and c.func.attr == "append" and isinstance(c.func.value, ast.Name) and c.args]
    ca, qa = appended(cls_branch), appended(q_branch)
    splatted = {a.value.id for c in ast.walk(ms.node) if isinstance(c, ast.Call) and isinstance(c.func, ast.Attribute) and c.func.attr == "ideal_unitary" for a in c.args if isinstance(a, ast.Starred) and isinstance(a.value, ast.Name)}
    iterated = {n.iter.id for n in ast.walk(ms.node) if isinstance(n, ast.For) and isinstance(n.iter, ast.Name)}
    loc = f"{ms.path}:{split.lineno}"
    if not simple:
        rep.undecided(rule, cons, f"`{ast.unparse(split.test)}` is not a plain test of .classical", loc)
    elif not ca or not qa:
        rep.violation(rule, cons, ("the quantum" if ca else "the classical") + " arguments of a gate are not collected: " + ("every gate acts on no qubit (the state never changes)" if ca else "ideal_unitary is called without its angles"), loc)
    elif not ({l for l, _ in ca} & splatted) or ({l for l, _ in qa} & splatted):
        rep.violation(rule, cons, f"the list filled for classical parameters ({sorted({l for l, _ in ca})}) is not the one splatted into ideal_unitary ({sorted(splatted)}): qubits are passed as angles and angles resolved as qubits", loc)
    elif not ({l for l, _ in qa} & iterated):
        rep.violation(rule, cons, f"the list filled for quantum parameters ({sorted({l for l, _ in qa})}) is not the one the index arithmetic iterates over", loc)
    elif not any(isinstance(x, ast.Attribute) and x.attr == "resolve_qubit" for _, v in qa for x in ast.walk(v)):
        rep.violation(rule, cons, "the quantum branch does not resolve the qubit", loc)
    else:
        rep.ok(rule, cons, "classical -> ideal_unitary(*argv); others -> resolve_qubit() -> index arithmetic", loc)
    # --- which element of resolve_qubit()
    cons = construct_of(ms, "qubit-position")
    subs = [s for s in ast.walk(ms.node) if isinstance(s, ast.Subscript) and isinstance(s.value, ast.Call) and isinstance(s.value.func, ast.Attribute) and s.value.func.attr == "resolve_qubit"]
    for s in subs:
        if isinstance(s.slice, ast.Constant) and s.slice.value == 1:
            rep.ok(rule, cons, "element 1 (the index in the fundamental register)", f"{ms.path}:{s.lineno}")
        else:
            rep.violation(rule, cons, f"`{ast.unparse(s)}` is not the position: resolve_qubit() returns (register, index)", f"{ms.path}:{s.lineno}")
    # --- initial state
    cons = construct_of(ms, "initial-state")
    zeros = {t.id for st in iter_stmts(ms.body) if isinstance(st, ast.Assign) and isinstance(st.value, ast.Call) and ast.unparse(st.value.func).endswith("zeros") for t in st.targets if isinstance(t, ast.Name)}
    inits = [st for st in iter_stmts(ms.body) if isinstance(st, ast.Assign) and isinstance(st.targets[0], ast.Subscript) and isinstance(st.targets[0].value, ast.Name) and st.targets[0].value.id in zeros and isinstance(st.targets[0].slice, ast.Constant)]
    if not inits:
        rep.undecided(rule, cons, "initialisation of the state vector not recognised", ms.loc())
    for st in inits:
        ok = st.targets[0].slice.value == 0 and isinstance(st.value, ast.Constant) and st.value.value == 1
        if ok:
            rep.ok(rule, cons, "zeros with amplitude 1 at index 0", f"{ms.path}:{st.lineno}")
        else:
            rep.violation(rule, cons, f"`{ast.unparse(st)}`: the emulation does not start from |0..0> (index 0, amplitude 1)", f"{ms.path}:{st.lineno}")


def _none_test(e, attr):
    """True if e means `<..>.attr is not None`, False if it means `is None`,
    None if it is something else (negations are folded)."""
    neg = False
    while isinstance(e, ast.UnaryOp) and isinstance(e.op, ast.Not):
        neg = not neg
        e = e.operand
    if isinstance(e, ast.Compare) and len(e.ops) == 1 and isinstance(e.ops[0], (ast.Is, ast.IsNot, ast.Eq, ast.NotEq)) and isinstance(e.comparators[0], ast.Constant) and e.comparators[0].value is None and isinstance(e.left, ast.Attribute) and e.left.attr == attr:
        positive = isinstance(e.ops[0], (ast.IsNot, ast.NotEq))
        return positive != neg
    return None


def _cmp_sense(t):
    """('eq'|'ne'|None) for a comparison, folding `not`."""
    neg = False
    while isinstance(t, ast.UnaryOp) and isinstance(t.op, ast.Not):
        neg = not neg
        t = t.operand
    if isinstance(t, ast.Compare) and len(t.ops) == 1 and isinstance(t.ops[0], (ast.Eq, ast.NotEq)):
        eq = isinstance(t.ops[0], ast.Eq)
        return "eq" if eq != neg else "ne"
    return None


# ---------------------------------------------------------------- C08

def discovery_polarity(ctx, rep, rule):
    ix = ctx.ix
    DS = "jaqalpaq.core.algorithm.walkers.DiscoverSubcircuits"
    TV = "jaqalpaq.core.algorithm.walkers.TraceVisitor"
    vg = _method(ix, DS, "visit_GateStatement")
    vb = _method(ix, DS, "visit_BlockStatement")
    tb = _method(ix, TV, "visit_BlockStatement")
    tl = _method(ix, TV, "visit_LoopStatement")
    rep.rule(rule, "polarity of the tests that drive subcircuit discovery and the trace walk: a trace is opened on the prepare gate and closed on the measure gate (positive equality); `had started` means a trace is open; the walker leaves a block when its address is NOT a prefix of the objective and fires when the objective ends exactly one level below", floor=4)
    selfn = vg.params[0]
    # -- open / close
    cons = construct_of(vg, "open-close")
    opens = closes = None
    for st in ast.walk(vg.node):
        if isinstance(st, ast.If):
            body_src = " ".join(ast.unparse(s) for s in st.body)
            if "Trace(" in body_src and opens is None:
                opens = st
            if ".end" in body_src and "append" in body_src and closes is None:
                closes = st

    def positive_eq(test, attr):
        return _cmp_sense(test) == "eq" and any(isinstance(x, ast.Attribute) and x.attr == attr for x in ast.walk(test)) and any(isinstance(x, ast.Attribute) and x.attr == "name" for x in ast.walk(test))
    if opens is None or closes is None:
        rep.undecided(rule, cons, "opening / closing branches not recognised", vg.loc())
    elif positive_eq(opens.test, "p_gate") and positive_eq(closes.test, "m_gate"):
        rep.ok(rule, cons, "opens on `name == p_gate`, closes on `name == m_gate`", vg.loc())
    else:
        bad = opens if not positive_eq(opens.test, "p_gate") else closes
        rep.violation(rule, cons, f"`{ast.unparse(bad.test)}` selects the branch that {'opens' if bad is opens else 'closes'} a trace: every other gate ends (or starts) a subcircuit and the measure gate does not -- readouts are attributed to the wrong places", f"{vg.path}:{bad.lineno}")
    # -- had_started
    cons = construct_of(vb, "had-started")
    hs = [v for v in _local_defs(vb.node, "had_started") if not isinstance(v, ast.AugAssign)]
    if not hs:
        rep.undecided(rule, cons, "no `had_started`", vb.loc())
    else:
        v = hs[0]
        sense = _none_test(v, "current")
        if sense is True:
            rep.ok(rule, cons, "`self.current is not None`", f"{vb.path}:{v.lineno}")
        elif sense is None:
            rep.undecided(rule, cons, f"`{ast.unparse(v)}` is not a None test of self.current", f"{vb.path}:{v.lineno}")
        else:
            rep.violation(rule, cons, f"`had_started = {ast.unparse(v)}`: the test that refuses measure_all -> prepare_all inside a repeated body fires for bodies entered with NO open trace and not for those entered with one", f"{vb.path}:{v.lineno}")
    # -- the walker
    cons = construct_of(tb, "leave-and-fire")
    leave = fire = None
    for st in ast.walk(tb.node):
        if isinstance(st, ast.If):
            if any(isinstance(s, ast.Return) for s in st.body) and any(isinstance(x, ast.Attribute) and x.attr == "objective" for x in ast.walk(st.test)) and "len(" in ast.unparse(st.test) and leave is None and not any(isinstance(c, ast.Call) and isinstance(c.func, ast.Attribute) and c.func.attr == "process_trace" for s in st.body for c in ast.walk(s)):
                leave = st
            if any(isinstance(c, ast.Call) and isinstance(c.func, ast.Attribute) and c.func.attr == "process_trace" for s in st.body for c in ast.walk(s)) and fire is None:
                fire = st
    if leave is None or fire is None:
        rep.undecided(rule, cons, "leave / fire tests not recognised", tb.loc())
    else:
        lt, ft = leave.test, fire.test
        ls, fs = _cmp_sense(lt), _cmp_sense(ft)
        l_ok = ls == "ne"
        f_ok = fs == "eq" and ast.unparse(ft).count("len(") == 2
        if l_ok and f_ok:
            rep.ok(rule, cons, f"leaves on `{ast.unparse(lt)[:50]}`, fires on `{ast.unparse(ft)[:50]}`", tb.loc())
        elif ls is None or fs is None or ast.unparse(ft).count("len(") != 2:
            rep.undecided(rule, cons, "leave / fire tests are not plain (in)equalities", tb.loc())
        else:
            bad = leave if not l_ok else fire
            rep.violation(rule, cons, f"`{ast.unparse(bad.test)[:70]}` has the wrong sense: the walker {'returns from the block that contains the next trace (no readout is produced for it)' if bad is leave else 'descends where the trace starts and calls process_trace where it does not'}", f"{tb.path}:{bad.lineno}")
    # -- zero-count skip loop
    cons = construct_of(tl, "zero-count-skip")
    whiles = [w for w in ast.walk(tl.node) if isinstance(w, ast.While)]
    for w in whiles:
        t = w.test
        if isinstance(t, ast.BoolOp) and isinstance(t.op, ast.And) and any(isinstance(x, ast.Compare) and isinstance(x.ops[0], ast.Eq) for x in t.values):
            rep.ok(rule, cons, f"`while {ast.unparse(t)[:60]}`", f"{tl.path}:{w.lineno}")
        else:
            rep.violation(rule, cons, f"`while {ast.unparse(t)[:70]}`: traces are skipped while there IS an objective `or` ..: traces outside the zero-count loop are skipped too (their readouts are lost), or None is sliced", f"{tl.path}:{w.lineno}")


# ---------------------------------------------------------------- C13

def used_qubit_helper_polarity(ctx, rep, rule):
    ix = ctx.ix
    UQ = "jaqalpaq.core.algorithm.used_qubit_visitor.UsedQubitIndicesVisitor"
    ra = _method(ix, UQ, "_resolve_argument")
    rep.rule(rule, "the scope helpers of the used-qubit analysis: a parameter is looked up when it IS bound in the context, a named qubit IS resolved, an index is converted only when it is an integral float, and the context handed to resolve_qubit/resolve_size is used", floor=4)
    argn = ra.params[1]
    cons = construct_of(ra, "lookup")
    ifs = [st for st in iter_stmts(ra.body) if isinstance(st, ast.If)]
    par = [st for st in ifs if "Parameter" in ast.unparse(st.test)]
    nq = [st for st in ifs if "NamedQubit" in ast.unparse(st.test) and "Parameter" not in ast.unparse(st.test)]
    if not par or not nq:
        raise AnalysisError(f"{rule}: _resolve_argument lost its Parameter / NamedQubit cases")
    t = par[0].test
    conj = t.values if isinstance(t, ast.BoolOp) and isinstance(t.op, ast.And) else [t]
    member = [c for c in conj if isinstance(c, ast.Compare) and isinstance(c.ops[0], (ast.In, ast.NotIn))]
    resolves = any(isinstance(c, ast.Call) and isinstance(c.func, ast.Attribute) and c.func.attr == "resolve_value" for b in par[0].body for c in ast.walk(b))
    if member and isinstance(member[0].ops[0], ast.NotIn):
        rep.violation(rule, cons, f"`{ast.unparse(t)[:80]}`: a parameter is resolved when it is NOT bound (JaqalError / KeyError) and left alone when it is, so an argument that is a parameter of the enclosing macro is never replaced by the caller's value", f"{ra.path}:{par[0].lineno}")
    elif len(conj) > 1 or isinstance(t, ast.BoolOp):
        rep.violation(rule, cons, f"`{ast.unparse(t)[:80]}`: a parameter that is not bound in the caller's scope falls through and is handed to the callee as it is, where a parameter of the callee with the same name captures it (`macro inner y x {{ Px y }}; macro outer x {{ inner r[x] 1 }}`: outer's x becomes inner's x = 1)", f"{ra.path}:{par[0].lineno}", witness="get_used_qubit_indices(circuit.macros['outer'].body)")
    elif resolves:
        rep.ok(rule, cons, "every parameter is resolved in the caller's scope (an unbound one raises)", f"{ra.path}:{par[0].lineno}")
    else:
        rep.undecided(rule, cons, f"`{ast.unparse(t)[:70]}`", f"{ra.path}:{par[0].lineno}")
    # no handler hands the raw argument on
    cons = construct_of(ra, "unresolved-not-forwarded")
    swallow = [h for tr in ast.walk(ra.node) if isinstance(tr, ast.Try) for h in tr.handlers if any(isinstance(r_, ast.Return) and isinstance(r_.value, ast.Name) and r_.value.id == argn for r_ in ast.walk(h))]
    branch_bodies = [b for br in par + nq for b in br.body]
    in_handlers = [x for tr in ast.walk(ra.node) if isinstance(tr, ast.Try) for h in tr.handlers for x in ast.walk(h)]
    early = [r_ for b in branch_bodies for r_ in ast.walk(b) if isinstance(r_, ast.Return) and isinstance(r_.value, ast.Name) and r_.value.id == argn and not any(x is r_ for x in in_handlers)]
    if early:
        rep.violation(rule, cons, f"`{ast.unparse(early[0])}` inside the branch for parameters / named qubits hands the argument on unresolved under some condition (e.g. `its source is not a parameter`): an index that is a parameter of the caller is then resolved among the callee's parameters", f"{ra.path}:{early[0].lineno}", witness="macro inner i { Px q[i] }; macro outer i { inner 0; Px q[i] } with different bindings of i")
    elif swallow:
        rep.violation(rule, cons, "a qubit argument that cannot be resolved in the caller's scope is returned as it is (`except JaqalError: return arg`) and is later resolved by name in the CALLEE's scope: dynamic scoping", f"{ra.path}:{swallow[0].lineno}")
    else:
        rep.ok(rule, cons, "a failure to resolve propagates", ra.loc())
    cons = construct_of(ra, "named-qubit")
    t = nq[0].test
    if isinstance(t, ast.Call) and isinstance(t.func, ast.Name) and t.func.id == "isinstance":
        rep.ok(rule, cons, f"`{ast.unparse(t)}`", f"{ra.path}:{nq[0].lineno}")
    elif not (isinstance(t, ast.UnaryOp) and isinstance(t.op, ast.Not) and isinstance(t.operand, ast.Call)):
        rep.undecided(rule, cons, f"`{ast.unparse(t)}`", f"{ra.path}:{nq[0].lineno}")
    else:
        rep.violation(rule, cons, f"`{ast.unparse(t)}`: named qubits are passed on unresolved and everything else is asked for resolve_qubit", f"{ra.path}:{nq[0].lineno}")
    # integrality of index conversions
    for name, m in ix.classes[UQ].methods.items():
        for st in ast.walk(m.node):
            if isinstance(st, ast.If) and any(isinstance(a, ast.Assign) and isinstance(a.value, ast.Call) and isinstance(a.value.func, ast.Name) and a.value.func.id == "int" for a in st.body):
                cons = construct_of(m, "integrality")
                t = st.test
                both = isinstance(t, ast.BoolOp) and isinstance(t.op, ast.And) and any("isinstance" in ast.unparse(v) and "float" in ast.unparse(v) for v in t.values) and any("is_integer" in ast.unparse(v) for v in t.values)
                if both:
                    rep.ok(rule, cons, f"`{ast.unparse(t)}`", f"{m.path}:{st.lineno}")
                else:
                    rep.violation(rule, cons, f"`if {ast.unparse(t)}: idx = int(idx)` truncates: `m q 1.5` (which has no qubit) is analysed as q[1]", f"{m.path}:{st.lineno}")
    # context is used
    for cq, mname in (("jaqalpaq.core.register.Register", "resolve_qubit"), ("jaqalpaq.core.register.Register", "resolve_size"), ("jaqalpaq.core.register.NamedQubit", "resolve_qubit")):
        m = _method(ix, cq, mname)
        if "context" not in m.params:
            continue
        cons = construct_of(m, "context")
        # the parameter's incoming value must be read (`context = context or {}` reads it; `context = {}` does not)
        reads = [n for n in ast.walk(m.node) if isinstance(n, ast.Name) and n.id == "context" and isinstance(n.ctx, ast.Load)]
        first_store = None
        for st in sorted((x for x in ast.walk(m.node) if isinstance(x, ast.Assign)), key=lambda x: x.lineno):
            if any(isinstance(t_, ast.Name) and t_.id == "context" for t_ in st.targets):
                first_store = st
                break
        overwritten = first_store is not None and "context" not in _names(first_store.value) and not any(r.lineno < first_store.lineno for r in reads)
        if not reads or overwritten:
            rep.violation(rule, cons, "the context argument is overwritten before it is read: a qubit or size that depends on a macro parameter cannot be resolved in the scope of the call (`Unbound identifier`), so used-qubit analysis through macros with register or index parameters fails", m.loc())
        else:
            rep.ok(rule, cons, "the caller's context is used", m.loc())


# ---------------------------------------------------------------- C06

def symbolic_dependence_exhaustive(ctx, rep, rule):
    ix = ctx.ix
    f = _func(ix, "jaqalpaq.core.algorithm.fill_in_map._depends_on_parameter")
    rep.rule(rule, "the test `this qubit cannot be resolved yet` looks at every place a parameter or let constant can sit (the object, its index, each slice bound, every link of its alias chain) and answers yes for each", floor=1)
    cons = construct_of(f, "places")
    src_attrs = {n.attr for n in ast.walk(f.node) if isinstance(n, ast.Attribute)} | {n.args[1].value for n in ast.walk(f.node) if isinstance(n, ast.Call) and isinstance(n.func, ast.Name) and n.func.id == "getattr" and len(n.args) >= 2 and isinstance(n.args[1], ast.Constant)}
    need = {"alias_index", "alias_slice", "alias_from", "start", "stop", "step"}
    missing = sorted(need - src_attrs)
    if missing:
        rep.violation(rule, cons, f"never looks at {missing}: a qubit whose {missing[0]} is a macro parameter or let constant is resolved at once, with the wrong (declared, un-overridden) value or a crash", f.loc())
        return
    wrong = [r for r in ast.walk(f.node) if isinstance(r, ast.Return) and isinstance(r.value, ast.Constant) and r.value.value is False and any(taken and "AnnotatedValue" in ast.unparse(t) for t, taken in _enclosing_ifs(f.node, r))]
    if wrong:
        rep.violation(rule, cons, "answers `no` on finding an AnnotatedValue", f"{f.path}:{wrong[0].lineno}")
    else:
        rep.ok(rule, cons, "object, index, all three slice bounds and the alias chain", f.loc())


def macro_register_exemption(ctx, rep, rule):
    ix = ctx.ix
    m = _method(ix, "jaqalpaq.core.algorithm.fill_in_map.MapFiller", "visit_argument")
    rep.rule(rule, "an argument is left un-filled only if it is a Register AND the call is a macro call", floor=1)
    cons = construct_of(m, "exemption")
    pn = m.params[-1]
    raw = [r for r in ast.walk(m.node) if isinstance(r, ast.Return) and isinstance(r.value, ast.Name) and r.value.id == pn]
    if not raw:
        rep.ok(rule, cons, "no argument is returned un-filled", m.loc())
        return
    ctrl = _enclosing_ifs(m.node, raw[0])
    if not ctrl or not all(taken for _, taken in ctrl):
        rep.undecided(rule, cons, "exemption not recognised", m.loc())
        return
    calls = []
    disj = False
    for t_, _ in ctrl:
        if isinstance(t_, ast.BoolOp) and isinstance(t_.op, ast.Or):
            disj = True
        calls += list(t_.values) if isinstance(t_, ast.BoolOp) else [t_]
    t = ctrl[0][0]
    ifs = [raw[0]]
    ok = not disj and len(calls) == 2 and all(isinstance(c, ast.Call) and isinstance(c.func, ast.Name) and c.func.id == "isinstance" and len(c.args) == 2 for c in calls) and {ast.unparse(c.args[1]) for c in calls} == {"Macro", "Register"}
    if ok:
        rep.ok(rule, cons, " and ".join(f"`{ast.unparse(c)}`" for c in calls), f"{m.path}:{ifs[0].lineno}")
    elif not disj and not all(isinstance(c, ast.Call) and isinstance(c.func, ast.Name) and c.func.id == "isinstance" for c in calls):
        rep.undecided(rule, cons, f"`{ast.unparse(t)}` is not made of isinstance tests", f"{m.path}:{ifs[0].lineno}")
    else:
        rep.violation(rule, cons, f"`{ast.unparse(t)}` exempts more than whole-register arguments of macro calls: qubit arguments of macro calls (or registers given to native gates) keep their alias", f"{m.path}:{ifs[0].lineno}")


# ---------------------------------------------------------------- C20 / C01 / C15

def eq_polarity(ctx, rep, rule):
    ix, T = ctx.ix, ctx.typer
    from .c20 import operand_aliases
    rep.rule(rule, "in every __eq__ a comparison of the two operands' fields that feeds the returned conjunction is `==`; `!=` appears only as the test of a branch that returns False", floor=8)
    n = 0
    for k in T.ir_classes:
        ci = ix.classes[k]
        eq = ci.methods.get("__eq__")
        if eq is None:
            continue
        lefts, rights = operand_aliases(eq)

        def side(e, names):
            return any(isinstance(x, ast.Name) and x.id in names for x in ast.walk(e))
        bad = None
        for c in walk_no_nested(eq.node):
            if not (isinstance(c, ast.Compare) and len(c.ops) == 1):
                continue
            l, r = c.left, c.comparators[0]
            if not ((side(l, lefts) and side(r, rights)) or (side(l, rights) and side(r, lefts))):
                continue
            if isinstance(c.ops[0], ast.Eq):
                continue
            if isinstance(c.ops[0], ast.NotEq):
                if any(isinstance(u, ast.UnaryOp) and isinstance(u.op, ast.Not) and u.operand is c for u in ast.walk(eq.node)):
                    continue
                # fine when it is the test of an `if` whose body returns False
                holder = [st for st in ast.walk(eq.node) if isinstance(st, ast.If) and any(x is c for x in ast.walk(st.test))]
                if holder and all(any(isinstance(s, ast.Return) and isinstance(s.value, ast.Constant) and s.value.value is False for s in h.body) for h in holder):
                    continue
                bad = c
            elif isinstance(c.ops[0], (ast.Is, ast.IsNot)):
                continue  # C20.4
            else:
                bad = c
        n += 1
        cons = cls_construct(ix, k, "__eq__:polarity")
        if bad is not None:
            rep.violation(rule, cons, f"`{ast.unparse(bad)}` enters the result with the wrong sense: objects that differ in this field compare equal and identical ones unequal (a circuit no longer equals its re-parse)", f"{eq.path}:{bad.lineno}")
        else:
            rep.ok(rule, cons, "field comparisons are equalities", eq.loc())
    if n < 8:
        raise AnalysisError(f"{rule}: only {n} __eq__ methods")


def identifier_validity(ctx, rep, rule):
    ix = ctx.ix
    f = _func(ix, "jaqalpaq.core.identifier.is_identifier_valid")
    cons = construct_of(f, "conjunction")
    rets = [st for st in iter_stmts(f.body) if isinstance(st, ast.Return) and st.value is not None]
    ok = False
    for r in rets:
        v = r.value
        if isinstance(v, ast.BoolOp) and isinstance(v.op, ast.And):
            has_match = any(isinstance(x, ast.Call) and isinstance(x.func, ast.Attribute) and x.func.attr in ("match", "fullmatch") for x in v.values)
            not_reserved = any(isinstance(x, ast.Compare) and isinstance(x.ops[0], ast.NotIn) and "RESERVED_WORDS" in ast.unparse(x.comparators[0]) for x in v.values)
            ok = has_match and not_reserved
    wrong = any(isinstance(r.value, ast.BoolOp) and (isinstance(r.value.op, ast.Or) or any(isinstance(x, ast.Compare) and isinstance(x.ops[0], ast.In) and "RESERVED_WORDS" in ast.unparse(x.comparators[0]) for x in r.value.values)) for r in rets)
    if ok:
        rep.ok(rule, cons, "regex match and not a reserved word", f.loc())
    elif not wrong:
        rep.undecided(rule, cons, "is_identifier_valid is not a single conjunction", f.loc())
    else:
        rep.violation(rule, cons, f"`{ast.unparse(rets[0]) if rets else ''}`: is_identifier_valid is not `matches the identifier regex AND is not reserved` -- keywords are valid names (or nothing but keywords is)", f.loc())


def probabilities_normalised(ctx, rep, rule):
    ix = ctx.ix
    init = _method(ix, "jaqalpaq.core.result.ProbabilisticSubcircuit", "__init__")
    rep.rule(rule, "ProbabilisticSubcircuit clips to [0, 1], divides by the total whenever it differs from one, and refuses an error above CUTOFF_FAIL", floor=3)
    clips = [c for c in ast.walk(init.node) if isinstance(c, ast.Call) and isinstance(c.func, ast.Attribute) and c.func.attr == "clip"]
    cons = construct_of(init, "clip")
    if not clips:
        rep.undecided(rule, cons, "no clip", init.loc())
    for c in clips:
        b = list(c.args[1:3]) if isinstance(c.func.value, ast.Name) and c.func.value.id in ("numpy", "np") else list(c.args[0:2])
        kw = {k.arg: k.value for k in c.keywords}
        if len(b) < 2 and kw:
            b = [kw.get("a_min", kw.get("min")), kw.get("a_max", kw.get("max"))]
        if len(b) != 2 or not all(isinstance(x, ast.Constant) for x in b):
            rep.undecided(rule, cons, f"bounds of `{ast.unparse(c)}` are not literals", f"{init.path}:{c.lineno}")
        elif (b[0].value, b[1].value) == (0, 1):
            rep.ok(rule, cons, "clip(p, 0, 1)", f"{init.path}:{c.lineno}")
        else:
            rep.violation(rule, cons, f"`{ast.unparse(c)}`: probabilities are not clipped to [0, 1] (every outcome becomes equally likely, or negative values survive)", f"{init.path}:{c.lineno}")
    cons = construct_of(init, "normalise")
    divs = [st for st in ast.walk(init.node) if isinstance(st, ast.If) and any(isinstance(a, ast.AugAssign) and isinstance(a.op, ast.Div) for a in st.body)]
    if not divs:
        rep.violation(rule, cons, "the probabilities are never divided by their total", init.loc())
    for st in divs:
        t = st.test
        ok = isinstance(t, ast.Compare) and len(t.ops) == 1 and ((isinstance(t.ops[0], ast.Gt) and isinstance(t.comparators[0], ast.Constant) and t.comparators[0].value == 0) or (isinstance(t.ops[0], ast.NotEq) and isinstance(t.comparators[0], ast.Constant) and t.comparators[0].value in (0, 1)))
        if ok:
            rep.ok(rule, cons, f"`if {ast.unparse(t)}` divides by the total", f"{init.path}:{st.lineno}")
        elif not (isinstance(t, ast.Compare) and len(t.ops) == 1 and isinstance(t.comparators[0], ast.Constant)):
            rep.undecided(rule, cons, f"`if {ast.unparse(t)}` is not a comparison with a literal", f"{init.path}:{st.lineno}")
        else:
            rep.violation(rule, cons, f"`if {ast.unparse(t)}`: the division by the total is skipped for totals that differ from one, so reported probabilities do not sum to one", f"{init.path}:{st.lineno}")
    cons = construct_of(init, "cutoff")
    raises = [r for r in ast.walk(init.node) if isinstance(r, ast.Raise) and any(taken and "CUTOFF_FAIL" in ast.unparse(t) for t, taken in _enclosing_ifs(init.node, r))]
    if raises:
        rep.ok(rule, cons, "raises above CUTOFF_FAIL", f"{init.path}:{raises[0].lineno}")
    else:
        rep.violation(rule, cons, "an error above CUTOFF_FAIL only warns: a distribution that needed a large correction is reported as if it were sound", init.loc())


def readout_index_origin(ctx, rep, rule):
    ix = ctx.ix
    rep.rule(rule, "the running readout index of every walker that produces readouts starts at 0", floor=2)
    n = 0
    for q in ("jaqalpaq.core.result.OutputParser", "jaqalpaq.emulator.backend.IndependentSubcircuitsEmulatorWalker"):
        init = _method(ix, q, "__init__")
        for st in iter_stmts(init.body):
            if isinstance(st, ast.Assign) and any(isinstance(t, ast.Attribute) and t.attr == "readout_index" for t in st.targets):
                n += 1
                cons = construct_of(init, "readout-index")
                if isinstance(st.value, ast.Constant) and st.value.value == 0:
                    rep.ok(rule, cons, "starts at 0", f"{init.path}:{st.lineno}")
                else:
                    rep.violation(rule, cons, f"`{ast.unparse(st)}`: the k-th readout does not carry index k (ExecutionResult.readouts[k].index != k)", f"{init.path}:{st.lineno}")
    if n < 2:
        raise AnalysisError(f"{rule}: readout_index initialisations vanished")


_ALG = "jaqalpaq.core.algorithm."
EXTRA = {
    "C03": [(emulator_roles, "C03.7"), (raw_children, "C03.8", [_ALG + "walkers"], "the serialiser would hand out containers instead of gates")],
    "C04": [(raw_children, "C04.11", [_ALG + "expand_macros"], "macro calls below the node are not expanded")],
    "C05": [(raw_children, "C05.14", [_ALG + "fill_in_let"], "let constants below the node are not substituted")],
    "C06": [(raw_children, "C06.11", [_ALG + "fill_in_map"], "aliases below the node are not resolved"), (symbolic_dependence_exhaustive, "C06.12"), (macro_register_exemption, "C06.13")],
    "C08": [(raw_children, "C08.8", [_ALG + "walkers"], "subcircuits below the node are not discovered / walked"), (discovery_polarity, "C08.9"), (readout_index_origin, "C08.10")],
    "C09": [(raw_children, "C09.10", [_ALG + "expand_subcircuits"], "subcircuit blocks below the node are not expanded")],
    "C10": [(raw_children, "C10.14", [_ALG + "fill_in_map", _ALG + "fill_in_let", _ALG + "expand_macros", _ALG + "expand_subcircuits", _ALG + "unit_timing"], "a pass that stops half-way is neither idempotent nor does it commute"), (macro_register_exemption, "C10.15")],
    "C13": [(raw_children, "C13.12", [_ALG + "used_qubit_visitor", _ALG + "walkers"], "qubits below the node are not counted"), (used_qubit_helper_polarity, "C13.13")],
    "C15": [(probabilities_normalised, "C15.13"), (readout_index_origin, "C15.14")],
    "C19": [(raw_children, "C19.7", [_ALG + "unit_timing"], "blocks below the node are not normalised")],
    "C20": [(eq_polarity, "C20.9")],
    "C01": [(identifier_validity, "C01.12")],
    "C07": [(used_qubit_helper_polarity, "C07.9")],
}


# ---------------------------------------------------------------- slices

SLICE_MODULES = ("jaqalpaq.core.register", "jaqalpaq.core.circuitbuilder", "jaqalpaq.generator.generator", "jaqalpaq.core.algorithm.fill_in_let", "jaqalpaq.core.algorithm.fill_in_map", "jaqalpaq.core.algorithm.expand_macros")
COMPONENTS = ("start", "stop", "step")


def _component_of(name):
    for c in COMPONENTS:
        if name == c or name.endswith("_" + c):
            return c
    return None


def slice_components(ctx, rep, rule):
    """A local named start/stop/step is computed from the slice component of
    the same name; a constant replaces it only where it is None."""
    ix = ctx.ix
    rep.rule(rule, "where slice bounds are handled, a local called start / stop / step is computed from the component of that name (never from a sibling), a default replaces it only under a None test of that component, and `x or d` is not written `x and d`", floor=12)
    n = 0
    for f in ix.functions.values():
        if f.module not in SLICE_MODULES or isinstance(f.node, ast.Lambda):
            continue
        for st in walk_no_nested(f.node):
            if not (isinstance(st, ast.Assign) and len(st.targets) == 1 and isinstance(st.targets[0], ast.Name) and st.targets[0].id in COMPONENTS):
                continue
            x = st.targets[0].id
            v = st.value
            mentioned = set()
            in_tests = {id(z) for e in ast.walk(v) if isinstance(e, ast.IfExp) for z in ast.walk(e.test)}
            for m in ast.walk(v):
                if id(m) in in_tests:
                    continue
                if isinstance(m, ast.Attribute) and m.attr in COMPONENTS:
                    mentioned.add(m.attr)
                elif isinstance(m, ast.Name) and _component_of(m.id):
                    mentioned.add(_component_of(m.id))
            n += 1
            cons = construct_of(f, f"slice-{x}")
            loc = f"{f.path}:{st.lineno}"
            bad_and = [b for b in ast.walk(v) if isinstance(b, ast.BoolOp) and isinstance(b.op, ast.And) and any(isinstance(e, ast.Constant) for e in b.values)]
            if bad_and:
                rep.violation(rule, cons, f"`{ast.unparse(st)}`: `and` with a constant yields the constant for every present bound (and None for an absent one)", loc)
                continue
            if mentioned and x not in mentioned:
                rep.violation(rule, cons, f"`{ast.unparse(st)}` computes {x} from the slice's {sorted(mentioned)}: the alias covers other qubits than the ones written", loc)
                continue
            if not mentioned:
                def none_test_of_x(t):
                    for c in ast.walk(t):
                        if isinstance(c, ast.Compare) and len(c.ops) == 1 and isinstance(c.comparators[0], ast.Constant) and c.comparators[0].value is None and any((isinstance(a, ast.Name) and _component_of(a.id) == x) or (isinstance(a, ast.Attribute) and a.attr == x) for a in ast.walk(c.left)):
                            return True
                    return False
                guarded = any(none_test_of_x(t) for t, _ in _enclosing_ifs(f.node, st))
                if guarded:
                    rep.ok(rule, cons, "default under a test of the component", loc)
                else:
                    rep.violation(rule, cons, f"`{ast.unparse(st)}` replaces the slice's {x} by a value that does not depend on it, unconditionally: bounds are checked (or qubits resolved) against a slice that is not the one written", loc)
                continue
            # polarity of `d if c is None else c`
            pol_bad = False
            for e in ast.walk(v):
                if isinstance(e, ast.IfExp) and isinstance(e.test, ast.Compare) and len(e.test.ops) == 1 and isinstance(e.test.comparators[0], ast.Constant) and e.test.comparators[0].value is None:
                    is_none = isinstance(e.test.ops[0], (ast.Is, ast.Eq))
                    comp_in = lambda z: any((isinstance(a, ast.Attribute) and a.attr == x) or (isinstance(a, ast.Name) and _component_of(a.id) == x) for a in ast.walk(z))
                    when_none, when_set = (e.body, e.orelse) if is_none else (e.orelse, e.body)
                    if comp_in(when_none) and not comp_in(when_set):
                        pol_bad = True
            if pol_bad:
                rep.violation(rule, cons, f"`{ast.unparse(st)}` uses the component where it is None and the default where it is given", loc)
            else:
                rep.ok(rule, cons, f"from the slice's {x}", loc)
    if n < 12:
        raise AnalysisError(f"{rule}: only {n} assignments of slice components found (20 on the pinned tree)")


EXTRA["C06"].append((slice_components, "C06.14"))
EXTRA["C14"] = [(slice_components, "C14.7")]


# ---------------------------------------------------------------- C18

def stretched_idle_branch(ctx, rep, rule):
    ix = ctx.ix
    f = _func(ix, "jaqalpaq.core.stretch.stretched_gates")
    rep.rule(rule, "stretched_gates: the flag that asks for an idle twin is set exactly for idle inputs, the twin is made under that flag, and it is named after the input gate (name + suffix), not by the default I_ prefix of its parent", floor=2)
    cons = construct_of(f, "idle-flag")
    flag = None
    for st in ast.walk(f.node):
        if isinstance(st, ast.If) and "IdleGateDefinition" in ast.unparse(st.test):
            sets_t = [a for a in st.body if isinstance(a, ast.Assign) and isinstance(a.value, ast.Constant) and isinstance(a.value.value, bool)]
            sets_f = [a for a in st.orelse if isinstance(a, ast.Assign) and isinstance(a.value, ast.Constant) and isinstance(a.value.value, bool)]
            if sets_t and sets_f and isinstance(sets_t[0].targets[0], ast.Name):
                flag = sets_t[0].targets[0].id
                positive = isinstance(st.test, ast.Call)
                want_body, want_else = (True, False) if positive else (False, True)
                if sets_t[0].value.value is want_body and sets_f[0].value.value is want_else:
                    rep.ok(rule, cons, f"`{flag}` is true for idle inputs only", f"{f.path}:{st.lineno}")
                else:
                    rep.violation(rule, cons, f"`{flag} = {sets_t[0].value.value}` under `{ast.unparse(st.test)}`: idle inputs get no stretched idle twin (or every gate gets one)", f"{f.path}:{st.lineno}")
    if flag is None:
        rep.undecided(rule, cons, "idle flag not recognised", f.loc())
        return
    cons = construct_of(f, "idle-twin")
    made = [c for c in ast.walk(f.node) if isinstance(c, ast.Call) and isinstance(c.func, ast.Name) and c.func.id == "IdleGateDefinition"]
    if not made:
        rep.violation(rule, cons, "no idle twin is made", f.loc())
    for c in made:
        tests = _enclosing_ifs(f.node, c)
        under = [(t, taken) for t, taken in tests if isinstance(t, ast.Name) and t.id == flag or (isinstance(t, ast.UnaryOp) and isinstance(t.operand, ast.Name) and t.operand.id == flag)]
        loc = f"{f.path}:{c.lineno}"
        if not under:
            rep.undecided(rule, cons, f"the twin is not made under a plain test of `{flag}`", loc)
            continue
        t, taken = under[0]
        pos = isinstance(t, ast.Name) == taken
        named = any(k.arg == "name" for k in c.keywords) or len(c.args) > 1
        if not pos:
            rep.violation(rule, cons, f"the idle twin is made when `{flag}` is false: active inputs get idle twins, idle inputs none", loc)
        elif not named:
            rep.violation(rule, cons, f"`{ast.unparse(c)}` leaves the twin's name to the default (I_ + stretched parent name): for an idle gate registered under another name the stretched variant is stored under a name that is not input name + suffix", loc)
        else:
            rep.ok(rule, cons, "made for idle inputs, named name + suffix", loc)


EXTRA["C18"] = [(stretched_idle_branch, "C18.10")]


# ---------------------------------------------------------------- after seed round 6

def always_visits(ctx, rep, rule, modules, exempt):
    """No path through a handler with children returns normally without
    having passed a statement that visits (or delegates) them."""
    from ..cfg import CFG
    ix = ctx.ix
    rep.rule(rule, "every non-raising path through a handler that has children passes a statement that hands them to a method of the visitor (no early `return {}` for special cases such as a zero count: discovery, analysis and transformation look at every statement, whether or not it will run)", floor=3)
    n = 0
    for k in ix.subclasses(VISITOR):
        ci = ix.classes[k]
        if ci.module not in modules:
            continue
        for name, fi in ci.methods.items():
            if not name.startswith("visit_") or name == "visit_default" or len(fi.params) < 2:
                continue
            selfn, p = fi.params[0], fi.params[1]
            has_children = any(isinstance(x, ast.Attribute) and x.attr in CHILD_FIELDS and isinstance(x.value, ast.Name) and x.value.id == p for x in ast.walk(fi.node))
            if not has_children:
                continue
            cons = construct_of(fi, "every-path")
            ex = exempt.get((ci.name, name)) or exempt.get((ci.name, "*"))
            if ex:
                rep.exempt(rule, cons, ex, fi.loc())
                continue

            # names that stand for (some of) the children: bound from an expression that mentions <node>.<child field>
            child_names = set()
            for _ in range(2):
                for b in ast.walk(fi.node):
                    src, tgts = None, []
                    if isinstance(b, ast.Assign):
                        src, tgts = b.value, b.targets
                    elif isinstance(b, (ast.For, ast.comprehension)):
                        src, tgts = b.iter, [b.target]
                    elif isinstance(b, ast.NamedExpr):
                        src, tgts = b.value, [b.target]
                    if src is None:
                        continue
                    if any((isinstance(x, ast.Attribute) and x.attr in CHILD_FIELDS and isinstance(x.value, ast.Name) and x.value.id == p) or (isinstance(x, ast.Name) and x.id in child_names) for x in ast.walk(src)):
                        for t in tgts:
                            child_names |= {x.id for x in ast.walk(t) if isinstance(x, ast.Name)}

            def hands_children(c):
                for a in list(c.args) + [k.value for k in c.keywords]:
                    for x in ast.walk(a):
                        if isinstance(x, ast.Attribute) and x.attr in CHILD_FIELDS and isinstance(x.value, ast.Name) and x.value.id == p:
                            return True
                        if isinstance(x, ast.Name) and x.id in child_names:
                            return True
                    if isinstance(a, ast.Name) and a.id == p:
                        return True   # the node itself, handed on whole
                    if isinstance(a, ast.Starred):
                        return True
                return False

            def visits(st):
                for c in ast.walk(st):
                    if isinstance(c, ast.Call) and isinstance(c.func, ast.Attribute):
                        if isinstance(c.func.value, ast.Name) and c.func.value.id == selfn and c.func.attr not in ("merge_into",) and hands_children(c):
                            return True
                        if isinstance(c.func.value, ast.Call) and isinstance(c.func.value.func, ast.Name) and c.func.value.func.id == "super":
                            return True
                return False
            cfg = CFG(fi.body)
            nodes = []
            for st in iter_stmts(fi.body):
                if isinstance(st, (ast.If, ast.Try, ast.With)):
                    # only the header of an `if` is a node of its own
                    if isinstance(st, ast.If) and visits(st.test):
                        nodes.append(cfg.node(st))
                    continue
                if visits(st):
                    nodes.append(cfg.node(st))
            nodes = [x for x in nodes if x is not None]
            n += 1
            if not nodes:
                rep.violation(rule, cons, "the handler never hands its children to the visitor", fi.loc())
            elif cfg.stmts_reaching_exit_without(nodes):
                # name the return that is reached
                early = [r for r in iter_stmts(fi.body) if isinstance(r, ast.Return) and not visits(r) and cfg.node(r) in cfg.reachable_from(cfg.entry, removed_nodes=nodes)]
                where = early[0] if early else fi.node
                rep.violation(rule, cons, f"`{ast.unparse(where)[:60] if early else name}` is reached without the children having been visited: statements below this node are skipped on that path (e.g. the subcircuits of a zero-count loop are not discovered, so every later subcircuit gets too small an index)", f"{fi.path}:{where.lineno}")
            else:
                rep.ok(rule, cons, "children are visited on every returning path", fi.loc())
    if n < 3:
        raise AnalysisError(f"{rule}: only {n} handlers analysed")


ALWAYS_EXEMPT = {
    ("TraceVisitor", "*"): "the walker descends only towards the next trace start (by address) and skips what holds none: an empty trace list, a loop whose count is <= 0",
    ("UnrollIterator", "visit_BlockStatement"): "yields the already normalised statements (see the raw-children exemption)",
}


def eq_no_coercion(ctx, rep, rule):
    ix, T = ctx.ix, ctx.typer
    rep.rule(rule, "no __eq__ converts what it compares (float(), int(), round(), str(), abs()): a conversion makes equality coarser than the values (integers beyond 2**53 collapse as floats)", floor=8)
    n = 0
    for k in T.ir_classes:
        eq = ix.classes[k].methods.get("__eq__")
        if eq is None:
            continue
        n += 1
        cons = cls_construct(ix, k, "__eq__:coercion")
        bad = [c for c in ast.walk(eq.node) if isinstance(c, ast.Call) and isinstance(c.func, ast.Name) and c.func.id in ("float", "int", "round", "str", "repr", "abs", "complex") and c.args]
        if bad:
            rep.violation(rule, cons, f"`{ast.unparse(bad[0])}` converts an operand before the comparison: `g 9007199254740992` and `g 9007199254740993` compare equal although the circuits generate different text (and, as loop counts passed to a macro, run a different number of times)", f"{eq.path}:{bad[0].lineno}")
        else:
            rep.ok(rule, cons, "operands are compared as they are", eq.loc())
    if n < 8:
        raise AnalysisError(f"{rule}: only {n} __eq__ methods")


def relink_table_bound_first(ctx, rep, rule):
    from ..cfg import CFG
    ix = ctx.ix
    SE = "jaqalpaq.core.algorithm.expand_subcircuits.SubcircuitExpander"
    vc = _method(ix, SE, "visit_Circuit")
    gh = ix.classes[SE].methods.get("visit_GateStatement")
    rep.rule(rule, "the table from which the gate handler takes new macro definitions is the table being filled, and it is bound before the first macro body is visited (a call inside a macro body is linked to the new definition of the earlier macro)", floor=1)
    cons = construct_of(vc, "macro-table")
    if gh is None:
        # reported by the relink rule (C09.8): without a gate handler no call is linked at all
        rep.undecided(rule, cons, "the expander has no gate handler", vc.loc())
        return
    selfn = gh.params[0]
    tables = {m.attr for m in walk_no_nested(gh.node) if isinstance(m, ast.Attribute) and isinstance(m.value, ast.Name) and m.value.id == selfn and "macro" in m.attr}
    if not tables:
        rep.undecided(rule, cons, "the gate handler reads no macro table", gh.loc())
        return
    tbl = sorted(tables)[0]
    s2 = vc.params[0]
    cfg = CFG(vc.body)
    visits = [st for st in iter_stmts(vc.body) if not isinstance(st, (ast.If, ast.For, ast.While, ast.Try, ast.With)) and any(isinstance(c, ast.Call) and isinstance(c.func, ast.Attribute) and c.func.attr == "visit" and c.args and "macro" in ast.unparse(c.args[0]) for c in ast.walk(st))]
    if not visits:
        rep.undecided(rule, cons, "macros are not visited in visit_Circuit", vc.loc())
        return
    direct = all(any(isinstance(t, ast.Subscript) and isinstance(t.value, ast.Attribute) and t.value.attr == tbl for t in getattr(st, "targets", [])) for st in visits)
    binds = [st for st in iter_stmts(vc.body) if isinstance(st, ast.Assign) and any(isinstance(t, ast.Attribute) and t.attr == tbl and isinstance(t.value, ast.Name) and t.value.id == s2 for t in st.targets)]
    if direct:
        rep.ok(rule, cons, f"results are stored into self.{tbl} one by one", vc.loc())
    elif not binds:
        rep.violation(rule, cons, f"self.{tbl} is never bound to the table that visit_Circuit fills: calls are linked against an empty (or stale) table", vc.loc())
    elif all(cfg.dominates(cfg.node(binds[0]), cfg.node(v)) for v in visits):
        src = ast.unparse(binds[0].value)
        fills = all(src in ast.unparse(v) for v in visits)
        if fills:
            rep.ok(rule, cons, f"`{ast.unparse(binds[0])}` precedes the visits, which fill that table", f"{vc.path}:{binds[0].lineno}")
        else:
            rep.violation(rule, cons, f"`{ast.unparse(binds[0])}` is not the table the visits fill", f"{vc.path}:{binds[0].lineno}")
    else:
        rep.violation(rule, cons, f"`{ast.unparse(binds[0])}` comes after macro bodies have been visited: while they are visited the table is still empty, so a call of an earlier macro inside a macro body keeps its old definition (whose body still contains the subcircuit blocks)", f"{vc.path}:{binds[0].lineno}", witness="macro inner a { subcircuit { Px a } }; macro outer a { inner a }")


_W = [_ALG + "walkers"]
_EXCL = ALWAYS_EXEMPT
EXTRA["C08"].append((always_visits, "C08.11", [_ALG + "walkers"], _EXCL))
EXTRA["C13"].append((always_visits, "C13.14", [_ALG + "walkers", _ALG + "used_qubit_visitor"], _EXCL))
EXTRA["C10"].append((always_visits, "C10.16", [_ALG + "fill_in_map", _ALG + "fill_in_let", _ALG + "expand_macros", _ALG + "expand_subcircuits", _ALG + "unit_timing"], _EXCL))
EXTRA["C09"].append((always_visits, "C09.11", [_ALG + "expand_subcircuits"], _EXCL))
EXTRA["C09"].append((relink_table_bound_first, "C09.12"))
EXTRA["C20"].append((eq_no_coercion, "C20.10"))
