"""C03 -- emulator state = ordered product of gate unitaries (narrow structural claim)."""

from __future__ import annotations

import ast

from ..index import AnalysisError
from ..cfg import CFG, walk_no_nested, iter_stmts
from ..fieldflow import FuncFlow, names_in
from .common import construct_of, cls_construct, short
from .c06 import raw_index_sinks

EMU = "jaqalpaq.emulator.unitary.UnitarySerializedEmulator"
RUN = "jaqalpaq.run.run.run_jaqal_circuit"
PASSES = {
    "expand_subcircuits": "jaqalpaq.core.algorithm.expand_subcircuits.expand_subcircuits",
    "fill_in_let": "jaqalpaq.core.algorithm.fill_in_let.fill_in_let",
    "expand_macros": "jaqalpaq.core.algorithm.expand_macros.expand_macros",
}


def unitary_call_sites(ctx):
    """Calls of a gate definition's ideal unitary: <x>.ideal_unitary(...) anywhere in the package."""
    ix = ctx.ix
    out = []
    for f in ix.functions.values():
        for n in walk_no_nested(f.node):
            if isinstance(n, ast.Call) and isinstance(n.func, ast.Attribute) and n.func.attr in ("ideal_unitary", "_ideal_unitary"):
                out.append((f, n))
    return out


def splat_protocol(call: ast.Call) -> str:
    """'splat' for f(*args); 'positional' for explicit positional args; 'none' for f(); else 'other'."""
    if call.keywords:
        return "other"
    if not call.args:
        return "none"
    if all(isinstance(a, ast.Starred) for a in call.args):
        return "splat"
    if not any(isinstance(a, ast.Starred) for a in call.args):
        # a single argument that is itself a sequence (tuple slice / list) is the defect
        if len(call.args) == 1 and isinstance(call.args[0], (ast.Subscript, ast.List, ast.Tuple, ast.Name)):
            a = call.args[0]
            if isinstance(a, ast.Subscript) and isinstance(a.slice, ast.Slice):
                return "sequence-unsplatted"
            if isinstance(a, (ast.List, ast.Tuple)):
                return "sequence-unsplatted"
        return "positional"
    return "other"


def serializer_loop_count(ctx, rep):
    """C03.5: once the trace has started the serialiser emits a loop body exactly loop.iterations times."""
    ix, T = ctx.ix, ctx.typer
    from ..fieldflow import FuncFlow
    rep.rule("C03.5", "once the trace has started, the serialiser emits the body of a loop exactly `loop.iterations` times (zero times for a count of zero)", floor=1)
    ser = ix.cls("jaqalpaq.core.algorithm.walkers.TraceSerializer")
    vl = ser.methods.get("visit_LoopStatement")
    if vl is None:
        raise AnalysisError("C03.5: TraceSerializer.visit_LoopStatement vanished")
    loop = vl.params[1]
    fl = FuncFlow(ix, T, vl)
    cons = construct_of(vl, "body-count")

    def is_body_visit(n):
        return isinstance(n, (ast.YieldFrom, ast.Yield)) and n.value is not None and any(
            isinstance(m, ast.Attribute) and m.attr == "statements" and isinstance(m.value, ast.Name) and m.value.id == loop for m in ast.walk(n.value))
    visits = [n for n in walk_no_nested(vl.node) if is_body_visit(n)]
    if not visits:
        rep.violation("C03.5", cons, "the loop handler never emits the loop body", vl.loc())
        return
    problems = []
    for v in visits:
        tests = fl.control_tests(v)
        reads_started = any(isinstance(m, ast.Attribute) and m.attr == "started" for t in tests for m in ast.walk(t))
        # enclosing for-range
        node, rng = v, None
        while node is not None:
            node = fl.parent.get(id(node))
            if isinstance(node, ast.For) and isinstance(node.iter, ast.Call) and isinstance(node.iter.func, ast.Name) and node.iter.func.id == "range":
                rng = node
                break
        # polarity of the started test on the path to this visit
        started_true = None
        node_ = v
        while node_ is not None:
            par_ = fl.parent.get(id(node_))
            if isinstance(par_, ast.If) and any(isinstance(m, ast.Attribute) and m.attr == "started" for m in ast.walk(par_.test)):
                neg_ = isinstance(par_.test, ast.UnaryOp) and isinstance(par_.test.op, ast.Not)
                in_body = any(x is node_ for b_ in par_.body for x in ast.walk(b_)) or node_ in par_.body
                started_true = (in_body != neg_)
                break
            node_ = par_
        if not reads_started:
            problems.append((v, "is emitted whether or not the trace has started (at least once even for a count of zero)"))
        elif rng is not None and started_true is False:
            problems.append((v, "is repeated `range(count)` times on the branch where the trace has NOT started, and emitted once where it has"))
        elif rng is None and started_true is True:
            problems.append((v, "is emitted exactly once although the trace has started (the loop count is ignored)"))
        elif rng is not None:
            a = rng.iter.args
            exact = len(a) == 1 and isinstance(a[0], ast.Attribute) and a[0].attr == "iterations" and isinstance(a[0].value, ast.Name) and a[0].value.id == loop
            if not exact:
                problems.append((v, f"is repeated `{ast.unparse(rng.iter)}` times, not `range({loop}.iterations)`"))
    if problems:
        v, why = problems[0]
        rep.violation("C03.5", cons, f"`{ast.unparse(v)}` {why}: the emulated unitary contains the body a different number of times than the program executes it", f"{vl.path}:{v.lineno}")
    else:
        rep.ok("C03.5", cons, "started: for _ in range(loop.iterations); not started: a single pass that looks for the trace start", vl.loc())


def run(ctx, rep):
    ix, T = ctx.ix, ctx.typer
    from .common import check_cached_mutables
    check_cached_mutables(ctx, rep, "C03.6", ["jaqalpaq.emulator", "jaqalpaq.core"])
    serializer_loop_count(ctx, rep)
    emu = ix.cls(EMU)
    ms = emu.methods.get("_make_subcircuit")
    if ms is None:
        raise AnalysisError("C03: UnitarySerializedEmulator._make_subcircuit vanished")
    rep.assume("the bit-twiddling sparse product itself (numerical) is not decided; these are structural necessary conditions only")

    # ------------------------------------------------------------ C03.1
    rep.rule("C03.1", "qubit operands reach the index arithmetic only through resolve_qubit", floor=1)
    cons = construct_of(ms, "qubit-operands")
    sinks = raw_index_sinks(ctx, ms)
    uses_resolve = any(isinstance(n, ast.Attribute) and n.attr == "resolve_qubit" for n in walk_no_nested(ms.node))
    if sinks:
        src, sink, desc = sorted(sinks, key=lambda x: x[1].lineno)[0]
        rep.violation("C03.1", cons, f"`{ast.unparse(src)}` (index into the alias, not the register) reaches {desc}: a gate written on an alias acts on the wrong physical qubit", f"{ms.path}:{sink.lineno}", witness="register r[3]\nmap a r[1:3]\nprepare_all\nPx a[0]\nmeasure_all")
    elif uses_resolve:
        rep.ok("C03.1", cons, "qubit positions come from resolve_qubit()", ms.loc())
    else:
        rep.undecided("C03.1", cons, "no qubit position source recognised", ms.loc())

    # ------------------------------------------------------------ C03.2
    rep.rule("C03.2", "every call of a gate's ideal unitary passes the classical arguments splatted positionally", floor=3)
    sites = unitary_call_sites(ctx)
    if not sites:
        raise AnalysisError("C03.2: no call of ideal_unitary found")
    for f, call in sites:
        proto = splat_protocol(call)
        cons = construct_of(f, f"ideal_unitary-call:{proto}")
        loc = f"{f.path}:{call.lineno}"
        if proto in ("splat", "none", "positional"):
            rep.ok("C03.2", cons, f"`{ast.unparse(call)}`", loc)
        elif proto == "sequence-unsplatted":
            rep.violation("C03.2", cons, f"`{ast.unparse(call)}` passes the argument sequence as ONE argument: the unitary function receives a tuple where it expects the classical parameters", loc)
        else:
            rep.undecided("C03.2", cons, f"`{ast.unparse(call)}`", loc)

    # ------------------------------------------------------------ C03.3
    rep.rule("C03.3", "classical and quantum arguments are separated by pairing definition parameters with statement arguments positionally", floor=1)
    cons = construct_of(ms, "parameter-pairing")
    fl = FuncFlow(ix, T, ms)
    loops = []
    for st in iter_stmts(ms.body):
        if isinstance(st, ast.For) and any(isinstance(n, ast.Attribute) and n.attr == "classical" for s in st.body for n in ast.walk(s)):
            # innermost such loop only
            if not any(isinstance(x, ast.For) and any(isinstance(n, ast.Attribute) and n.attr == "classical" for s2 in x.body for n in ast.walk(s2)) for s in st.body for x in ast.walk(s)):
                loops.append(st)
    if not loops:
        rep.undecided("C03.3", cons, "no loop separating classical from quantum arguments", ms.loc())
    for st in loops:
        it = st.iter
        loc = f"{ms.path}:{st.lineno}"
        ok = False
        why = ""
        if isinstance(it, ast.Call) and isinstance(it.func, ast.Name) and it.func.id == "zip" and len(it.args) == 2:
            a, b = it.args
            a_def = isinstance(a, ast.Attribute) and a.attr == "parameters"
            b_vals = isinstance(b, ast.Call) and isinstance(b.func, ast.Attribute) and b.func.attr == "values" and isinstance(b.func.value, ast.Attribute) and b.func.value.attr == "parameters"
            b_def = isinstance(b, ast.Attribute) and b.attr == "parameters"
            a_vals = isinstance(a, ast.Call) and isinstance(a.func, ast.Attribute) and a.func.attr == "values" and isinstance(a.func.value, ast.Attribute) and a.func.value.attr == "parameters"
            if (a_def and b_vals) or (a_vals and b_def):
                ok = True
                # the loop variable asked for `.classical` must be the one bound to the DEFINITION's parameters
                if isinstance(st.target, ast.Tuple) and len(st.target.elts) == 2 and all(isinstance(e, ast.Name) for e in st.target.elts):
                    names = [e.id for e in st.target.elts]
                    asked = {n.value.id for s_ in st.body for n in ast.walk(s_) if isinstance(n, ast.Attribute) and n.attr == "classical" and isinstance(n.value, ast.Name)}
                    def_pos = 0 if a_def else 1
                    if asked and names[def_pos] not in asked:
                        ok = False
                        why = f"`for {ast.unparse(st.target)} in {ast.unparse(it)}` binds `{names[1 - def_pos]}` (asked for .classical) to the statement's argument values and `{names[def_pos]}` to the definition's parameters: the two roles are exchanged"
            else:
                why = f"`{ast.unparse(it)}` does not pair definition.parameters with statement.parameters.values() directly (sorted/reversed/filtered views break the positional correspondence)"
        elif isinstance(it, ast.Attribute) and it.attr == "parameters":
            # keyed lookup by parameter name inside the loop
            keyed = any(isinstance(n, ast.Subscript) and isinstance(n.value, ast.Attribute) and n.value.attr == "parameters" and isinstance(n.slice, ast.Attribute) and n.slice.attr == "name" for s in st.body for n in ast.walk(s))
            ok = keyed
            why = "loop over definition parameters without a lookup of the statement argument by parameter name"
        else:
            why = f"pairing idiom not recognised: `{ast.unparse(it)}`"
        if ok:
            rep.ok("C03.3", cons, f"`{ast.unparse(it)}`", loc)
        elif "not recognised" in why:
            rep.undecided("C03.3", cons, why, loc)
        else:
            rep.violation("C03.3", cons, why, loc)
    # the collected operand lists keep the definition order (bit j of the gate matrix <-> j-th qubit argument)
    collected = set()
    for st in loops:
        for n in ast.walk(st):
            if isinstance(n, ast.Call) and isinstance(n.func, ast.Attribute) and n.func.attr == "append" and isinstance(n.func.value, ast.Name):
                collected.add(n.func.value.id)
    cons_o = construct_of(ms, "operand-order")
    reorder = None
    # a set()/sorted() that is only measured (`len(set(qind))`, a test for duplicates) re-orders nothing that is used
    only_measured = {id(a) for c in walk_no_nested(ms.node) if isinstance(c, ast.Call) and isinstance(c.func, ast.Name) and c.func.id == "len" for a in c.args}
    for n in walk_no_nested(ms.node):
        if id(n) in only_measured:
            continue
        if isinstance(n, ast.Call) and isinstance(n.func, ast.Attribute) and n.func.attr in ("sort", "reverse") and isinstance(n.func.value, ast.Name) and n.func.value.id in collected:
            reorder = n
        if isinstance(n, ast.Call) and isinstance(n.func, ast.Name) and n.func.id in ("sorted", "reversed", "set", "frozenset") and n.args and isinstance(n.args[0], ast.Name) and n.args[0].id in collected:
            reorder = n
    if collected:
        if reorder is not None:
            rep.violation("C03.3", cons_o, f"`{ast.unparse(reorder)}` re-orders the operands collected in definition order: bit j of the gate matrix no longer corresponds to the gate's j-th qubit argument (wrong result for gates that are not symmetric in their qubits, e.g. `CX q[2] q[0]`)", f"{ms.path}:{reorder.lineno}", witness="prepare_all\nPx q[2]\nCX q[2] q[0]\nmeasure_all")
        else:
            rep.ok("C03.3", cons_o, f"operand lists {sorted(collected)} are used in collection order", ms.loc())

    # order of application: the state update happens inside the loop over the serialised gates, in iteration order
    cons = construct_of(ms, "gate-order")
    ser = [st for st in iter_stmts(ms.body) if isinstance(st, ast.For) and any(cs.kind == "visit" and cs.node is st.iter for cs in T.callsites(ms))]
    if ser:
        rev = isinstance(ser[0].iter, ast.Call) and isinstance(ser[0].iter.func, ast.Name) and ser[0].iter.func.id in ("reversed", "sorted")
        rep.ok("C03.3", cons, "gates are applied in the order the trace serialiser yields them", f"{ms.path}:{ser[0].lineno}") if not rev else rep.violation("C03.3", cons, "the serialised gates are re-ordered before being applied", f"{ms.path}:{ser[0].lineno}")
    else:
        reord = [st for st in iter_stmts(ms.body) if isinstance(st, ast.For) and isinstance(st.iter, ast.Call) and isinstance(st.iter.func, ast.Name) and st.iter.func.id in ("reversed", "sorted") and any(cs.kind == "visit" and id(cs.node) in {id(x) for x in ast.walk(st.iter)} for cs in T.callsites(ms))]
        if reord:
            rep.violation("C03.3", cons, f"`{ast.unparse(reord[0].iter)}` re-orders the serialised gates before they are applied: U_1 ... U_k instead of U_k ... U_1", f"{ms.path}:{reord[0].lineno}")
        else:
            rep.undecided("C03.3", cons, "loop over the trace serialiser not recognised", ms.loc())

    # the state vector (and the probabilities computed from it) that is REPORTED is the accumulated one
    cons_sv = construct_of(ms, "reported-state")
    rets = [st for st in iter_stmts(ms.body) if isinstance(st, ast.Return) and st.value is not None]
    ctor = None
    for cs in T.callsites(ms):
        if cs.kind == "constructor" and isinstance(cs.node, ast.Call) and cs.classes and cs.classes[0].endswith("Subcircuit"):
            ctor = cs.node
    if ctor is None:
        rep.undecided("C03.3", cons_sv, "construction of the reported subcircuit not found", ms.loc())
    else:
        kw = {k.arg: k.value for k in ctor.keywords if k.arg}
        # the accumulator: the name subscript-assigned inside the gate loop (vec[i] += ..)
        acc = {n.target.value.id for n in walk_no_nested(ms.node) if isinstance(n, ast.AugAssign) and isinstance(n.target, ast.Subscript) and isinstance(n.target.value, ast.Name)}
        sv = kw.get("state_vector")
        pr = kw.get("probabilities")
        sv_ok = sv is not None and bool(names_in(sv) & acc)
        pr_ok = False
        if pr is not None:
            ids_, roots_ = fl.depends(pr)
            pr_ok = any(names_in(r_) & acc for r_ in [pr] + list(roots_))
        if sv_ok and pr_ok:
            rep.ok("C03.3", cons_sv, f"state_vector={ast.unparse(sv)} and probabilities derived from it are handed to the result", f"{ms.path}:{ctor.lineno}")
        else:
            rep.violation("C03.3", cons_sv, "the subcircuit result is built without the accumulated state vector" if not sv_ok else "the reported probabilities are not computed from the accumulated state vector", f"{ms.path}:{ctor.lineno}")

    # ------------------------------------------------------------ C03.4
    rep.rule("C03.4", "the backend only receives circuits that passed expand_subcircuits, fill_in_let and expand_macros", floor=1)
    run_f = ix.func(RUN)
    flr = FuncFlow(ix, T, run_f)
    cons = construct_of(run_f, "normalise-before-execute")
    backend_calls = []
    for n in walk_no_nested(run_f.node):
        if isinstance(n, ast.Call) and isinstance(n.func, ast.Name) and "backend" in n.func.id:
            backend_calls.append(n)
    if not backend_calls:
        rep.undecided("C03.4", cons, "no call of the backend object found", run_f.loc())
    for bc in backend_calls:
        if not bc.args:
            continue
        ids, roots = flr.depends(bc.args[0])
        applied = set()
        for cs in T.callsites(run_f):
            for name, q in PASSES.items():
                if any(t.qualname == q for t in cs.targets) and id(cs.node) in ids:
                    applied.add(name)
        missing = set(PASSES) - applied
        loc = f"{run_f.path}:{bc.lineno}"
        if missing:
            rep.violation("C03.4", cons, f"the circuit handed to the backend has not passed {sorted(missing)}: the emulator meets constants / macro calls / subcircuit blocks it does not evaluate", loc)
        else:
            rep.ok("C03.4", cons, "backend(expand_macros(fill_in_let(expand_subcircuits(circuit))))", loc)
    # gates without a unitary are skipped, not applied
    cons = construct_of(ms, "no-unitary-skipped")
    skip = any(isinstance(st, ast.If) and any(isinstance(n, ast.Attribute) and n.attr == "ideal_unitary" for n in ast.walk(st.test)) and any(isinstance(c, ast.Constant) and c.value is None for c in ast.walk(st.test)) and any(isinstance(s, ast.Continue) for s in st.body)
               and isinstance(st.test, ast.Compare) and isinstance(st.test.ops[0], ast.Is) for st in iter_stmts(ms.body))
    if skip:
        rep.ok("C03.4", cons, "`ideal_unitary is None` -> continue (idle gates and gates without a unitary leave the state unchanged)", ms.loc())
    else:
        rep.violation("C03.4", cons, "gates without an ideal unitary are not skipped before the state update", ms.loc())
