"""Clauses added after the fourth mutation sweep (900 mutants on the tree
after the third hunt wave).  Same conventions as sweep2: structural necessary
conditions, `undecided` for shapes that are not recognised, AnalysisError for
vanished anchors."""

from __future__ import annotations

import ast

from ..index import AnalysisError
from ..cfg import iter_stmts, walk_no_nested
from .common import construct_of, cls_construct
from .wave3 import _func, _method, _enclosing_ifs, _local_defs, _names
from .sweep2 import _cmp_sense, _none_test


def _nots_above(root, node):
    def go(e, k):
        if e is node:
            return k
        for c in ast.iter_child_nodes(e):
            r = go(c, k + (1 if isinstance(e, ast.UnaryOp) and isinstance(e.op, ast.Not) else 0))
            if r is not None:
                return r
        return None
    return go(root, 0) or 0


def _positive_conjunct(test, pred):
    """Is there a sub-expression satisfying pred that is a plain conjunct of
    `test` (reached through And only, under no `not`, in no `or`)?"""
    if pred(test):
        return True
    if isinstance(test, ast.BoolOp) and isinstance(test.op, ast.And):
        return any(_positive_conjunct(v, pred) for v in test.values)
    return False


# ---------------------------------------------------------------- C13

def collision_test_shape(ctx, rep, rule):
    ix = ctx.ix
    UQ = "jaqalpaq.core.algorithm.used_qubit_visitor.UsedQubitIndicesVisitor"
    mi = _method(ix, UQ, "merge_into")
    rep.rule(rule, "merge_into refuses an overlap only when asked to (`disjoint` defaults to False and is a conjunct of the test), and the disjoint merge of the base visitor is chosen by `validate_parallel and block.parallel`", floor=2)
    cons = construct_of(mi, "disjoint-flag")
    a = mi.node.args
    names = [x.arg for x in a.args]
    if "disjoint" not in names:
        rep.undecided(rule, cons, "no `disjoint` parameter", mi.loc())
    else:
        d = a.defaults[names.index("disjoint") - (len(names) - len(a.defaults))] if names.index("disjoint") >= len(names) - len(a.defaults) else None
        raises = [r for r in ast.walk(mi.node) if isinstance(r, ast.Raise)]
        tests = [t for r in raises for t, taken in _enclosing_ifs(mi.node, r) if taken]
        is_flag = lambda e: isinstance(e, ast.Name) and e.id == "disjoint"
        if d is None or not (isinstance(d, ast.Constant) and d.value is False):
            rep.violation(rule, cons, f"`disjoint` defaults to {ast.unparse(d) if d is not None else 'nothing'}: every merge -- sequential statements, macro bodies -- refuses two uses of one qubit, so any program that touches a qubit twice is rejected", mi.loc(), witness="prepare_all; Px q[0]; Px q[0]; measure_all")
        elif not tests:
            rep.violation(rule, cons, "merge_into never refuses an overlap", mi.loc())
        elif all(_positive_conjunct(t, is_flag) for t in tests):
            rep.ok(rule, cons, "`disjoint and (tgt & src)`; default False", mi.loc())
        else:
            rep.violation(rule, cons, f"`{ast.unparse(tests[0])}`: the overlap is refused whether or not the caller asked for a disjoint merge", f"{mi.path}:{tests[0].lineno}")
    vb = _method(ix, UQ, "visit_BlockStatement")
    cons = construct_of(vb, "disjoint-branch")
    chosen = None
    for st in ast.walk(vb.node):
        if isinstance(st, ast.If) and any(isinstance(k, ast.keyword) and k.arg == "disjoint" and isinstance(k.value, ast.Constant) and k.value.value is True for b in st.body for k in ast.walk(b)):
            chosen = st
    if chosen is None:
        rep.ok(rule, cons, "the base visitor has no unconditional disjoint merge", vb.loc())
    else:
        t = chosen.test
        par = lambda e: isinstance(e, ast.Attribute) and e.attr == "parallel"
        if _positive_conjunct(t, par):
            rep.ok(rule, cons, f"`{ast.unparse(t)}`", f"{vb.path}:{chosen.lineno}")
        else:
            rep.violation(rule, cons, f"`{ast.unparse(t)}` selects the disjoint merge for blocks that are not parallel", f"{vb.path}:{chosen.lineno}")


def fundamental_registers_source(ctx, rep, rule):
    ix = ctx.ix
    m = _method(ix, "jaqalpaq.core.circuit.Circuit", "fundamental_registers")
    rep.rule(rule, "Circuit.fundamental_registers enumerates the circuit's registers and keeps the fundamental ones (the `all` of a busy gate, the emulator's qubit count and the measured qubits come from it)", floor=1)
    cons = construct_of(m, "source")
    src = ast.unparse(m.node)
    attrs = {n.attr for n in ast.walk(m.node) if isinstance(n, ast.Attribute)}
    if ("registers" in attrs or "_registers" in attrs) and "fundamental" in attrs and "constants" not in attrs:
        pos = not any(isinstance(u, ast.UnaryOp) and isinstance(u.op, ast.Not) and any(isinstance(x, ast.Attribute) and x.attr == "fundamental" for x in ast.walk(u)) for u in ast.walk(m.node))
        if pos:
            rep.ok(rule, cons, "self.registers filtered by .fundamental", m.loc())
        else:
            rep.violation(rule, cons, "keeps the registers that are NOT fundamental", m.loc())
    else:
        rep.violation(rule, cons, f"does not enumerate self.registers filtered by .fundamental (reads {sorted(attrs)}): busy gates, the qubit count and measured qubits are computed from the wrong table", m.loc())


def parallel_guard_polarity(ctx, rep, rule):
    ix = ctx.ix
    vb = _method(ix, "jaqalpaq.core.algorithm.walkers.DiscoverSubcircuits", "visit_BlockStatement")
    rep.rule(rule, "the refusal of prepare/measure next to other parallel branches applies to parallel blocks only (`block.parallel` is a positive conjunct) and fires when the state DID change (`is not` / `!=`)", floor=1)
    cons = construct_of(vb, "parallel-guard")
    found = False
    for r in ast.walk(vb.node):
        if not isinstance(r, ast.Raise):
            continue
        ctrl = [(t, taken) for t, taken in _enclosing_ifs(vb.node, r)]
        if not any("parallel" in ast.unparse(t) for t, _ in ctrl):
            continue
        found = True
        par = lambda e: isinstance(e, ast.Attribute) and e.attr == "parallel"
        outer = [t for t, taken in ctrl if "parallel" in ast.unparse(t)]
        ok_par = all(taken for _, taken in ctrl) and all(_positive_conjunct(t, par) for t in outer)
        # the state comparisons
        cmps = [c for t, _ in ctrl for c in ast.walk(t) if isinstance(c, ast.Compare) and ("before" in ast.unparse(c) or "current" in ast.unparse(c) or "subcircuits" in ast.unparse(c))]
        wrong = [c for c in cmps if isinstance(c.ops[0], (ast.Is, ast.Eq)) and not isinstance(c.comparators[0], ast.Constant)]
        loc = f"{vb.path}:{r.lineno}"
        if not ok_par:
            rep.violation(rule, cons, f"`{ast.unparse(outer[0])}` does not restrict the refusal to parallel blocks with several branches: ordinary sequential programs (prepare_all; ...; measure_all) are rejected, or parallel ones are not checked", loc)
        elif wrong:
            rep.violation(rule, cons, f"`{ast.unparse(wrong[0])}` fires when the state did NOT change: every ordinary branch of a parallel block is refused and the ones that open or close a trace pass", loc)
        else:
            rep.ok(rule, cons, "parallel blocks only; on a change of state", loc)
    if not found:
        rep.undecided(rule, cons, "no refusal guarded by block.parallel", vb.loc())


# ---------------------------------------------------------------- C08

def discovery_bookkeeping(ctx, rep, rule):
    ix = ctx.ix
    DS = "jaqalpaq.core.algorithm.walkers.DiscoverSubcircuits"
    TV = "jaqalpaq.core.algorithm.walkers.TraceVisitor"
    vg = _method(ix, DS, "visit_GateStatement")
    vb = _method(ix, DS, "visit_BlockStatement")
    tc = _method(ix, TV, "visit_Circuit")
    rep.rule(rule, "a closed trace is recorded (appended to the list of subcircuits); the loop-body refusals of discovery fire under their positive conditions; the trace walker gives up at once only when there are NO traces; the output parser makes one subcircuit per trace", floor=4)
    # closing branch appends
    cons = construct_of(vg, "records-trace")
    closing = [st for st in ast.walk(vg.node) if isinstance(st, ast.If) and "m_gate" in ast.unparse(st.test)]
    if not closing:
        rep.undecided(rule, cons, "closing branch not recognised", vg.loc())
    else:
        st = closing[0]
        if any(isinstance(c, ast.Call) and isinstance(c.func, ast.Attribute) and c.func.attr == "append" and "subcircuits" in ast.unparse(c.func.value) for b in st.body for c in ast.walk(b)):
            rep.ok(rule, cons, "self.subcircuits.append(self.current)", f"{vg.path}:{st.lineno}")
        else:
            rep.violation(rule, cons, "the measure gate closes the trace but it is not added to the list of subcircuits: no subcircuit is ever reported, the program runs and yields no readouts", f"{vg.path}:{st.lineno}")
    # refusals in loop bodies
    cons = construct_of(vb, "loop-body-refusals")
    n = 0
    bad = None
    for r in ast.walk(vb.node):
        if not isinstance(r, ast.Raise):
            continue
        ctrl = _enclosing_ifs(vb.node, r)
        if not any("reps" in ast.unparse(t) for t, _ in ctrl):
            continue
        n += 1
        for t, taken in ctrl:
            if "reps" not in ast.unparse(t):
                continue
            if not taken or isinstance(t, ast.UnaryOp) or (isinstance(t, ast.BoolOp) and isinstance(t.op, ast.Or)):
                bad = t
            for c in ast.walk(t):
                if isinstance(c, ast.Compare) and "reps" in ast.unparse(c) and not isinstance(c.ops[0], ast.NotEq):
                    bad = t
                if isinstance(c, ast.Compare) and "open_at_entry" in ast.unparse(c) and not isinstance(c.ops[0], ast.IsNot):
                    bad = t
                if isinstance(c, ast.Compare) and "count" in _names(c) and not isinstance(c.ops[0], ast.NotEq):
                    bad = t
                if isinstance(c, ast.Compare) and isinstance(c.comparators[0], ast.Constant) and c.comparators[0].value is None and "current" in ast.unparse(c.left) and not isinstance(c.ops[0], ast.IsNot):
                    bad = t
    if n == 0:
        rep.undecided(rule, cons, "no refusal depending on the repetition count", vb.loc())
    elif bad is not None:
        rep.violation(rule, cons, f"`{ast.unparse(bad)[:100]}` has the wrong sense: bodies that run exactly once (every ordinary block) are refused and repeated ones that close or open a trace are accepted", f"{vb.path}:{bad.lineno}")
    else:
        rep.ok(rule, cons, f"{n} refusals under `reps != 1 and ...`", vb.loc())
    # the trace walker's empty case
    cons = construct_of(tc, "no-traces")
    early = [st for st in iter_stmts(tc.body) if isinstance(st, ast.If) and any(isinstance(s, ast.Return) and s.value is None for s in st.body)]
    if not early:
        rep.ok(rule, cons, "no early return", tc.loc())
    else:
        t = early[0].test
        sense = _cmp_sense(t)
        zero = any(isinstance(c, ast.Constant) and c.value == 0 for c in ast.walk(t))
        falsy = isinstance(t, ast.UnaryOp) and isinstance(t.op, ast.Not)
        if (sense == "eq" and zero) or falsy:
            rep.ok(rule, cons, f"`{ast.unparse(t)}`", f"{tc.path}:{early[0].lineno}")
        elif sense is None:
            rep.undecided(rule, cons, f"`{ast.unparse(t)}`", f"{tc.path}:{early[0].lineno}")
        else:
            rep.violation(rule, cons, f"`{ast.unparse(t)}`: the walker returns at once when there ARE traces (no readout is ever produced) and walks an empty list otherwise", f"{tc.path}:{early[0].lineno}")
    # one subcircuit per trace in the output parser
    init = _method(ix, "jaqalpaq.core.result.OutputParser", "__init__")
    cons = construct_of(init, "subcircuit-per-trace")
    loops = [st for st in iter_stmts(init.body) if isinstance(st, ast.For) and "traces" in ast.unparse(st.iter)]
    ok = any(isinstance(c, ast.Call) and isinstance(c.func, ast.Attribute) and c.func.attr == "append" and "subcircuits" in ast.unparse(c.func.value) for st in loops for c in ast.walk(st))
    comp = any(isinstance(st, ast.Assign) and isinstance(st.value, ast.ListComp) and "traces" in ast.unparse(st.value) and any(isinstance(t, ast.Attribute) and t.attr == "subcircuits" for t in st.targets) for st in iter_stmts(init.body))
    if ok or comp:
        rep.ok(rule, cons, "one ReadoutSubcircuit per trace", init.loc())
    else:
        rep.violation(rule, cons, "no subcircuit object is made per trace: process_trace indexes an empty list", init.loc())


# ---------------------------------------------------------------- slices / defaults

def slice_default_values(ctx, rep, rule):
    ix = ctx.ix
    rep.rule(rule, "the default of an absent slice bound is start 0 and step 1", floor=4)
    n = 0
    for f in ix.functions.values():
        if f.module not in ("jaqalpaq.core.register", "jaqalpaq.core.circuitbuilder") or isinstance(f.node, ast.Lambda):
            continue
        for st in walk_no_nested(f.node):
            if not (isinstance(st, ast.Assign) and len(st.targets) == 1 and isinstance(st.targets[0], ast.Name) and st.targets[0].id in ("start", "step")):
                continue
            x = st.targets[0].id
            want = 0 if x == "start" else 1
            v = st.value
            consts = []
            if isinstance(v, ast.Constant) and isinstance(v.value, int) and not isinstance(v.value, bool):
                consts = [v]
            elif isinstance(v, ast.BoolOp) and isinstance(v.op, ast.Or):
                consts = [e for e in v.values if isinstance(e, ast.Constant)]
            elif isinstance(v, ast.IfExp):
                consts = [e for e in (v.body, v.orelse) if isinstance(e, ast.Constant)]
            for c in consts:
                n += 1
                cons = construct_of(f, f"default-{x}")
                if c.value == want:
                    rep.ok(rule, cons, f"{x} defaults to {want}", f"{f.path}:{st.lineno}")
                else:
                    rep.violation(rule, cons, f"`{ast.unparse(st)}`: an absent {x} becomes {c.value}, not {want}: `map a q[:2]` starts at the wrong qubit / a slice without step has no elements or raises", f"{f.path}:{st.lineno}")
    if n < 4:
        raise AnalysisError(f"{rule}: only {n} slice defaults found (7 on the pinned tree)")


# ---------------------------------------------------------------- C20

def eq_conjunction(ctx, rep, rule):
    ix, T = ctx.ix, ctx.typer
    from .c20 import operand_aliases
    rep.rule(rule, "the result of an __eq__ that compares several fields is their conjunction (never `or`), and the guard under which Register.__eq__ falls back on `==` requires BOTH ends to be registers for the walk to continue", floor=8)
    n = 0
    for k in T.ir_classes:
        eq = ix.classes[k].methods.get("__eq__")
        if eq is None:
            continue
        lefts, rights = operand_aliases(eq)
        n += 1
        cons = cls_construct(ix, k, "__eq__:conjunction")
        bad = None
        for r in walk_no_nested(eq.node):
            if isinstance(r, ast.Return) and r.value is not None:
                for b in ast.walk(r.value):
                    if isinstance(b, ast.BoolOp) and isinstance(b.op, ast.Or):
                        cmps = [v for v in b.values if isinstance(v, ast.Compare) and any(isinstance(x, ast.Name) and x.id in lefts for x in ast.walk(v)) and any(isinstance(x, ast.Name) and x.id in rights for x in ast.walk(v))]
                        if len(cmps) >= 2:
                            bad = b
        if bad is not None:
            rep.violation(rule, cons, f"`{ast.unparse(bad)[:90]}`: objects that agree in ONE field compare equal (a parameter equals any other of its kind, whatever its name)", f"{eq.path}:{bad.lineno}")
        else:
            rep.ok(rule, cons, "no disjunction of field comparisons", eq.loc())
    if n < 8:
        raise AnalysisError(f"{rule}: only {n} __eq__ methods")
    # the Register walk
    R = "jaqalpaq.core.register.Register"
    eq = _method(ix, R, "__eq__")
    cons = construct_of(eq, "walk-guard")
    guards = [st for st in ast.walk(eq.node) if isinstance(st, ast.If) and ast.unparse(st.test).count("isinstance") >= 2 and "Register" in ast.unparse(st.test)]
    if not guards:
        rep.ok(rule, cons, "no two-sided isinstance guard", eq.loc())
    for g in guards:
        t = g.test
        neg = isinstance(t, ast.UnaryOp) and isinstance(t.op, ast.Not)
        inner = t.operand if neg else t
        is_and = isinstance(inner, ast.BoolOp) and isinstance(inner.op, ast.And)
        is_or = isinstance(inner, ast.BoolOp) and isinstance(inner.op, ast.Or)
        returns = any(isinstance(s, ast.Return) for s in g.body)
        # leave the walk (return a == b) unless both are registers
        if returns and ((neg and is_and) or (not neg and is_or and all(isinstance(v, ast.UnaryOp) for v in inner.values))):
            rep.ok(rule, cons, f"`{ast.unparse(t)}` ends the walk", f"{eq.path}:{g.lineno}")
        elif not returns and not neg and is_and:
            rep.ok(rule, cons, f"`{ast.unparse(t)}` continues the walk", f"{eq.path}:{g.lineno}")
        else:
            rep.violation(rule, cons, f"`if {ast.unparse(t)}: return ...`: the walk along the alias chains ends after one link when both ends are registers (aliases of different registers compare equal if their slices agree), or goes on with an end that is not a register", f"{eq.path}:{g.lineno}")


# ---------------------------------------------------------------- C16: argument order

BUILTIN_ORDER = {"isinstance": 1, "issubclass": 1, "getattr": 0, "hasattr": 0, "setattr": 0}


def argument_order(ctx, rep, rule):
    """Swapped arguments that can be read off names: isinstance(Class, obj),
    getattr("name", obj), and a call whose i-th argument is named like the
    callee's j-th parameter while the j-th argument is named like the i-th."""
    ix, T = ctx.ix, ctx.typer
    rep.rule(rule, "arguments are passed in the callee's order where names tell: a class never comes first in isinstance(), a string literal never first in getattr(), and two arguments named like each other's parameters are not exchanged (such calls raise TypeError -- or silently mix up data -- instead of doing their job)", floor=1)
    n = 0

    def terminal(e):
        if isinstance(e, ast.Name):
            return e.id
        if isinstance(e, ast.Attribute):
            return e.attr
        if isinstance(e, ast.BinOp):
            for s in (e.left, e.right):
                t = terminal(s)
                if t:
                    return t
        return None
    for f in ix.functions.values():
        if isinstance(f.node, ast.Lambda) or f.module.startswith("jaqalpaq.emulator.pygsti"):
            continue
        sites = {}
        try:
            for cs in T.callsites(f):
                if isinstance(cs.node, ast.Call):
                    sites[id(cs.node)] = cs
        except Exception:
            sites = {}
        for c in walk_no_nested(f.node):
            if not isinstance(c, ast.Call):
                continue
            fn = c.func
            if isinstance(fn, ast.Name) and fn.id in ("isinstance", "issubclass") and len(c.args) == 2:
                n += 1
                a0 = c.args[0]
                r0 = ix.resolve_name(f.module, a0.id, f) if isinstance(a0, ast.Name) else None
                if (r0 and r0[0] == "class") or isinstance(a0, ast.Tuple):
                    rep.violation(rule, construct_of(f, f"{fn.id}-order"), f"`{ast.unparse(c)}`: the class comes first (TypeError: arg 2 must be a type)", f"{f.path}:{c.lineno}")
                continue
            if isinstance(fn, ast.Name) and fn.id in ("getattr", "hasattr", "setattr") and len(c.args) >= 2:
                n += 1
                if isinstance(c.args[0], (ast.Constant, ast.JoinedStr)) and not isinstance(c.args[1], (ast.Constant, ast.JoinedStr)):
                    rep.violation(rule, construct_of(f, f"{fn.id}-order"), f"`{ast.unparse(c)}`: the attribute name comes first", f"{f.path}:{c.lineno}")
                continue
            cs = sites.get(id(c))
            if cs is None or len(c.args) < 2 or any(isinstance(a, ast.Starred) for a in c.args):
                continue
            targets = list(getattr(cs, "targets", []) or [])
            if getattr(cs, "kind", "") == "constructor":
                targets = [ix.find_method(k, "__init__") for k in (cs.classes or [])]
                targets = [t for t in targets if t is not None]
            if len(targets) != 1:
                continue
            t = targets[0]
            params = t.params[1:] if (t.cls and not t.is_staticmethod) else t.params
            if len(params) < len(c.args):
                continue
            n += 1
            names = [terminal(a) for a in c.args]
            for i in range(len(c.args)):
                for j in range(i + 1, len(c.args)):
                    ni, nj = (names[i] or "").lstrip("_"), (names[j] or "").lstrip("_")
                    pi, pj = params[i].lstrip("_"), params[j].lstrip("_")
                    both = ni and nj and ni != nj and ni == pj and nj == pi
                    # one argument carries the name of the OTHER position's parameter and neither sits under its own name
                    one = ni != nj and ((ni == pj and nj != pj and ni != pi) or (nj == pi and ni != pi and nj != pj))
                    if both or one:
                        rep.violation(rule, construct_of(f, f"call:{t.name}"), f"`{ast.unparse(c)[:80]}` passes `{names[i]}` where `{t.name}` expects `{params[i]}` and `{names[j]}` where it expects `{params[j]}`", f"{f.path}:{c.lineno}")
    if n < 100:
        raise AnalysisError(f"{rule}: only {n} calls with a known argument order analysed")
    rep.ok(rule, "jaqalpaq:argument-order", f"{n} calls analysed")


# ---------------------------------------------------------------- small polarity clauses

def stretch_wrapper_polarity(ctx, rep, rule):
    ix = ctx.ix
    f = _func(ix, "jaqalpaq.core.stretch.stretched_gates")
    cons = construct_of(f, "unitary-wrapper")
    for st in ast.walk(f.node):
        if isinstance(st, ast.If) and "ideal_unitary" in ast.unparse(st.test):
            makes = lambda body: any(isinstance(x, ast.Lambda) or isinstance(x, ast.FunctionDef) for b in body for x in ast.walk(b))
            t = st.test
            neg = isinstance(t, ast.UnaryOp) and isinstance(t.op, ast.Not)
            none_eq = isinstance(t, ast.Compare) and isinstance(t.ops[0], (ast.Is, ast.Eq))
            present_branch = st.orelse if (neg or none_eq) else st.body
            if makes(present_branch):
                rep.ok(rule, cons, "the wrapper is made for gates that have a unitary", f"{f.path}:{st.lineno}")
            elif makes(st.body) or makes(st.orelse):
                rep.violation(rule, cons, f"`if {ast.unparse(t)}`: gates WITH an ideal unitary get none in their stretched variant (it is not emulated) and gates without one get a wrapper around None", f"{f.path}:{st.lineno}")
            return
    rep.undecided(rule, cons, "no test of ideal_unitary", f.loc())
    # (suffix default)


def suffix_default_polarity(ctx, rep, rule):
    ix = ctx.ix
    f = _func(ix, "jaqalpaq.core.stretch.stretched_gates")
    cons = construct_of(f, "suffix-default")
    for st in ast.walk(f.node):
        if isinstance(st, ast.If) and "suffix" in _names(st.test) and any(isinstance(a, ast.Assign) and any(isinstance(t, ast.Name) and t.id == "suffix" for t in a.targets) for a in st.body):
            t = st.test
            s = None
            e = t
            neg = False
            while isinstance(e, ast.UnaryOp) and isinstance(e.op, ast.Not):
                neg = not neg
                e = e.operand
            if isinstance(e, ast.Compare) and isinstance(e.comparators[0], ast.Constant) and e.comparators[0].value is None:
                s = isinstance(e.ops[0], (ast.Is, ast.Eq)) != neg
            if s is True:
                rep.ok(rule, cons, "`if suffix is None: suffix = \"\"`", f"{f.path}:{st.lineno}")
            elif s is False:
                rep.violation(rule, cons, f"`if {ast.unparse(t)}`: a suffix that IS given is replaced by the empty string (every variant overwrites its parent) and None is concatenated to a name", f"{f.path}:{st.lineno}")
            else:
                rep.undecided(rule, cons, f"`{ast.unparse(t)}`", f"{f.path}:{st.lineno}")
            return
    rep.ok(rule, cons, "no default assignment of suffix under a test", f.loc())


def identifier_regex_used(ctx, rep, rule):
    ix = ctx.ix
    f = _func(ix, "jaqalpaq.core.identifier.is_identifier_valid")
    cons = construct_of(f, "regex")
    if any(isinstance(c, ast.Call) and isinstance(c.func, ast.Attribute) and c.func.attr in ("match", "fullmatch") for c in ast.walk(f.node)):
        rep.ok(rule, cons, "the name is matched against the identifier regex", f.loc())
    else:
        rep.violation(rule, cons, "is_identifier_valid never matches the name against the identifier regex: any string that is not a keyword is a valid identifier", f.loc())


def constant_branch_polarity(ctx, rep, rule):
    ix = ctx.ix
    f = _method(ix, "jaqalpaq.core.algorithm.fill_in_let.LetFiller", "resolve_constant")
    cons = construct_of(f, "constant-branch")
    for st in ast.walk(f.node):
        if isinstance(st, ast.If) and "Constant" in ast.unparse(st.test) and "isinstance" in ast.unparse(st.test) and any(isinstance(c, ast.Call) and isinstance(c.func, ast.Attribute) and c.func.attr == f.name for b in st.body for c in ast.walk(b)):
            is_const_test = lambda e: isinstance(e, ast.Call) and isinstance(e.func, ast.Name) and e.func.id == "isinstance" and "Constant" in ast.unparse(e.args[1])
            if _positive_conjunct(st.test, is_const_test):
                rep.ok(rule, cons, f"`{ast.unparse(st.test)}`", f"{f.path}:{st.lineno}")
            elif not any(isinstance(u, ast.UnaryOp) and isinstance(u.op, ast.Not) and any(is_const_test(x) for x in ast.walk(u)) for u in ast.walk(st.test)):
                rep.undecided(rule, cons, f"`{ast.unparse(st.test)}`", f"{f.path}:{st.lineno}")
            else:
                rep.violation(rule, cons, f"`{ast.unparse(st.test)}`: the resolver recurses on values that are NOT constants (and refuses constants of constants)", f"{f.path}:{st.lineno}")
            return
    rep.undecided(rule, cons, "no recursion on a Constant-valued constant", f.loc())


def relinker_changed_polarity(ctx, rep, rule):
    ix = ctx.ix
    V = "jaqalpaq.core.circuitbuilder.RebuildMacroInContextVisitor"
    if V not in ix.classes:
        raise AnalysisError("anchor vanished: RebuildMacroInContextVisitor")
    rep.rule(rule, "in the builder's relinker a handler hands back the rebuilt node when something below it changed and the original only when nothing did; a native gate is returned unchanged only when its definition IS the circuit's", floor=3)
    n = 0
    for name, m in ix.classes[V].methods.items():
        if not name.startswith("visit_"):
            continue
        for st in iter_stmts(m.body):
            if isinstance(st, ast.If) and isinstance(st.test, (ast.Name, ast.UnaryOp)) and "changed" in _names(st.test):
                n += 1
                cons = construct_of(m, "changed-flag")
                neg = isinstance(st.test, ast.UnaryOp)
                new_branch, old_branch = (st.orelse, st.body) if neg else (st.body, st.orelse)
                builds = lambda body: any(isinstance(r, ast.Return) and isinstance(r.value, ast.Tuple) and len(r.value.elts) == 2 and isinstance(r.value.elts[1], ast.Call) for r in body)
                keeps = lambda body: any(isinstance(r, ast.Return) and isinstance(r.value, ast.Tuple) and len(r.value.elts) == 2 and isinstance(r.value.elts[1], ast.Name) for r in body)
                if builds(new_branch) and keeps(old_branch):
                    rep.ok(rule, cons, "changed -> rebuilt node", f"{m.path}:{st.lineno}")
                elif builds(old_branch) and keeps(new_branch):
                    rep.violation(rule, cons, f"`if {ast.unparse(st.test)}` returns the ORIGINAL node when something below it changed: relinked statements inside this node are thrown away (macro calls in a loop keep their stale definitions)", f"{m.path}:{st.lineno}")
                else:
                    rep.undecided(rule, cons, "branches not recognised", f"{m.path}:{st.lineno}")
    vg = _method(ix, V, "visit_GateStatement")
    cons = construct_of(vg, "identity-test")
    for st in ast.walk(vg.node):
        if isinstance(st, ast.If) and any(isinstance(c, ast.Compare) and isinstance(c.ops[0], (ast.Is, ast.IsNot)) and ".gate_def" in ast.unparse(c) for c in ast.walk(st.test)):
            n += 1
            c = [c for c in ast.walk(st.test) if isinstance(c, ast.Compare)][0]
            same = isinstance(c.ops[0], ast.Is) != (_nots_above(st.test, c) % 2 == 1)
            keeps = any(isinstance(r, ast.Return) and isinstance(r.value, ast.Tuple) and isinstance(r.value.elts[0], ast.Constant) and r.value.elts[0].value is False for r in st.body)
            if same == keeps:
                rep.ok(rule, cons, "unchanged when the definition is the circuit's own", f"{vg.path}:{st.lineno}")
            else:
                rep.violation(rule, cons, f"`if {ast.unparse(st.test)}`: a gate is returned unchanged when its definition is NOT the circuit's (made-up definitions survive) and rebuilt when it already is", f"{vg.path}:{st.lineno}")
    if n < 3:
        raise AnalysisError(f"{rule}: only {n} tests found in the relinker")


def _rule_then(fn, text, floor=1):
    def run(ctx, rep, rule):
        rep.rule(rule, text, floor=floor)
        fn(ctx, rep, rule)
    return run


EXTRA = {
    "C13": [(collision_test_shape, "C13.15"), (fundamental_registers_source, "C13.16"), (parallel_guard_polarity, "C13.17"), (relinker_changed_polarity, "C13.18")],
    "C03": [(fundamental_registers_source, "C03.9")],
    "C08": [(discovery_bookkeeping, "C08.12")],
    "C06": [(slice_default_values, "C06.15")],
    "C14": [(slice_default_values, "C14.8")],
    "C20": [(eq_conjunction, "C20.11")],
    "C16": [(argument_order, "C16.22")],
    "C18": [(_rule_then(stretch_wrapper_polarity, "the unitary wrapper of a stretched gate is made for gates that have an ideal unitary"), "C18.11"),
            (_rule_then(suffix_default_polarity, "the suffix default applies when no suffix is given"), "C18.12")],
    "C01": [(_rule_then(identifier_regex_used, "is_identifier_valid matches the name against the identifier regex"), "C01.14")],
    "C05": [(_rule_then(constant_branch_polarity, "the resolver recurses on constants whose value is a constant (positive isinstance)"), "C05.15")],
}
