"""Clauses added after the fourth mutation sweep (900 mutants on the tree
after the third hunt wave).  Same conventions as sweep2: structural necessary
conditions, `undecided` for shapes that are not recognised, AnalysisError for
vanished anchors."""

from __future__ import annotations

import ast

from ..index import AnalysisError
from ..cfg import iter_stmts, walk_no_nested
from .common import construct_of, cls_construct
from .wave3 import _func, _method, _enclosing_ifs, _local_defs, _names
from .sweep2 import _cmp_sense, _none_test


def _nots_above(root, node):
    def go(e, k):
        if e is node:
            return k
        for c in ast.iter_child_nodes(e):
            r = go(c, k + (1 if isinstance(e, ast.UnaryOp) and isinstance(e.op, ast.Not) else 0))
            if r is not None:
                return r
        return None
    return go(root, 0) or 0


def _positive_conjunct(test, pred):
    """Is there a sub-expression satisfying pred that is a plain conjunct of
    `test` (reached through And only, under no `not`, in no `or`)?"""
    if pred(test):
        return True
    if isinstance(test, ast.BoolOp) and isinstance(test.op, ast.And):
        return any(_positive_conjunct(v, pred) for v in test.values)
    return False


# ---------------------------------------------------------------- C13

def collision_test_shape(ctx, rep, rule):
    ix = ctx.ix
    UQ = "jaqalpaq.core.algorithm.used_qubit_visitor.UsedQubitIndicesVisitor"
    mi = _method(ix, UQ, "merge_into")
    rep.rule(rule, "merge_into refuses an overlap only when asked to (`disjoint` defaults to False and is a conjunct of the test), and the disjoint merge of the base visitor is chosen by `validate_parallel and block.parallel`", floor=2)
    cons = construct_of(mi, "disjoint-flag")
    a = mi.node.args
    names = [x.arg for x in a.args]
    if "disjoint" not in names:
        rep.undecided(rule, cons, "no `disjoint` parameter", mi.loc())
    else:
        d = a.defaults[names.index("disjoint") - (len(names) - len(a.defaults))] if names.index("disjoint") >= len(names) - len(a.defaults) else None
        raises = [r for r in ast.walk(mi.node) if isinstance(r, ast.Raise)]
        tests = [t for r in raises for t, taken in _enclosing_ifs(mi.node, r) if taken]
        is_flag = lambda e: isinstance(e, ast.Name) and e.id == "disjoint"
        if d is None or not (isinstance(d, ast.Constant) and d.value is False):
            rep.violation(rule, cons, f"`disjoint` defaults to {ast.unparse(d) if d is not None else 'nothing'}: every merge -- sequential statements, macro bodies -- refuses two uses of one qubit, so any program that touches a qubit twice is rejected", mi.loc(), witness="prepare_all; Px q[0]; Px q[0]; measure_all")
        elif not tests:
            rep.violation(rule, cons, "merge_into never refuses an overlap", mi.loc())
        elif all(_positive_conjunct(t, is_flag) for t in tests):
            rep.ok(rule, cons, "`disjoint and (tgt & src)`; default False", mi.loc())
        else:
            rep.violation(rule, cons, f"`{ast.unparse(tests[0])}`: the overlap is refused whether or not the caller asked for a disjoint merge", f"{mi.path}:{tests[0].lineno}")
    vb = _method(ix, UQ, "visit_BlockStatement")
    cons = construct_of(vb, "disjoint-branch")
    chosen = None
    for st in ast.walk(vb.node):
        if isinstance(st, ast.If) and any(isinstance(k, ast.keyword) and k.arg == "disjoint" and isinstance(k.value, ast.Constant) and k.value.value is True for b in st.body for k in ast.walk(b)):
            chosen = st
    if chosen is None:
        rep.ok(rule, cons, "the base visitor has no unconditional disjoint merge", vb.loc())
    else:
        t = chosen.test
        par = lambda e: isinstance(e, ast.Attribute) and e.attr == "parallel"
        if _positive_conjunct(t, par):
            rep.ok(rule, cons, f"`{ast.unparse(t)}`", f"{vb.path}:{chosen.lineno}")
        else:
            rep.violation(rule, cons, f"`{ast.unparse(t)}` selects the disjoint merge for blocks that are not parallel", f"{vb.path}:{chosen.lineno}")


def fundamental_registers_source(ctx, rep, rule):
    ix = ctx.ix
    m = _method(ix, "jaqalpaq.core.circuit.Circuit", "fundamental_registers")
    rep.rule(rule, "Circuit.fundamental_registers enumerates the circuit's registers and keeps the fundamental ones (the `all` of a busy gate, the emulator's qubit count and the measured qubits come from it)", floor=1)
    cons = construct_of(m, "source")
    src = ast.unparse(m.node)
    attrs = {n.attr for n in ast.walk(m.node) if isinstance(n, ast.Attribute)}
    if ("registers" in attrs or "_registers" in attrs) and "fundamental" in attrs and "constants" not in attrs:
        pos = not any(isinstance(u, ast.UnaryOp) and isinstance(u.op, ast.Not) and any(isinstance(x, ast.Attribute) and x.attr == "fundamental" for x in ast.walk(u)) for u in ast.walk(m.node))
        if pos:
            rep.ok(rule, cons, "self.registers filtered by .fundamental", m.loc())
        else:
            rep.violation(rule, cons, "keeps the registers that are NOT fundamental", m.loc())
    else:
        rep.violation(rule, cons, f"does not enumerate self.registers filtered by .fundamental (reads {sorted(attrs)}): busy gates, the qubit count and measured qubits are computed from the wrong table", m.loc())


def parallel_guard_polarity(ctx, rep, rule):
    ix = ctx.ix
    vb = _method(ix, "jaqalpaq.core.algorithm.walkers.DiscoverSubcircuits", "visit_BlockStatement")
    rep.rule(rule, "the refusal of prepare/measure next to other parallel branches applies to parallel blocks only (`block.parallel` is a positive conjunct) and fires when the state DID change (`is not` / `!=`)", floor=1)
    cons = construct_of(vb, "parallel-guard")
    found = False
    for r in ast.walk(vb.node):
        if not isinstance(r, ast.Raise):
            continue
        ctrl = [(t, taken) for t, taken in _enclosing_ifs(vb.node, r)]
        if not any("parallel" in ast.unparse(t) for t, _ in ctrl):
            continue
        found = True
        par = lambda e: isinstance(e, ast.Attribute) and e.attr == "parallel"
        outer = [t for t, taken in ctrl if "parallel" in ast.unparse(t)]
        ok_par = all(taken for _, taken in ctrl) and all(_positive_conjunct(t, par) for t in outer)
        # the state comparisons
        cmps = [c for t, _ in ctrl for c in ast.walk(t) if isinstance(c, ast.Compare) and ("before" in ast.unparse(c) or "current" in ast.unparse(c) or "subcircuits" in ast.unparse(c))]
        # sense of each comparison with the `not`s above it folded in (`not (a is b and c == d)` means "changed")
        negated = set()

        def _mark(e, neg):
            if isinstance(e, ast.UnaryOp) and isinstance(e.op, ast.Not):
                _mark(e.operand, not neg)
            elif isinstance(e, ast.BoolOp):
                for v in e.values:
                    _mark(v, neg)
            elif neg:
                negated.add(id(e))
        for t, _ in ctrl:
            _mark(t, False)
        wrong = [c for c in cmps if (isinstance(c.ops[0], (ast.Is, ast.Eq)) != (id(c) in negated)) and not isinstance(c.comparators[0], ast.Constant)]
        loc = f"{vb.path}:{r.lineno}"
        if not ok_par:
            rep.violation(rule, cons, f"`{ast.unparse(outer[0])}` does not restrict the refusal to parallel blocks with several branches: ordinary sequential programs (prepare_all; ...; measure_all) are rejected, or parallel ones are not checked", loc)
        elif wrong:
            rep.violation(rule, cons, f"`{ast.unparse(wrong[0])}` fires when the state did NOT change: every ordinary branch of a parallel block is refused and the ones that open or close a trace pass", loc)
        else:
            rep.ok(rule, cons, "parallel blocks only; on a change of state", loc)
    if not found:
        rep.undecided(rule, cons, "no refusal guarded by block.parallel", vb.loc())


# ---------------------------------------------------------------- C08

def discovery_bookkeeping(ctx, rep, rule):
    ix = ctx.ix
    DS = "jaqalpaq.core.algorithm.walkers.DiscoverSubcircuits"
    TV = "jaqalpaq.core.algorithm.walkers.TraceVisitor"
    vg = _method(ix, DS, "visit_GateStatement")
    vb = _method(ix, DS, "visit_BlockStatement")
    tc = _method(ix, TV, "visit_Circuit")
    rep.rule(rule, "a closed trace is recorded (appended to the list of subcircuits); the loop-body refusals of discovery fire under their positive conditions; the trace walker gives up at once only when there are NO traces; the output parser makes one subcircuit per trace", floor=4)
    # closing branch appends
    cons = construct_of(vg, "records-trace")
    closing = [st for st in ast.walk(vg.node) if isinstance(st, ast.If) and "m_gate" in ast.unparse(st.test)]
    if not closing:
        rep.undecided(rule, cons, "closing branch not recognised", vg.loc())
    else:
        st = closing[0]
        if any(isinstance(c, ast.Call) and isinstance(c.func, ast.Attribute) and c.func.attr == "append" and "subcircuits" in ast.unparse(c.func.value) for b in st.body for c in ast.walk(b)):
            rep.ok(rule, cons, "self.subcircuits.append(self.current)", f"{vg.path}:{st.lineno}")
        else:
            rep.violation(rule, cons, "the measure gate closes the trace but it is not added to the list of subcircuits: no subcircuit is ever reported, the program runs and yields no readouts", f"{vg.path}:{st.lineno}")
    # refusals in loop bodies
    cons = construct_of(vb, "loop-body-refusals")
    n = 0
    bad = None
    for r in ast.walk(vb.node):
        if not isinstance(r, ast.Raise):
            continue
        ctrl = _enclosing_ifs(vb.node, r)
        if not any("reps" in ast.unparse(t) for t, _ in ctrl):
            continue
        n += 1
        for t, taken in ctrl:
            if "reps" not in ast.unparse(t):
                continue
            if not taken or isinstance(t, ast.UnaryOp) or (isinstance(t, ast.BoolOp) and isinstance(t.op, ast.Or)):
                bad = t
            for c in ast.walk(t):
                if isinstance(c, ast.Compare) and "reps" in ast.unparse(c) and not isinstance(c.ops[0], ast.NotEq):
                    bad = t
                if isinstance(c, ast.Compare) and "open_at_entry" in ast.unparse(c) and "current" in ast.unparse(c) and not isinstance(c.ops[0], ast.IsNot):
                    bad = t
                if isinstance(c, ast.Compare) and "count" in _names(c) and not isinstance(c.ops[0], ast.NotEq):
                    bad = t
                if isinstance(c, ast.Compare) and isinstance(c.comparators[0], ast.Constant) and c.comparators[0].value is None and "current" in ast.unparse(c.left) and not isinstance(c.ops[0], ast.IsNot):
                    bad = t
    if n == 0:
        rep.undecided(rule, cons, "no refusal depending on the repetition count", vb.loc())
    elif bad is not None:
        rep.violation(rule, cons, f"`{ast.unparse(bad)[:100]}` has the wrong sense: bodies that run exactly once (every ordinary block) are refused and repeated ones that close or open a trace are accepted", f"{vb.path}:{bad.lineno}")
    else:
        rep.ok(rule, cons, f"{n} refusals under `reps != 1 and ...`", vb.loc())
    # the trace walker's empty case
    cons = construct_of(tc, "no-traces")
    early = [st for st in iter_stmts(tc.body) if isinstance(st, ast.If) and any(isinstance(s, ast.Return) and s.value is None for s in st.body)]
    if not early:
        rep.ok(rule, cons, "no early return", tc.loc())
    else:
        t = early[0].test
        sense = _cmp_sense(t)
        zero = any(isinstance(c, ast.Constant) and c.value == 0 for c in ast.walk(t))
        falsy = isinstance(t, ast.UnaryOp) and isinstance(t.op, ast.Not)
        if (sense == "eq" and zero) or falsy:
            rep.ok(rule, cons, f"`{ast.unparse(t)}`", f"{tc.path}:{early[0].lineno}")
        elif sense is None:
            rep.undecided(rule, cons, f"`{ast.unparse(t)}`", f"{tc.path}:{early[0].lineno}")
        else:
            rep.violation(rule, cons, f"`{ast.unparse(t)}`: the walker returns at once when there ARE traces (no readout is ever produced) and walks an empty list otherwise", f"{tc.path}:{early[0].lineno}")
    # one subcircuit per trace in the output parser
    init = _method(ix, "jaqalpaq.core.result.OutputParser", "__init__")
    cons = construct_of(init, "subcircuit-per-trace")
    loops = [st for st in iter_stmts(init.body) if isinstance(st, ast.For) and "traces" in ast.unparse(st.iter)]
    ok = any(isinstance(c, ast.Call) and isinstance(c.func, ast.Attribute) and c.func.attr == "append" and "subcircuits" in ast.unparse(c.func.value) for st in loops for c in ast.walk(st))
    comp = any(isinstance(st, ast.Assign) and isinstance(st.value, ast.ListComp) and "traces" in ast.unparse(st.value) and any(isinstance(t, ast.Attribute) and t.attr == "subcircuits" for t in st.targets) for st in iter_stmts(init.body))
    if ok or comp:
        rep.ok(rule, cons, "one ReadoutSubcircuit per trace", init.loc())
    else:
        rep.violation(rule, cons, "no subcircuit object is made per trace: process_trace indexes an empty list", init.loc())


# ---------------------------------------------------------------- slices / defaults

def slice_default_values(ctx, rep, rule):
    ix = ctx.ix
    rep.rule(rule, "the default of an absent slice bound is start 0 and step 1", floor=4)
    n = 0
    for f in ix.functions.values():
        if f.module not in ("jaqalpaq.core.register", "jaqalpaq.core.circuitbuilder") or isinstance(f.node, ast.Lambda):
            continue
        for st in walk_no_nested(f.node):
            if not (isinstance(st, ast.Assign) and len(st.targets) == 1 and isinstance(st.targets[0], ast.Name) and st.targets[0].id in ("start", "step")):
                continue
            x = st.targets[0].id
            want = 0 if x == "start" else 1
            v = st.value
            consts = []
            if isinstance(v, ast.Constant) and isinstance(v.value, int) and not isinstance(v.value, bool):
                consts = [v]
            elif isinstance(v, ast.BoolOp) and isinstance(v.op, ast.Or):
                consts = [e for e in v.values if isinstance(e, ast.Constant)]
            elif isinstance(v, ast.IfExp):
                consts = [e for e in (v.body, v.orelse) if isinstance(e, ast.Constant)]
            for c in consts:
                n += 1
                cons = construct_of(f, f"default-{x}")
                if c.value == want:
                    rep.ok(rule, cons, f"{x} defaults to {want}", f"{f.path}:{st.lineno}")
                else:
                    rep.violation(rule, cons, f"`{ast.unparse(st)}`: an absent {x} becomes {c.value}, not {want}: `map a q[:2]` starts at the wrong qubit / a slice without step has no elements or raises", f"{f.path}:{st.lineno}")
    if n < 4:
        raise AnalysisError(f"{rule}: only {n} slice defaults found (7 on the pinned tree)")


# ---------------------------------------------------------------- C20

def eq_conjunction(ctx, rep, rule):
    ix, T = ctx.ix, ctx.typer
    from .c20 import operand_aliases
    rep.rule(rule, "the result of an __eq__ that compares several fields is their conjunction (never `or`), and the guard under which Register.__eq__ falls back on `==` requires BOTH ends to be registers for the walk to continue", floor=8)
    n = 0
    for k in T.ir_classes:
        eq = ix.classes[k].methods.get("__eq__")
        if eq is None:
            continue
        lefts, rights = operand_aliases(eq)
        n += 1
        cons = cls_construct(ix, k, "__eq__:conjunction")
        bad = None
        for r in walk_no_nested(eq.node):
            if isinstance(r, ast.Return) and r.value is not None:
                for b in ast.walk(r.value):
                    if isinstance(b, ast.BoolOp) and isinstance(b.op, ast.Or):
                        cmps = [v for v in b.values if isinstance(v, ast.Compare) and any(isinstance(x, ast.Name) and x.id in lefts for x in ast.walk(v)) and any(isinstance(x, ast.Name) and x.id in rights for x in ast.walk(v))]
                        if len(cmps) >= 2:
                            bad = b
        if bad is not None:
            rep.violation(rule, cons, f"`{ast.unparse(bad)[:90]}`: objects that agree in ONE field compare equal (a parameter equals any other of its kind, whatever its name)", f"{eq.path}:{bad.lineno}")
        else:
            rep.ok(rule, cons, "no disjunction of field comparisons", eq.loc())
    if n < 8:
        raise AnalysisError(f"{rule}: only {n} __eq__ methods")
    # the Register walk
    R = "jaqalpaq.core.register.Register"
    eq = _method(ix, R, "__eq__")
    cons = construct_of(eq, "walk-guard")
    guards = [st for st in ast.walk(eq.node) if isinstance(st, ast.If) and ast.unparse(st.test).count("isinstance") >= 1 and "Register" in ast.unparse(st.test)]
    if not guards:
        rep.ok(rule, cons, "no two-sided isinstance guard", eq.loc())
    for g in guards:
        t = g.test
        neg = isinstance(t, ast.UnaryOp) and isinstance(t.op, ast.Not)
        inner = t.operand if neg else t
        is_and = isinstance(inner, ast.BoolOp) and isinstance(inner.op, ast.And)
        is_or = isinstance(inner, ast.BoolOp) and isinstance(inner.op, ast.Or)
        returns = any(isinstance(s, ast.Return) for s in g.body)
        # leave the walk (return a == b) unless both are registers
        if returns and ((neg and is_and) or (not neg and is_or and all(isinstance(v, ast.UnaryOp) for v in inner.values))):
            rep.ok(rule, cons, f"`{ast.unparse(t)}` ends the walk", f"{eq.path}:{g.lineno}")
        elif not returns and not neg and is_and:
            rep.ok(rule, cons, f"`{ast.unparse(t)}` continues the walk", f"{eq.path}:{g.lineno}")
        else:
            rep.violation(rule, cons, f"`if {ast.unparse(t)}: return ...`: the walk along the alias chains ends after one link when both ends are registers (aliases of different registers compare equal if their slices agree), or goes on with an end that is not a register", f"{eq.path}:{g.lineno}")


# ---------------------------------------------------------------- C16: argument order

BUILTIN_ORDER = {"isinstance": 1, "issubclass": 1, "getattr": 0, "hasattr": 0, "setattr": 0}


def argument_order(ctx, rep, rule):
    """Swapped arguments that can be read off names: isinstance(Class, obj),
    getattr("name", obj), and a call whose i-th argument is named like the
    callee's j-th parameter while the j-th argument is named like the i-th."""
    ix, T = ctx.ix, ctx.typer
    rep.rule(rule, "arguments are passed in the callee's order where names tell: a class never comes first in isinstance(), a string literal never first in getattr(), and two arguments named like each other's parameters are not exchanged (such calls raise TypeError -- or silently mix up data -- instead of doing their job)", floor=1)
    n = 0

    def terminal(e):
        if isinstance(e, ast.Name):
            return e.id
        if isinstance(e, ast.Attribute):
            return e.attr
        if isinstance(e, ast.BinOp):
            for s in (e.left, e.right):
                t = terminal(s)
                if t:
                    return t
        return None
    for f in ix.functions.values():
        if isinstance(f.node, ast.Lambda) or f.module.startswith("jaqalpaq.emulator.pygsti"):
            continue
        sites = {}
        try:
            for cs in T.callsites(f):
                if isinstance(cs.node, ast.Call):
                    sites[id(cs.node)] = cs
        except Exception:
            sites = {}
        for c in walk_no_nested(f.node):
            if not isinstance(c, ast.Call):
                continue
            fn = c.func
            if isinstance(fn, ast.Name) and fn.id in ("isinstance", "issubclass") and len(c.args) == 2:
                n += 1
                a0 = c.args[0]
                r0 = ix.resolve_name(f.module, a0.id, f) if isinstance(a0, ast.Name) else None
                if (r0 and r0[0] == "class") or isinstance(a0, ast.Tuple):
                    rep.violation(rule, construct_of(f, f"{fn.id}-order"), f"`{ast.unparse(c)}`: the class comes first (TypeError: arg 2 must be a type)", f"{f.path}:{c.lineno}")
                continue
            if isinstance(fn, ast.Name) and fn.id in ("getattr", "hasattr", "setattr") and len(c.args) >= 2:
                n += 1
                if isinstance(c.args[0], (ast.Constant, ast.JoinedStr)) and not isinstance(c.args[1], (ast.Constant, ast.JoinedStr)):
                    rep.violation(rule, construct_of(f, f"{fn.id}-order"), f"`{ast.unparse(c)}`: the attribute name comes first", f"{f.path}:{c.lineno}")
                continue
            cs = sites.get(id(c))
            if cs is None or len(c.args) < 2 or any(isinstance(a, ast.Starred) for a in c.args):
                continue
            targets = list(getattr(cs, "targets", []) or [])
            if getattr(cs, "kind", "") == "constructor":
                targets = [ix.find_method(k, "__init__") for k in (cs.classes or [])]
                targets = [t for t in targets if t is not None]
            if len(targets) != 1:
                continue
            t = targets[0]
            params = t.params[1:] if (t.cls and not t.is_staticmethod) else t.params
            if len(params) < len(c.args):
                continue
            n += 1
            names = [terminal(a) for a in c.args]
            for i in range(len(c.args)):
                for j in range(i + 1, len(c.args)):
                    ni, nj = (names[i] or "").lstrip("_"), (names[j] or "").lstrip("_")
                    pi, pj = params[i].lstrip("_"), params[j].lstrip("_")
                    # `subcircuit_memo` is named like the parameter `memo`
                    if ni != pi and pj in ni.split("_") and pi not in ni.split("_"):
                        ni = pj
                    if nj != pj and pi in nj.split("_") and pj not in nj.split("_"):
                        nj = pi
                    both = ni and nj and ni != nj and ni == pj and nj == pi
                    # one argument carries the name of the OTHER position's parameter and neither sits under its own name
                    one = ni != nj and ((ni == pj and nj != pj and ni != pi) or (nj == pi and ni != pi and nj != pj))
                    if both or one:
                        rep.violation(rule, construct_of(f, f"call:{t.name}"), f"`{ast.unparse(c)[:80]}` passes `{names[i]}` where `{t.name}` expects `{params[i]}` and `{names[j]}` where it expects `{params[j]}`", f"{f.path}:{c.lineno}")
    if n < 100:
        raise AnalysisError(f"{rule}: only {n} calls with a known argument order analysed")
    rep.ok(rule, "jaqalpaq:argument-order", f"{n} calls analysed")


# ---------------------------------------------------------------- small polarity clauses

def stretch_wrapper_polarity(ctx, rep, rule):
    ix = ctx.ix
    f = _func(ix, "jaqalpaq.core.stretch.stretched_gates")
    cons = construct_of(f, "unitary-wrapper")
    for st in ast.walk(f.node):
        if isinstance(st, ast.If) and "ideal_unitary" in ast.unparse(st.test):
            makes = lambda body: any(isinstance(x, ast.Lambda) or isinstance(x, ast.FunctionDef) for b in body for x in ast.walk(b))
            t = st.test
            neg = isinstance(t, ast.UnaryOp) and isinstance(t.op, ast.Not)
            none_eq = isinstance(t, ast.Compare) and isinstance(t.ops[0], (ast.Is, ast.Eq))
            present_branch = st.orelse if (neg or none_eq) else st.body
            if makes(present_branch):
                rep.ok(rule, cons, "the wrapper is made for gates that have a unitary", f"{f.path}:{st.lineno}")
            elif makes(st.body) or makes(st.orelse):
                rep.violation(rule, cons, f"`if {ast.unparse(t)}`: gates WITH an ideal unitary get none in their stretched variant (it is not emulated) and gates without one get a wrapper around None", f"{f.path}:{st.lineno}")
            return
    rep.undecided(rule, cons, "no test of ideal_unitary", f.loc())
    # (suffix default)


def suffix_default_polarity(ctx, rep, rule):
    ix = ctx.ix
    f = _func(ix, "jaqalpaq.core.stretch.stretched_gates")
    cons = construct_of(f, "suffix-default")
    for st in ast.walk(f.node):
        if isinstance(st, ast.If) and "suffix" in _names(st.test) and any(isinstance(a, ast.Assign) and any(isinstance(t, ast.Name) and t.id == "suffix" for t in a.targets) for a in st.body):
            t = st.test
            s = None
            e = t
            neg = False
            while isinstance(e, ast.UnaryOp) and isinstance(e.op, ast.Not):
                neg = not neg
                e = e.operand
            if isinstance(e, ast.Compare) and isinstance(e.comparators[0], ast.Constant) and e.comparators[0].value is None:
                s = isinstance(e.ops[0], (ast.Is, ast.Eq)) != neg
            if s is True:
                rep.ok(rule, cons, "`if suffix is None: suffix = \"\"`", f"{f.path}:{st.lineno}")
            elif s is False:
                rep.violation(rule, cons, f"`if {ast.unparse(t)}`: a suffix that IS given is replaced by the empty string (every variant overwrites its parent) and None is concatenated to a name", f"{f.path}:{st.lineno}")
            else:
                rep.undecided(rule, cons, f"`{ast.unparse(t)}`", f"{f.path}:{st.lineno}")
            return
    rep.ok(rule, cons, "no default assignment of suffix under a test", f.loc())


def identifier_regex_used(ctx, rep, rule):
    ix = ctx.ix
    f = _func(ix, "jaqalpaq.core.identifier.is_identifier_valid")
    cons = construct_of(f, "regex")
    if any(isinstance(c, ast.Call) and isinstance(c.func, ast.Attribute) and c.func.attr in ("match", "fullmatch") for c in ast.walk(f.node)):
        rep.ok(rule, cons, "the name is matched against the identifier regex", f.loc())
    else:
        rep.violation(rule, cons, "is_identifier_valid never matches the name against the identifier regex: any string that is not a keyword is a valid identifier", f.loc())


def constant_branch_polarity(ctx, rep, rule):
    ix = ctx.ix
    f = _method(ix, "jaqalpaq.core.algorithm.fill_in_let.LetFiller", "resolve_constant")
    cons = construct_of(f, "constant-branch")
    for st in ast.walk(f.node):
        if isinstance(st, ast.If) and "Constant" in ast.unparse(st.test) and "isinstance" in ast.unparse(st.test) and any(isinstance(c, ast.Call) and isinstance(c.func, ast.Attribute) and c.func.attr == f.name for b in st.body for c in ast.walk(b)):
            is_const_test = lambda e: isinstance(e, ast.Call) and isinstance(e.func, ast.Name) and e.func.id == "isinstance" and "Constant" in ast.unparse(e.args[1])
            if _positive_conjunct(st.test, is_const_test):
                rep.ok(rule, cons, f"`{ast.unparse(st.test)}`", f"{f.path}:{st.lineno}")
            elif not any(isinstance(u, ast.UnaryOp) and isinstance(u.op, ast.Not) and any(is_const_test(x) for x in ast.walk(u)) for u in ast.walk(st.test)):
                rep.undecided(rule, cons, f"`{ast.unparse(st.test)}`", f"{f.path}:{st.lineno}")
            else:
                rep.violation(rule, cons, f"`{ast.unparse(st.test)}`: the resolver recurses on values that are NOT constants (and refuses constants of constants)", f"{f.path}:{st.lineno}")
            return
    rep.undecided(rule, cons, "no recursion on a Constant-valued constant", f.loc())


def relinker_changed_polarity(ctx, rep, rule):
    ix = ctx.ix
    V = "jaqalpaq.core.circuitbuilder.RebuildMacroInContextVisitor"
    if V not in ix.classes:
        raise AnalysisError("anchor vanished: RebuildMacroInContextVisitor")
    rep.rule(rule, "in the builder's relinker a handler hands back the rebuilt node when something below it changed and the original only when nothing did; a native gate is returned unchanged only when its definition IS the circuit's", floor=3)
    n = 0
    for name, m in ix.classes[V].methods.items():
        if not name.startswith("visit_"):
            continue
        for st in iter_stmts(m.body):
            if isinstance(st, ast.If) and isinstance(st.test, (ast.Name, ast.UnaryOp)) and "changed" in _names(st.test):
                n += 1
                cons = construct_of(m, "changed-flag")
                neg = isinstance(st.test, ast.UnaryOp)
                new_branch, old_branch = (st.orelse, st.body) if neg else (st.body, st.orelse)
                builds = lambda body: any(isinstance(r, ast.Return) and isinstance(r.value, ast.Tuple) and len(r.value.elts) == 2 and isinstance(r.value.elts[1], ast.Call) for r in body)
                keeps = lambda body: any(isinstance(r, ast.Return) and isinstance(r.value, ast.Tuple) and len(r.value.elts) == 2 and isinstance(r.value.elts[1], ast.Name) for r in body)
                if builds(new_branch) and keeps(old_branch):
                    rep.ok(rule, cons, "changed -> rebuilt node", f"{m.path}:{st.lineno}")
                elif builds(old_branch) and keeps(new_branch):
                    rep.violation(rule, cons, f"`if {ast.unparse(st.test)}` returns the ORIGINAL node when something below it changed: relinked statements inside this node are thrown away (macro calls in a loop keep their stale definitions)", f"{m.path}:{st.lineno}")
                else:
                    rep.undecided(rule, cons, "branches not recognised", f"{m.path}:{st.lineno}")
    vg = _method(ix, V, "visit_GateStatement")
    cons = construct_of(vg, "identity-test")
    for st in ast.walk(vg.node):
        if isinstance(st, ast.If) and any(isinstance(c, ast.Compare) and isinstance(c.ops[0], (ast.Is, ast.IsNot)) and ".gate_def" in ast.unparse(c) for c in ast.walk(st.test)):
            n += 1
            c = [c for c in ast.walk(st.test) if isinstance(c, ast.Compare)][0]
            same = isinstance(c.ops[0], ast.Is) != (_nots_above(st.test, c) % 2 == 1)
            keeps = any(isinstance(r, ast.Return) and isinstance(r.value, ast.Tuple) and isinstance(r.value.elts[0], ast.Constant) and r.value.elts[0].value is False for r in st.body)
            if same == keeps:
                rep.ok(rule, cons, "unchanged when the definition is the circuit's own", f"{vg.path}:{st.lineno}")
            else:
                rep.violation(rule, cons, f"`if {ast.unparse(st.test)}`: a gate is returned unchanged when its definition is NOT the circuit's (made-up definitions survive) and rebuilt when it already is", f"{vg.path}:{st.lineno}")
    if n < 3:
        raise AnalysisError(f"{rule}: only {n} tests found in the relinker")


def _rule_then(fn, text, floor=1):
    def run(ctx, rep, rule):
        rep.rule(rule, text, floor=floor)
        fn(ctx, rep, rule)
    return run


EXTRA = {
    "C13": [(collision_test_shape, "C13.15"), (fundamental_registers_source, "C13.16"), (parallel_guard_polarity, "C13.17"), (relinker_changed_polarity, "C13.18")],
    "C03": [(fundamental_registers_source, "C03.9")],
    "C08": [(discovery_bookkeeping, "C08.12")],
    "C06": [(slice_default_values, "C06.15")],
    "C14": [(slice_default_values, "C14.8")],
    "C20": [(eq_conjunction, "C20.11")],
    "C16": [(argument_order, "C16.22")],
    "C18": [(_rule_then(stretch_wrapper_polarity, "the unitary wrapper of a stretched gate is made for gates that have an ideal unitary"), "C18.11"),
            (_rule_then(suffix_default_polarity, "the suffix default applies when no suffix is given"), "C18.12")],
    "C01": [(_rule_then(identifier_regex_used, "is_identifier_valid matches the name against the identifier regex"), "C01.14")],
    "C05": [(_rule_then(constant_branch_polarity, "the resolver recurses on constants whose value is a constant (positive isinstance)"), "C05.15")],
}


# ---------------------------------------------------------------- second batch

def discovery_results(ctx, rep, rule):
    ix = ctx.ix
    DS = "jaqalpaq.core.algorithm.walkers.DiscoverSubcircuits"
    TV = "jaqalpaq.core.algorithm.walkers.TraceVisitor"
    dc = _method(ix, DS, "visit_Circuit")
    ti = _method(ix, TV, "__init__")
    tb = _method(ix, TV, "visit_BlockStatement")
    tl = _method(ix, TV, "visit_LoopStatement")
    rep.rule(rule, "discovery hands back the traces it found (the empty tuple only when there are none); the trace walker starts at trace 0, fires when the objective ends exactly ONE level below the block, and in the zero-count skip clears the objective exactly when the traces are exhausted", floor=4)
    cons = construct_of(dc, "empty-result")
    empties = [st for st in iter_stmts(dc.body) if isinstance(st, ast.If) and any(isinstance(s, ast.Return) and isinstance(s.value, (ast.Tuple, ast.List)) and not s.value.elts for s in st.body)]
    if not empties:
        rep.ok(rule, cons, "no special case for an empty result", dc.loc())
    for st in empties:
        sense = _cmp_sense(st.test)
        zero = any(isinstance(c, ast.Constant) and c.value == 0 for c in ast.walk(st.test))
        if (sense == "eq" and zero) or (isinstance(st.test, ast.UnaryOp) and isinstance(st.test.op, ast.Not)):
            rep.ok(rule, cons, f"`{ast.unparse(st.test)}` -> ()", f"{dc.path}:{st.lineno}")
        elif sense is None:
            rep.undecided(rule, cons, f"`{ast.unparse(st.test)}`", f"{dc.path}:{st.lineno}")
        else:
            rep.violation(rule, cons, f"`if {ast.unparse(st.test)}: return ()`: a program that HAS subcircuits is reported to have none (it runs and yields no readouts), one without raises IndexError", f"{dc.path}:{st.lineno}")
    cons = construct_of(ti, "first-trace")
    for st in iter_stmts(ti.body):
        if isinstance(st, ast.Assign) and any(isinstance(t, ast.Attribute) and t.attr == "index" for t in st.targets):
            if isinstance(st.value, ast.Constant) and st.value.value == 0:
                rep.ok(rule, cons, "index = 0", f"{ti.path}:{st.lineno}")
            else:
                rep.violation(rule, cons, f"`{ast.unparse(st)}`: the walk starts at the second trace; the first subcircuit never gets a readout", f"{ti.path}:{st.lineno}")
    cons = construct_of(tb, "one-level-below")
    fires = [st for st in ast.walk(tb.node) if isinstance(st, ast.If) and any(isinstance(c, ast.Call) and isinstance(c.func, ast.Attribute) and c.func.attr == "process_trace" for s in st.body for c in ast.walk(s))]
    for st in fires:
        t = st.test
        c = t.operand if isinstance(t, ast.UnaryOp) else t
        if isinstance(c, ast.Compare) and ast.unparse(c).count("len(") == 2:
            sides = [c.left, c.comparators[0]]
            plus = [s for s in sides if isinstance(s, ast.BinOp) and isinstance(s.op, (ast.Add, ast.Sub)) and isinstance(s.right, ast.Constant)]
            if len(plus) == 1 and plus[0].right.value == 1:
                addr_side = "address" in ast.unparse(plus[0]) if isinstance(plus[0].op, ast.Add) else "objective" in ast.unparse(plus[0])
                if addr_side:
                    rep.ok(rule, cons, f"`{ast.unparse(c)}`", f"{tb.path}:{st.lineno}")
                else:
                    rep.violation(rule, cons, f"`{ast.unparse(c)}` adds the level on the wrong side", f"{tb.path}:{st.lineno}")
            elif plus:
                rep.violation(rule, cons, f"`{ast.unparse(c)}`: the walker fires for an objective that ends {plus[0].right.value} levels below the block instead of one: it fires on the block that CONTAINS the trace's block and never reaches the trace", f"{tb.path}:{st.lineno}")
            else:
                rep.undecided(rule, cons, f"`{ast.unparse(c)}`", f"{tb.path}:{st.lineno}")
    cons = construct_of(tl, "skip-exhausted")
    for w in ast.walk(tl.node):
        if isinstance(w, ast.While):
            for st in ast.walk(w):
                if isinstance(st, ast.If) and "traces" in ast.unparse(st.test) and "index" in ast.unparse(st.test):
                    clears = lambda body: any(isinstance(a, ast.Assign) and isinstance(a.value, ast.Constant) and a.value.value is None and any(isinstance(t_, ast.Attribute) and t_.attr == "objective" for t_ in a.targets) for a in body)
                    sense = _cmp_sense(st.test)
                    if sense is None:
                        rep.undecided(rule, cons, f"`{ast.unparse(st.test)}`", f"{tl.path}:{st.lineno}")
                    elif (sense == "eq" and clears(st.body)) or (sense == "ne" and clears(st.orelse)):
                        rep.ok(rule, cons, "objective cleared when index == len(traces)", f"{tl.path}:{st.lineno}")
                    else:
                        rep.violation(rule, cons, f"`if {ast.unparse(st.test)}`: the objective is cleared while traces remain (their readouts are lost) and traces[len(traces)] is read when none does", f"{tl.path}:{st.lineno}")


def snapshot_comparisons(ctx, rep, rule):
    ix = ctx.ix
    vb = _method(ix, "jaqalpaq.core.algorithm.walkers.DiscoverSubcircuits", "visit_BlockStatement")
    rep.rule(rule, "each element of a state snapshot (a tuple taken before a branch is visited) is compared with the expression it was taken from", floor=1)
    n = 0
    for st in ast.walk(vb.node):
        if isinstance(st, ast.Assign) and isinstance(st.value, ast.Tuple) and len(st.targets) == 1 and isinstance(st.targets[0], ast.Name):
            snap, elts = st.targets[0].id, [ast.unparse(e) for e in st.value.elts]
            for c in ast.walk(vb.node):
                if isinstance(c, ast.Compare) and len(c.ops) == 1:
                    for a, b in ((c.left, c.comparators[0]), (c.comparators[0], c.left)):
                        if isinstance(a, ast.Subscript) and isinstance(a.value, ast.Name) and a.value.id == snap and isinstance(a.slice, ast.Constant) and isinstance(a.slice.value, int):
                            n += 1
                            cons = construct_of(vb, f"snapshot:{snap}[{a.slice.value}]")
                            i = a.slice.value
                            if i < len(elts) and ast.unparse(b) == elts[i]:
                                rep.ok(rule, cons, f"compared with `{elts[i]}`", f"{vb.path}:{c.lineno}")
                            else:
                                rep.violation(rule, cons, f"`{ast.unparse(c)}` compares element {i} of the snapshot (taken from `{elts[i] if i < len(elts) else '?'}`) with `{ast.unparse(b)}`: the test is always true (or always false), so every parallel block with several branches is refused (or none)", f"{vb.path}:{c.lineno}")
    if n == 0:
        rep.ok(rule, construct_of(vb, "snapshot"), "no indexed state snapshot")


def range_validation_guard(ctx, rep, rule):
    ix = ctx.ix
    ri = _method(ix, "jaqalpaq.core.register.Register", "__init__")
    rep.rule(rule, "the range validation of a literal slice runs exactly when the source's size is a known integer (`size is not None and not isinstance(size, AnnotatedValue)`, positive)", floor=1)
    cons = construct_of(ri, "range-validation-guard")
    target = None
    for st in ast.walk(ri.node):
        if isinstance(st, ast.If) and any(isinstance(r, ast.Raise) and "out of range" in ast.unparse(r) for b in st.body for r in ast.walk(b)) and ".size" in ast.unparse(st.test):
            # the outermost such branch (the inner tests compare bounds with the size)
            if target is None or st.lineno < target.lineno:
                target = st
    if target is None:
        rep.undecided(rule, cons, "validation branch not recognised", ri.loc())
        return
    t = target.test
    not_none = lambda e: isinstance(e, ast.Compare) and isinstance(e.ops[0], ast.IsNot) and isinstance(e.comparators[0], ast.Constant) and e.comparators[0].value is None
    not_sym = lambda e: isinstance(e, ast.UnaryOp) and isinstance(e.op, ast.Not) and "AnnotatedValue" in ast.unparse(e)
    if _positive_conjunct(t, not_none) and _positive_conjunct(t, not_sym):
        rep.ok(rule, cons, f"`{ast.unparse(t)[:80]}`", f"{ri.path}:{target.lineno}")
    elif isinstance(t, ast.BoolOp) or isinstance(t, ast.UnaryOp) or (_positive_conjunct(t, not_none) and "AnnotatedValue" not in ast.unparse(t)):
        rep.violation(rule, cons, f"`{ast.unparse(t)[:90]}`: the bounds of `map a q[1:9]` are not checked against a known size (the alias is accepted and fails when used), or a symbolic size is compared as a number", f"{ri.path}:{target.lineno}")
    else:
        rep.undecided(rule, cons, f"`{ast.unparse(t)[:80]}`", f"{ri.path}:{target.lineno}")


def none_default_polarity(ctx, rep, rule):
    ix = ctx.ix
    rep.rule(rule, "a default for an absent slice bound or context is applied in the branch where the value IS None; `x or default` is not `x and default`", floor=4)
    n = 0
    for f in ix.functions.values():
        if f.module != "jaqalpaq.core.register" or isinstance(f.node, ast.Lambda):
            continue
        for st in ast.walk(f.node):
            if isinstance(st, ast.If) and isinstance(st.test, (ast.Compare, ast.UnaryOp)):
                e, neg = st.test, False
                while isinstance(e, ast.UnaryOp) and isinstance(e.op, ast.Not):
                    neg, e = not neg, e.operand
                if not (isinstance(e, ast.Compare) and len(e.ops) == 1 and isinstance(e.comparators[0], ast.Constant) and e.comparators[0].value is None and isinstance(e.left, ast.Name)):
                    continue
                x = e.left.id
                if x not in ("start", "stop", "step", "context"):
                    continue
                is_none = isinstance(e.ops[0], (ast.Is, ast.Eq)) != neg
                defaults = lambda body: [a for a in body if isinstance(a, ast.Assign) and any(isinstance(t, ast.Name) and t.id == x for t in a.targets) and x not in _names(a.value)]
                none_branch, set_branch = (st.body, st.orelse) if is_none else (st.orelse, st.body)
                if not defaults(st.body) and not defaults(st.orelse):
                    continue
                n += 1
                cons = construct_of(f, f"default-of-{x}")
                if defaults(none_branch) and not defaults(set_branch):
                    rep.ok(rule, cons, f"`{x}` gets its default where it is None", f"{f.path}:{st.lineno}")
                else:
                    rep.violation(rule, cons, f"`if {ast.unparse(st.test)}`: a given {x} is overwritten by the default and an absent one stays None", f"{f.path}:{st.lineno}")
        for st in ast.walk(f.node):
            if isinstance(st, ast.Assign) and len(st.targets) == 1 and isinstance(st.targets[0], ast.Name) and st.targets[0].id == "context" and isinstance(st.value, ast.BoolOp):
                n += 1
                cons = construct_of(f, "default-of-context")
                if isinstance(st.value.op, ast.Or):
                    rep.ok(rule, cons, "`context or {}`", f"{f.path}:{st.lineno}")
                else:
                    rep.violation(rule, cons, f"`{ast.unparse(st)}` replaces every given context by the empty one: parameters cannot be resolved in the scope of a macro call", f"{f.path}:{st.lineno}")
    if n < 4:
        raise AnalysisError(f"{rule}: only {n} defaults found in core/register.py")


def validate_kind_reads(ctx, rep, rule):
    ix = ctx.ix
    v = _method(ix, "jaqalpaq.core.parameter.Parameter", "validate")
    rep.rule(rule, "Parameter.validate reads `.kind` of the candidate only after establishing that it is an AnnotatedValue (otherwise a string or list argument raises AttributeError instead of JaqalError)", floor=3)
    val = v.params[1]
    n = 0
    for c in ast.walk(v.node):
        if isinstance(c, ast.Attribute) and c.attr == "kind" and isinstance(c.value, ast.Name) and c.value.id == val:
            n += 1
            cons = construct_of(v, "kind-read")
            # innermost BoolOp containing the read
            holders = [b for b in ast.walk(v.node) if isinstance(b, ast.BoolOp) and isinstance(b.op, ast.And) and any(x is c for x in ast.walk(b))]
            guarded = False
            for b in holders:
                idx = next(i for i, e in enumerate(b.values) if any(x is c for x in ast.walk(e)))
                if any(isinstance(e, ast.Call) and isinstance(e.func, ast.Name) and e.func.id == "isinstance" and isinstance(e.args[0], ast.Name) and e.args[0].id == val and "AnnotatedValue" in ast.unparse(e.args[1]) for e in b.values[:idx]):
                    guarded = True
            if not guarded:
                guarded = any(taken and "isinstance" in ast.unparse(t) and "AnnotatedValue" in ast.unparse(t) and _positive_conjunct(t, lambda e: isinstance(e, ast.Call) and isinstance(e.func, ast.Name) and e.func.id == "isinstance") for t, taken in _enclosing_ifs(v.node, c) if not any(x is c for x in ast.walk(t)))
            if guarded:
                rep.ok(rule, cons, "under isinstance(value, AnnotatedValue)", f"{v.path}:{c.lineno}")
            else:
                rep.violation(rule, cons, f"`{val}.kind` is read without the isinstance(.., AnnotatedValue) test before it: `G('x')` raises AttributeError, not JaqalError", f"{v.path}:{c.lineno}")
    if n < 3:
        raise AnalysisError(f"{rule}: only {n} reads of .kind in Parameter.validate")


def probability_error_terms(ctx, rep, rule):
    ix = ctx.ix
    init = _method(ix, "jaqalpaq.core.result.ProbabilisticSubcircuit", "__init__")
    rep.rule(rule, "the clipping error is the difference between clipped and raw values, and the warn/fail block runs when the error EXCEEDS the warning cutoff", floor=2)
    cons = construct_of(init, "clip-error")
    ce = [v for v in _local_defs(init.node, "clip_err") if not isinstance(v, ast.AugAssign)]
    if not ce:
        rep.undecided(rule, cons, "no clip_err", init.loc())
    else:
        ops = [b for b in ast.walk(ce[0]) if isinstance(b, ast.BinOp)]
        if ops and all(isinstance(b.op, ast.Sub) for b in ops):
            rep.ok(rule, cons, f"`{ast.unparse(ce[0])}`", f"{init.path}:{ce[0].lineno}")
        elif ops:
            rep.violation(rule, cons, f"`{ast.unparse(ce[0])}` is not a difference: every distribution has an `error` of about twice its largest probability, far above CUTOFF_FAIL -- every emulation raises RuntimeError", f"{init.path}:{ce[0].lineno}")
        else:
            rep.undecided(rule, cons, f"`{ast.unparse(ce[0])}`", f"{init.path}:{ce[0].lineno}")
    cons = construct_of(init, "warn-guard")
    g = [st for st in iter_stmts(init.body) if isinstance(st, ast.If) and "CUTOFF_WARN" in ast.unparse(st.test)]
    for st in g:
        t = st.test
        if isinstance(t, ast.Compare) and isinstance(t.ops[0], (ast.Gt, ast.GtE)) and "CUTOFF_WARN" in ast.unparse(t.comparators[0]):
            rep.ok(rule, cons, f"`{ast.unparse(t)}`", f"{init.path}:{st.lineno}")
        elif isinstance(t, ast.Compare) and isinstance(t.ops[0], (ast.Lt, ast.LtE)) and "CUTOFF_WARN" in ast.unparse(t.left):
            rep.ok(rule, cons, f"`{ast.unparse(t)}`", f"{init.path}:{st.lineno}")
        elif isinstance(t, (ast.UnaryOp, ast.Compare)):
            rep.violation(rule, cons, f"`if {ast.unparse(t)}`: exact distributions warn (or fail) and wrong ones pass silently", f"{init.path}:{st.lineno}")
        else:
            rep.undecided(rule, cons, f"`{ast.unparse(t)}`", f"{init.path}:{st.lineno}")


def block_context_restored(ctx, rep, rule):
    ix = ctx.ix
    m = _method(ix, "jaqalpaq.core.circuitbuilder.Builder", "in_block_context")
    rep.rule(rule, "the builder's block-kind flag is restored when the block ends: deleted when it was absent before, reset to the old value otherwise (a flag that sticks makes a later, legal subcircuit `nested`)", floor=1)
    cons = construct_of(m, "restore")
    fin = [t for t in ast.walk(m.node) if isinstance(t, ast.Try) and t.finalbody]
    if not fin:
        rep.violation(rule, cons, "no `finally` restores the flag", m.loc())
        return
    ifs = [st for b in fin for st in b.finalbody if isinstance(st, ast.If)]
    if not ifs:
        rep.undecided(rule, cons, "restore logic not recognised", m.loc())
        return
    st = ifs[0]
    e, neg = st.test, False
    while isinstance(e, ast.UnaryOp) and isinstance(e.op, ast.Not):
        neg, e = not neg, e.operand
    if not (isinstance(e, ast.Compare) and isinstance(e.comparators[0], ast.Constant) and e.comparators[0].value is None):
        rep.undecided(rule, cons, f"`{ast.unparse(st.test)}`", f"{m.path}:{st.lineno}")
        return
    was_absent = isinstance(e.ops[0], (ast.Is, ast.Eq)) != neg
    absent_branch, present_branch = (st.body, st.orelse) if was_absent else (st.orelse, st.body)
    deletes = any(isinstance(x, ast.Delete) or (isinstance(x, ast.Expr) and isinstance(x.value, ast.Call) and isinstance(x.value.func, ast.Attribute) and x.value.func.attr == "pop") for x in absent_branch)
    resets = any(isinstance(x, ast.Assign) and isinstance(x.targets[0], ast.Subscript) for x in present_branch)
    if deletes and resets:
        rep.ok(rule, cons, "absent before -> deleted; present before -> old value", f"{m.path}:{st.lineno}")
    else:
        rep.violation(rule, cons, f"`if {ast.unparse(st.test)}`: after the first block the flag stays set (the key is re-assigned None, never deleted -- or deleted while an enclosing block of that kind is still open): `< a | b > ; subcircuit {{ .. }}` is fine but inside a parallel block's sequential sibling the nesting test misfires", f"{m.path}:{st.lineno}")


def eof_position(ctx, rep, rule):
    ix = ctx.ix
    err = _method(ix, "jaqalpaq.parser.slyparse.JaqalParser", "error")
    rep.rule(rule, "the position reported for an unexpected end of input is the end of the text: line = number of newlines + 1, column = characters after the last newline + 1; a token's own position is used when there is a token", floor=2)
    cons = construct_of(err, "eof-line")
    line = [v for v in _local_defs(err.node, "line") if not isinstance(v, ast.AugAssign) and "count" in ast.unparse(v)]
    if not line:
        rep.undecided(rule, cons, "no line computed from the text", err.loc())
    else:
        v = line[0]
        ok = isinstance(v, ast.BinOp) and isinstance(v.op, ast.Add) and isinstance(v.right, ast.Constant) and v.right.value == 1 and "count" in ast.unparse(v.left)
        if ok:
            rep.ok(rule, cons, f"`{ast.unparse(v)}`", f"{err.path}:{v.lineno}")
        else:
            rep.violation(rule, cons, f"`line = {ast.unparse(v)}` is not newlines + 1", f"{err.path}:{v.lineno}")
    cons = construct_of(err, "eof-column")
    col = [v for v in _local_defs(err.node, "col") if not isinstance(v, ast.AugAssign) and "rfind" in ast.unparse(v)]
    if not col:
        rep.undecided(rule, cons, "no column computed from the text", err.loc())
    else:
        v = col[0]
        # len(text) - (text.rfind("\n") + 1) + 1
        want = isinstance(v, ast.BinOp) and isinstance(v.op, ast.Add) and isinstance(v.right, ast.Constant) and v.right.value == 1 and isinstance(v.left, ast.BinOp) and isinstance(v.left.op, ast.Sub) and "len(" in ast.unparse(v.left.left) and isinstance(v.left.right, ast.BinOp) and isinstance(v.left.right.op, ast.Add) and isinstance(v.left.right.right, ast.Constant) and v.left.right.right.value == 1
        if want:
            rep.ok(rule, cons, f"`{ast.unparse(v)}`", f"{err.path}:{v.lineno}")
        elif isinstance(v, ast.BinOp):
            rep.violation(rule, cons, f"`col = {ast.unparse(v)}` is not (characters after the last newline) + 1", f"{err.path}:{v.lineno}")
        else:
            rep.undecided(rule, cons, f"`{ast.unparse(v)}`", f"{err.path}:{v.lineno}")
    cons = construct_of(err, "token-branch")
    for st in iter_stmts(err.body):
        if isinstance(st, ast.If) and "token" in _names(st.test):
            s = _none_test_name(st.test, "token")
            uses = lambda body: any(isinstance(x, ast.Attribute) and isinstance(x.value, ast.Name) and x.value.id == "token" for b in body for x in ast.walk(b))
            if s is None:
                rep.undecided(rule, cons, f"`{ast.unparse(st.test)}`", f"{err.path}:{st.lineno}")
            else:
                tok_branch = st.body if s else st.orelse
                other = st.orelse if s else st.body
                if uses(tok_branch) and not uses(other):
                    rep.ok(rule, cons, "token attributes are read where there is a token", f"{err.path}:{st.lineno}")
                else:
                    rep.violation(rule, cons, f"`if {ast.unparse(st.test)}`: token.lineno is read when the token is None (AttributeError instead of the parse error) and the end-of-text position is reported for real tokens", f"{err.path}:{st.lineno}")
            break


def _none_test_name(e, name):
    neg = False
    while isinstance(e, ast.UnaryOp) and isinstance(e.op, ast.Not):
        neg, e = not neg, e.operand
    if isinstance(e, ast.Compare) and len(e.ops) == 1 and isinstance(e.comparators[0], ast.Constant) and e.comparators[0].value is None and isinstance(e.left, ast.Name) and e.left.id == name:
        return isinstance(e.ops[0], (ast.IsNot, ast.NotEq)) != neg
    return None


EXTRA["C08"].append((discovery_results, "C08.13"))
EXTRA["C13"].append((snapshot_comparisons, "C13.19"))
EXTRA["C13"].append((none_default_polarity, "C13.20"))
EXTRA["C14"].append((range_validation_guard, "C14.9"))
EXTRA["C14"].append((none_default_polarity, "C14.10"))
EXTRA["C06"].append((none_default_polarity, "C06.16"))
EXTRA["C18"].append((validate_kind_reads, "C18.13"))
EXTRA["C15"] = [(probability_error_terms, "C15.15")]
EXTRA["C02"] = [(block_context_restored, "C02.10")]
EXTRA["C16"].append((eof_position, "C16.23"))


# ---------------------------------------------------------------- third batch

def splice_same_kind(ctx, rep, rule):
    ix = ctx.ix
    rep.rule(rule, "a block returned for a statement is spliced into its parent only when both have the same kind: the test compares `.parallel` with `.parallel`", floor=2)
    n = 0
    for q in ("jaqalpaq.core.algorithm.expand_macros.MacroExpander", "jaqalpaq.core.algorithm.expand_macros.GateReplacer"):
        m = _method(ix, q, "visit_BlockStatement")
        for c in ast.walk(m.node):
            if isinstance(c, ast.Compare) and len(c.ops) == 1 and isinstance(c.left, ast.Attribute) and isinstance(c.comparators[0], ast.Attribute) and {c.left.attr, c.comparators[0].attr} & {"parallel", "subcircuit"}:
                n += 1
                cons = construct_of(m, "splice-kind")
                if c.left.attr == c.comparators[0].attr == "parallel" and isinstance(c.ops[0], ast.Eq):
                    rep.ok(rule, cons, f"`{ast.unparse(c)}`", f"{m.path}:{c.lineno}")
                else:
                    rep.violation(rule, cons, f"`{ast.unparse(c)}` compares different properties of the two blocks: a parallel block returned for a macro call in a sequential parent is dissolved into it (its gates run one after the other) or a sequential one is not", f"{m.path}:{c.lineno}")
    if n == 0:
        raise AnalysisError(f"{rule}: no splice test found in either expander (anchor vanished)")
    if n < 2:
        # one of the two handlers no longer compares the kinds in the recognised form: not this clause's business to
        # judge (the conjunct clause C04.14 / C13.27 reports a splice test without the kind comparison)
        rep.undecided(rule, "core.algorithm.expand_macros:visit_BlockStatement:splice-kind", f"only {n} of the two splice tests has the form `<child>.parallel == <parent>.parallel`")


def count_kind_polarity(ctx, rep, rule):
    ix = ctx.ix
    m = _method(ix, "jaqalpaq.core.algorithm.expand_macros.GateReplacer", "substitute_count")
    rep.rule(rule, "a substituted count that is still symbolic is refused when its kind is NOT integer-like", floor=1)
    cons = construct_of(m, "kind-test")
    hit = False
    for r in ast.walk(m.node):
        if isinstance(r, ast.Raise):
            for t, taken in _enclosing_ifs(m.node, r):
                for c in ast.walk(t):
                    if isinstance(c, ast.Compare) and ".kind" in ast.unparse(c.left) and isinstance(c.ops[0], (ast.In, ast.NotIn)):
                        hit = True
                        refuse_outside = isinstance(c.ops[0], ast.NotIn) == taken
                        if refuse_outside:
                            rep.ok(rule, cons, f"`{ast.unparse(c)[:70]}` raises", f"{m.path}:{c.lineno}")
                        else:
                            rep.violation(rule, cons, f"`{ast.unparse(c)[:70]}` raises for integer-like parameters: `macro f n {{ loop n {{..}} }}` inside another macro that passes its own parameter on is refused, and a float or qubit parameter passes", f"{m.path}:{c.lineno}")
    if not hit:
        rep.undecided(rule, cons, "no kind test guards a raise", m.loc())


def check_argument_walk(ctx, rep, rule):
    ix = ctx.ix
    f = _func(ix, "jaqalpaq.core.algorithm.expand_macros.check_argument")
    rep.rule(rule, "check_argument follows the alias chain while there IS a link, and returns early for a parameter as source as well as for a parameter as index", floor=1)
    cons = construct_of(f, "chain-walk")
    ws = [w for w in ast.walk(f.node) if isinstance(w, ast.While)]
    if not ws:
        rep.undecided(rule, cons, "no loop", f.loc())
        return
    w = ws[0]
    sense = _none_test_name(w.test, _names(w.test).pop() if len(_names(w.test)) == 1 else "")
    ret = [st for st in ast.walk(w) if isinstance(st, ast.If) and any(isinstance(s, ast.Return) for s in st.body)]
    two = ret and isinstance(ret[0].test, ast.BoolOp) and isinstance(ret[0].test.op, ast.Or) and "alias_index" in ast.unparse(ret[0].test) and any(isinstance(v, ast.Call) and isinstance(v.args[0], ast.Name) for v in ret[0].test.values)
    kinds = {ast.unparse(c.args[1]) for c in ast.walk(ret[0].test) if isinstance(c, ast.Call) and isinstance(c.func, ast.Name) and c.func.id == "isinstance" and len(c.args) == 2} if ret else set()
    if kinds - {"Parameter"}:
        rep.violation(rule, cons, f"`{ast.unparse(ret[0].test)[:90]}` treats {sorted(kinds - {'Parameter'})} as `not known yet`: the value of a let constant IS known, so `first r[0] r[k]` with k out of range (and the second parameter unused) is accepted and the bad reference dropped", f"{f.path}:{ret[0].lineno}", witness="let k 2; register r[2]; macro first a b { Px a }; first r[0] r[k]")
    elif sense is False:
        rep.violation(rule, cons, f"`while {ast.unparse(w.test)}`: the chain is never walked, so an argument that depends on a parameter of the enclosing macro is resolved at once (JaqalError: unbound)", f"{f.path}:{w.lineno}")
    elif not two:
        rep.violation(rule, cons, f"`{ast.unparse(ret[0].test)[:80] if ret else 'no early return'}`: only one of (source is a parameter, index is a parameter) is recognised as `not known yet`", f"{f.path}:{(ret[0] if ret else w).lineno}")
    elif sense is True:
        rep.ok(rule, cons, "walks while obj is not None; early return for parameter source or index", f.loc())
    else:
        rep.undecided(rule, cons, f"`while {ast.unparse(w.test)}`", f"{f.path}:{w.lineno}")


def relink_condition(ctx, rep, rule):
    ix = ctx.ix
    SE = "jaqalpaq.core.algorithm.expand_subcircuits.SubcircuitExpander"
    gh = ix.classes[SE].methods.get("visit_GateStatement") if SE in ix.classes else None
    rep.rule(rule, "the subcircuit expander links a call to a new definition when there IS one of that name AND the statement is a macro call", floor=1)
    if gh is None:
        rep.undecided(rule, f"core.algorithm.expand_subcircuits:SubcircuitExpander:relink-condition", "no gate handler (see C09.8)")
        return
    cons = construct_of(gh, "relink-condition")
    ifs = [st for st in iter_stmts(gh.body) if isinstance(st, ast.If) and any(isinstance(s, ast.Return) for s in st.body)]
    if not ifs:
        rep.undecided(rule, cons, "no conditional relink", gh.loc())
        return
    t = ifs[0].test
    has = lambda e: isinstance(e, ast.Compare) and isinstance(e.ops[0], ast.IsNot) and isinstance(e.comparators[0], ast.Constant) and e.comparators[0].value is None
    is_macro = lambda e: isinstance(e, ast.Call) and isinstance(e.func, ast.Name) and e.func.id == "isinstance" and "Macro" in ast.unparse(e.args[1])
    if _positive_conjunct(t, has) and _positive_conjunct(t, is_macro):
        rep.ok(rule, cons, f"`{ast.unparse(t)}`", f"{gh.path}:{ifs[0].lineno}")
    elif isinstance(t, (ast.BoolOp, ast.Call, ast.Compare, ast.UnaryOp)):
        rep.violation(rule, cons, f"`{ast.unparse(t)}`: a call of a macro without a new definition calls None (TypeError), or a native gate that shares its name with a macro is turned into a macro call", f"{gh.path}:{ifs[0].lineno}")
    else:
        rep.undecided(rule, cons, f"`{ast.unparse(t)}`", f"{gh.path}:{ifs[0].lineno}")


def count_integrality(ctx, rep, rule):
    ix = ctx.ix
    m = _method(ix, "jaqalpaq.core.circuitbuilder.Builder", "build_count")
    rep.rule(rule, "build_count refuses a let-valued count whose value is not integral OR stays a float, and any other count that is neither an integer nor a parameter", floor=2)
    cons = construct_of(m, "constant-count")
    tests = [st for st in ast.walk(m.node) if isinstance(st, ast.If) and any(isinstance(s, ast.Raise) for s in st.body) and "value" in ast.unparse(st.test)]
    if not tests:
        rep.violation(rule, cons, "the value of a let used as a count is not tested for integrality", m.loc())
    for st in tests:
        t = st.test
        if isinstance(t, ast.BoolOp) and isinstance(t.op, ast.Or) and any(isinstance(v, ast.Compare) and isinstance(v.ops[0], ast.NotEq) for v in t.values) and any("isinstance" in ast.unparse(v) and "float" in ast.unparse(v) for v in t.values):
            rep.ok(rule, cons, f"`{ast.unparse(t)[:80]}` raises", f"{m.path}:{st.lineno}")
        elif isinstance(t, ast.BoolOp) and isinstance(t.op, ast.And):
            rep.violation(rule, cons, f"`{ast.unparse(t)[:90]}`: both conditions can never hold together, so `let n 2.5; loop n {{..}}` is accepted", f"{m.path}:{st.lineno}")
        elif isinstance(t, ast.Call) and "isinstance" in ast.unparse(t):
            rep.violation(rule, cons, f"`{ast.unparse(t)[:90]}` only refuses values that stay floats: `let n 2.5; loop n {{..}}`... is refused, but the comparison that catches a value as_integer() changed is gone", f"{m.path}:{st.lineno}")
        elif isinstance(t, ast.Compare):
            rep.violation(rule, cons, f"`{ast.unparse(t)[:90]}` lets a non-finite float count through (as_integer leaves inf and nan as they are, and they equal themselves or never do)", f"{m.path}:{st.lineno}")
        else:
            rep.undecided(rule, cons, f"`{ast.unparse(t)[:80]}`", f"{m.path}:{st.lineno}")
    cons = construct_of(m, "other-count")
    typ = [st for st in ast.walk(m.node) if isinstance(st, ast.If) and any(isinstance(s, ast.Raise) for s in st.body) and "Parameter" in ast.unparse(st.test) and "isinstance" in ast.unparse(st.test)]
    if typ:
        rep.ok(rule, cons, f"`{ast.unparse(typ[0].test)[:70]}` raises", f"{m.path}:{typ[0].lineno}")
    else:
        rep.violation(rule, cons, "a count that is neither an integer nor a parameter (a float, a string, a qubit) is accepted: `loop 1.5 { .. }` builds and fails in range()", m.loc())


def nan_clause(ctx, rep, rule):
    ix = ctx.ix
    eq = _method(ix, "jaqalpaq.core.gate.GateStatement", "__eq__")
    rep.rule(rule, "the NaN special case of gate-argument equality applies to floats that are NaN (a conjunction on both sides)", floor=1)
    cons = construct_of(eq, "nan-clause")
    n = 0
    for b in ast.walk(eq.node):
        if isinstance(b, ast.BoolOp) and "isnan" in ast.unparse(b) and "isinstance" in ast.unparse(b):
            n += 1
            if isinstance(b.op, ast.And):
                rep.ok(rule, cons, f"`{ast.unparse(b)}`", f"{eq.path}:{b.lineno}")
            else:
                rep.violation(rule, cons, f"`{ast.unparse(b)}`: math.isnan is applied to arguments that are not floats (a qubit, a let constant): comparing `Rz q[0] nan` with `Rz q[0] t` raises TypeError instead of answering False, and any float equals NaN", f"{eq.path}:{b.lineno}")
    if n == 0:
        rep.undecided(rule, cons, "no NaN clause", eq.loc())


EXTRA["C04"] = [(splice_same_kind, "C04.12"), (count_kind_polarity, "C04.13")]
EXTRA["C14"].append((check_argument_walk, "C14.11"))
EXTRA["C14"].append((count_integrality, "C14.12"))
EXTRA["C09"] = [(relink_condition, "C09.13")]
EXTRA["C20"].append((nan_clause, "C20.12"))


# ---------------------------------------------------------------- fourth hunt wave

def fillers_keep_definitions(ctx, rep, rule, modules):
    ix = ctx.ix
    rep.rule(rule, "a pass that rebuilds the circuit by name writes a gate statement as [`gate`, name, ...] only for macro calls (they must be linked to the rebuilt macro); every other statement is made by its own definition, which the circuit need not know by name", floor=len(modules))
    for mod in modules:
        gh = next((f for f in ix.functions.values() if f.module == mod and f.name == "visit_GateStatement" and f.cls), None)
        if gh is None:
            raise AnalysisError(f"{rule}: no gate handler in {mod}")
        cons = construct_of(gh, "definition-kept")
        gp = gh.params[1]
        by_name = []
        for e in ast.walk(gh.node):
            if isinstance(e, (ast.List, ast.Tuple)) and e.elts and isinstance(e.elts[0], ast.Constant) and e.elts[0].value == "gate":
                by_name.append(e)
        by_def = [c for c in ast.walk(gh.node) if isinstance(c, ast.Call) and isinstance(c.func, ast.Attribute) and c.func.attr == "gate_def" and isinstance(c.func.value, ast.Name) and c.func.value.id == gp]
        if not by_name:
            rep.ok(rule, cons, "statements are never rebuilt by name", gh.loc())
            continue
        unguarded = []
        for e in by_name:
            ctrl = _enclosing_ifs(gh.node, e)
            if not any(taken and "Macro" in ast.unparse(t) and "gate_def" in ast.unparse(t) and _positive_conjunct(t, lambda x: isinstance(x, ast.Call) and isinstance(x.func, ast.Name) and x.func.id == "isinstance") for t, taken in ctrl):
                unguarded.append(e)
        if unguarded:
            rep.violation(rule, cons, f"`{ast.unparse(unguarded[0])[:70]}` rebuilds every statement by its name: a definition the circuit does not hold under that name -- the busy prepare/measure gates that expand_subcircuits makes up, or the ones its caller supplied -- is replaced by a made-up plain one (the block no longer uses every qubit) or the pass fails with `No gate .. defined`", f"{gh.path}:{unguarded[0].lineno}", witness="fill_in_let(expand_subcircuits(c, prepare_def=BusyGateDefinition('prepare_fast')))")
        elif not by_def:
            rep.violation(rule, cons, "statements that are not macro calls are not rebuilt at all", gh.loc())
        else:
            rep.ok(rule, cons, "by name for macro calls only; otherwise `gate.gate_def(*arguments)`", gh.loc())


EXTRA["C05"].append((fillers_keep_definitions, "C05.16", ["jaqalpaq.core.algorithm.fill_in_let"]))
EXTRA["C06"].append((fillers_keep_definitions, "C06.17", ["jaqalpaq.core.algorithm.fill_in_map"]))
EXTRA["C10"] = [(fillers_keep_definitions, "C10.17", ["jaqalpaq.core.algorithm.fill_in_let", "jaqalpaq.core.algorithm.fill_in_map"])]


def macro_descent_memoised(ctx, rep, rule):
    ix = ctx.ix
    rep.rule(rule, "a walk of the builder that descends from a call into the called macro's body (a question about the macro alone, asked at every call site in a parallel or subcircuit block) keeps its answers per macro: without that, parsing `macro m{i} { m{i-1}; m{i-1} }` takes time 2**i", floor=1)
    n = 0
    for f in ix.functions.values():
        if f.module != "jaqalpaq.core.circuitbuilder" or f.cls is not None or isinstance(f.node, ast.Lambda):
            continue
        recursive = [c for c in ast.walk(f.node) if isinstance(c, ast.Call) and isinstance(c.func, ast.Name) and c.func.id == f.name]
        descends = any(isinstance(a, ast.Attribute) and a.attr in ("gate_def", "body") for c in recursive for arg in c.args for a in ast.walk(arg))
        if not recursive or not descends:
            continue
        n += 1
        cons = construct_of(f, "memo")
        member = [c for c in ast.walk(f.node) if isinstance(c, ast.Compare) and isinstance(c.ops[0], (ast.In, ast.NotIn)) and isinstance(c.comparators[0], ast.Name) and c.comparators[0].id in f.all_params]
        forwarded = all(any(isinstance(a, ast.Name) and a.id == member[0].comparators[0].id for a in list(c.args) + [k.value for k in c.keywords]) for c in recursive) if member else False
        if member and forwarded:
            rep.ok(rule, cons, f"answers are kept in `{member[0].comparators[0].id}` and handed to every recursive call", f.loc())
        elif member:
            rep.violation(rule, cons, "the memo is not handed on to the recursive calls: each of them starts from scratch", f.loc())
        else:
            rep.violation(rule, cons, f"`{f.name}` re-walks the body of a called macro at every call: with macros that call the previous one twice the parser needs time exponential in the number of macros for `< m29 | foo >` (and recurses as deep as the chain of macros is long)", f.loc(), witness="macro m0 { foo }; macro m1 { m0; m0 }; ... ; < m29 | foo >")
    if n == 0:
        rep.ok(rule, "core.circuitbuilder:macro-descent", "no function of the builder descends into called macros recursively")


def file_text_untranslated(ctx, rep, rule):
    ix = ctx.ix
    rep.rule(rule, "the file entry points of the parser read the text without newline translation, so that a file and the string of its characters parse alike (the lexer treats a lone CR as a blank)", floor=2)
    n = 0
    for f in ix.functions.values():
        if f.module != "jaqalpaq.parser.parser":
            continue
        for c in ast.walk(f.node):
            if isinstance(c, ast.Call) and isinstance(c.func, ast.Name) and c.func.id == "open":
                n += 1
                cons = construct_of(f, "open")
                kw = {k.arg: k.value for k in c.keywords}
                nl = kw.get("newline")
                binary = any(isinstance(a, ast.Constant) and isinstance(a.value, str) and "b" in a.value for a in c.args[1:2]) or (isinstance(kw.get("mode"), ast.Constant) and "b" in kw["mode"].value)
                if binary or (isinstance(nl, ast.Constant) and nl.value == ""):
                    rep.ok(rule, cons, "no translation", f"{f.path}:{c.lineno}")
                else:
                    rep.violation(rule, cons, f"`{ast.unparse(c)}` translates a lone CR to a newline: `foo\\ra` is one gate with an argument as a string and two gates from a file; `loop 2\\r{{ foo }}` is accepted as a string and rejected from a file", f"{f.path}:{c.lineno}")
    if n < 2:
        raise AnalysisError(f"{rule}: only {n} open() calls in parser/parser.py")


EXTRA["C16"].append((macro_descent_memoised, "C16.24"))
EXTRA["C02"].append((macro_descent_memoised, "C02.11"))
EXTRA["C02"].append((file_text_untranslated, "C02.12"))


def prebuilt_unknown_refused(ctx, rep, rule):
    ix = ctx.ix
    V = "jaqalpaq.core.circuitbuilder.RebuildMacroInContextVisitor"
    vg = _method(ix, V, "visit_GateStatement")
    gd = _method(ix, "jaqalpaq.core.circuitbuilder.Builder", "get_gate_definition")
    rep.rule(rule, "a statement built ahead of its circuit whose gate name the circuit does not know is refused when made-up gates are not allowed (the relinker raises in its `unknown name` branch, keyed on a marker that get_gate_definition puts on the definitions it makes up)", floor=1)
    cons = construct_of(vg, "unknown-name")
    unk = [st for st in iter_stmts(vg.body) if isinstance(st, ast.If) and _none_test_name(st.test, "gate_def") is False]
    if not unk:
        rep.undecided(rule, cons, "no `gate_def is None` branch", vg.loc())
        return
    st = unk[0]
    raises = [r for r in ast.walk(st) if isinstance(r, ast.Raise)]
    if not raises:
        rep.violation(rule, cons, "a gate name the circuit does not know is kept as it is: `b.loop(2, block_calling_Foo)` and a macro body built by `b.macro(..)` may call gates that do not exist, a macro may call itself or a macro defined later -- the same call written in the body is refused (`No gate Foo defined`)", f"{vg.path}:{st.lineno}", witness="CircuitBuilder(native_gates=ng).loop(2, block with Foo r[0])")
        return
    marks = {c.args[1].value for c in ast.walk(st) if isinstance(c, ast.Call) and isinstance(c.func, ast.Name) and c.func.id == "getattr" and len(c.args) >= 2 and isinstance(c.args[1], ast.Constant)} | {a.attr for a in ast.walk(st.body[0].test) if isinstance(a, ast.Attribute)} if isinstance(st.body[0], ast.If) else set()
    set_marks = {t.attr for a in ast.walk(gd.node) if isinstance(a, ast.Assign) for t in a.targets if isinstance(t, ast.Attribute)}
    if marks & set_marks:
        rep.ok(rule, cons, f"raises for definitions marked `{sorted(marks & set_marks)[0]}` when made-up gates are not allowed", f"{vg.path}:{st.lineno}")
    else:
        rep.violation(rule, cons, f"the refusal is keyed on {sorted(marks) or 'nothing'}, which get_gate_definition never sets: it cannot fire (or fires for real definitions the circuit does not hold by name)", f"{vg.path}:{st.lineno}")


def relative_name_fully_used(ctx, rep, rule):
    ix = ctx.ix
    f = _func(ix, "jaqalpaq._import._jaqal_import_module_relative")
    rep.rule(rule, "every component of a relative pulse-module name takes part in finding the module (`from .pkg.sub usepulses *` must not be answered with the gates of `.pkg`)", floor=1)
    n = 0
    for st in iter_stmts(f.body):
        if isinstance(st, ast.Assign) and isinstance(st.targets[0], ast.Tuple):
            for e in st.targets[0].elts:
                if isinstance(e, ast.Starred) and isinstance(e.value, ast.Name):
                    n += 1
                    rest = e.value.id
                    cons = construct_of(f, f"ignored-components:{rest}")
                    used = any(isinstance(x, ast.Name) and x.id == rest and isinstance(x.ctx, ast.Load) for x in ast.walk(f.node))
                    if used:
                        rep.ok(rule, cons, "the remaining components are used", f"{f.path}:{st.lineno}")
                    else:
                        rep.violation(rule, cons, f"`{ast.unparse(st)}`: the components after the first are never looked at: for `.labgates.v2` the package `labgates` is loaded and filed under the name `labgates.v2`; jaqal_import then falls back on `labgates.jaqal_gates` when an earlier parse left it in sys.modules (programs are checked and emulated with the wrong gate set) and raises ModuleNotFoundError otherwise", f"{f.path}:{st.lineno}", witness="from .labgates usepulses * ; then from .labgates.v2 usepulses *")
    if n == 0:
        rep.ok(rule, construct_of(f, "components"), "the name is not split into a first component and a rest")


def qsyntax_conversions_guarded(ctx, rep, rule):
    ix = ctx.ix
    vi = _func(ix, "jaqalpaq.qsyntax.qsyntax.validate_int")
    rep.rule(rule, "Q-syntax converts a user-given index or size under a handler for TypeError, ValueError and OverflowError (None, a register, NaN, infinity), and looks registers and lets up only after a membership test: the failure is a JaqalError", floor=2)
    cons = construct_of(vi, "int-conversion")
    convs = [c for c in ast.walk(vi.node) if isinstance(c, ast.Call) and isinstance(c.func, ast.Name) and c.func.id == "int"]
    if not convs:
        rep.undecided(rule, cons, "no int() conversion", vi.loc())
    for c in convs:
        need = {"TypeError", "ValueError", "OverflowError"}
        got = set()
        for t in ast.walk(vi.node):
            if isinstance(t, ast.Try) and any(x is c for b in t.body for x in ast.walk(b)):
                for h in t.handlers:
                    if h.type is None:
                        got |= need
                    else:
                        got |= {x.id for x in ast.walk(h.type) if isinstance(x, ast.Name)}
        if "Exception" in got or need <= got:
            rep.ok(rule, cons, "converted under a handler", f"{vi.path}:{c.lineno}")
        else:
            rep.violation(rule, cons, f"`{ast.unparse(c)}` can raise {sorted(need - got)}: `Q.Px(r[None])`, `r[float('nan')]`, `r[float('inf')]` fail with that exception instead of JaqalError", f"{vi.path}:{c.lineno}")
    lo = next((f for f in ix.functions.values() if f.module == "jaqalpaq.qsyntax.qsyntax" and f.name == "lookup_object"), None)
    if lo is None:
        rep.undecided(rule, "qsyntax.qsyntax:lookup_object", "helper not found")
        return
    for s_ in ast.walk(lo.node):
        if isinstance(s_, ast.Subscript) and isinstance(s_.ctx, ast.Load) and isinstance(s_.value, ast.Name) and s_.value.id.endswith("_dict"):
            cons = construct_of(lo, f"lookup:{s_.value.id}")
            tests = [t for t in ast.walk(lo.node) if isinstance(t, ast.Compare) and isinstance(t.ops[0], (ast.In, ast.NotIn)) and isinstance(t.comparators[0], ast.Name) and t.comparators[0].id == s_.value.id]
            tried = any(isinstance(t, ast.Try) and any(x is s_ for b in t.body for x in ast.walk(b)) for t in ast.walk(lo.node))
            if tests or tried:
                rep.ok(rule, cons, "membership is tested first", f"{lo.path}:{s_.lineno}")
            else:
                rep.violation(rule, cons, f"`{ast.unparse(s_)}` raises KeyError for a register or let object that belongs to another circuit", f"{lo.path}:{s_.lineno}")


EXTRA["C14"].append((prebuilt_unknown_refused, "C14.13"))
EXTRA["C14"].append((relative_name_fully_used, "C14.14"))
EXTRA["C16"].append((qsyntax_conversions_guarded, "C16.25"))
EXTRA["C17"] = [(prebuilt_unknown_refused, "C17.9")]


def egg_search_total(ctx, rep, rule):
    ix = ctx.ix
    f = _func(ix, "jaqalpaq._import._jaqal_probe_spec_relative")
    rep.rule(rule, "the egg search of the relative import converts what it cannot handle: a version that does not parse is skipped (or converted), and zipimporter gets a string", floor=2)
    for c in ast.walk(f.node):
        if isinstance(c, ast.Call) and isinstance(c.func, ast.Attribute) and c.func.attr == "parse" and "version" in ast.unparse(c.func.value):
            cons = construct_of(f, "version-parse")
            guarded = any(isinstance(t, ast.Try) and any(x is c for b in t.body for x in ast.walk(b)) and any(h.type is None or {"ValueError", "Exception", "InvalidVersion"} & {x.id if isinstance(x, ast.Name) else x.attr for x in ast.walk(h.type) if isinstance(x, (ast.Name, ast.Attribute))} for h in t.handlers) for t in ast.walk(f.node))
            if guarded:
                rep.ok(rule, cons, "under a handler for ValueError", f"{f.path}:{c.lineno}")
            else:
                rep.violation(rule, cons, f"`{ast.unparse(c)}`: a file `<mod>-latest-py3.egg` in the import path makes `from .<mod> usepulses *` fail with packaging's InvalidVersion (a ValueError) instead of ImportError", f"{f.path}:{c.lineno}")
        if isinstance(c, ast.Call) and isinstance(c.func, ast.Name) and c.func.id == "zipimporter" and c.args:
            cons = construct_of(f, "zipimporter-argument")
            a = c.args[0]
            if isinstance(a, ast.Call) and isinstance(a.func, ast.Name) and a.func.id in ("str", "fspath") or (isinstance(a, ast.Call) and ast.unparse(a.func) == "os.fspath"):
                rep.ok(rule, cons, "a string", f"{f.path}:{c.lineno}")
            elif isinstance(a, ast.BinOp) and isinstance(a.op, ast.Div):
                rep.violation(rule, cons, f"`{ast.unparse(c)}` hands zipimporter a Path: TypeError (expected str) for every well-formed egg", f"{f.path}:{c.lineno}")
            else:
                rep.undecided(rule, cons, f"`{ast.unparse(a)}`", f"{f.path}:{c.lineno}")


def float_parameter_range(ctx, rep, rule):
    ix = ctx.ix
    P = "jaqalpaq.core.parameter.Parameter"
    v = _method(ix, P, "validate")
    rep.rule(rule, "a float parameter accepts an integer -- given directly or through a (chain of) constant(s) -- only if it can be represented as a float (float() under a handler for OverflowError, directly or in a helper method)", floor=1)
    val = v.params[1]
    branch = None
    for st in ast.walk(v.node):
        if isinstance(st, ast.If) and isinstance(st.test, ast.Compare) and "FLOAT" in ast.unparse(st.test.comparators[0]) and ".kind" in ast.unparse(st.test.left) and isinstance(st.test.ops[0], ast.Eq):
            branch = st
    if branch is None:
        rep.undecided(rule, construct_of(v, "float-range"), "FLOAT branch not found", v.loc())
        return

    def range_checked(stmts):
        """Is there a float() conversion under `except OverflowError` in these statements, or in a helper method they call?"""
        def local(nodes):
            for t in nodes:
                if isinstance(t, ast.Try) and any(isinstance(c, ast.Call) and isinstance(c.func, ast.Name) and c.func.id == "float" for b in t.body for c in ast.walk(b)) and any(h.type is None or {"OverflowError", "ArithmeticError", "Exception"} & {x.id for x in ast.walk(h.type) if isinstance(x, ast.Name)} for h in t.handlers):
                    return True
            return False
        nodes = [n for s_ in stmts for n in ast.walk(s_)]
        if local(nodes):
            return True
        for c in nodes:
            if isinstance(c, ast.Call) and isinstance(c.func, ast.Attribute) and isinstance(c.func.value, ast.Name) and c.func.value.id == v.params[0]:
                h = ix.find_method(P, c.func.attr)
                if h is not None and local(list(ast.walk(h.node))):
                    return True
        return False
    # the sub-branches of the FLOAT case
    sub = branch.body[0] if branch.body and isinstance(branch.body[0], ast.If) else None
    n = 0
    ints_done = False
    while isinstance(sub, ast.If):
        t = ast.unparse(sub.test)
        is_int_case = "isinstance" in t and ("Integral" in t or "Real" in t or "Number" in t or "int" in t.replace("isinstance", "")) and "AnnotatedValue" not in t
        if is_int_case and ints_done and "Integral" not in t and "int" not in t.replace("isinstance", ""):
            is_int_case = False  # integers were dealt with by an earlier branch: only floats arrive here
        if is_int_case and ("Integral" in t or "int" in t.replace("isinstance", "")) and "AnnotatedValue" not in t:
            ints_done = True
        is_const_case = "AnnotatedValue" in t and "isinstance" in t
        if is_int_case and "float" not in t and "Real" not in t:
            n += 1
            cons = construct_of(v, "float-range")
            if range_checked(sub.body):
                rep.ok(rule, cons, "an integer is converted under `except OverflowError`", f"{v.path}:{sub.lineno}")
            else:
                rep.violation(rule, cons, "any integer is accepted for a float parameter: `Rz r[0] 1000..0` (310 digits; longer than a float can hold, shorter than the literal limit) parses and then fails with OverflowError inside the gate's unitary", f"{v.path}:{sub.lineno}", witness="Rz r[0] 1" + "0" * 20 + "...")
        elif is_int_case:
            # int and float accepted together
            n += 1
            cons = construct_of(v, "float-range")
            if range_checked(sub.body):
                rep.ok(rule, cons, "numbers are converted under `except OverflowError`", f"{v.path}:{sub.lineno}")
            else:
                rep.violation(rule, cons, "any integer is accepted for a float parameter: a 310-digit integer angle parses and then fails with OverflowError inside the gate's unitary", f"{v.path}:{sub.lineno}")
        if is_const_case:
            n += 1
            cons = construct_of(v, "float-range-of-constants")
            if range_checked(sub.body):
                rep.ok(rule, cons, "the number a constant stands for is range-checked too", f"{v.path}:{sub.lineno}")
            else:
                rep.violation(rule, cons, "a constant is accepted for a float parameter whatever its value: `let b <401 digits>; Rz q[0] b` parses, and the same call is refused once the let is substituted (and fails in the emulator otherwise)", f"{v.path}:{sub.lineno}", witness="let b 1000..0 (401 digits); Rz q[0] b")
        sub = sub.orelse[0] if len(sub.orelse) == 1 and isinstance(sub.orelse[0], ast.If) else None
    if n == 0:
        rep.undecided(rule, construct_of(v, "float-range"), "no integer case in the FLOAT branch", f"{v.path}:{branch.lineno}")


def number_types_abstract(ctx, rep, rule):
    ix = ctx.ix
    v = _method(ix, "jaqalpaq.core.parameter.Parameter", "validate")
    rep.rule(rule, "Parameter.validate recognises numbers by the abstract types (numbers.Integral / numbers.Real), like Register, NamedQubit, as_integer and the generator do -- not by the builtin classes only", floor=2)
    val = v.params[1]
    n = 0
    for c in ast.walk(v.node):
        if isinstance(c, ast.Call) and isinstance(c.func, ast.Name) and c.func.id == "isinstance" and len(c.args) == 2 and isinstance(c.args[0], ast.Name) and c.args[0].id == val:
            kinds = {ast.unparse(x).split(".")[-1] for x in (c.args[1].elts if isinstance(c.args[1], ast.Tuple) else [c.args[1]])}
            if kinds & {"int", "float"}:
                n += 1
                rep.violation(rule, construct_of(v, f"number-test:{'-'.join(sorted(kinds))}"), f"`{ast.unparse(c)}` misses numbers of other types: `Rz q[0] numpy.float32(0.5)` and a stretch factor or integer argument taken from a numpy array are refused (`parameter k=3 does not have type ParamType.INT`) although sizes, indices, lets, overrides and the generator take them", f"{v.path}:{c.lineno}")
            elif kinds & {"Integral", "Real", "Number"}:
                n += 1
                rep.ok(rule, construct_of(v, f"number-test:{'-'.join(sorted(kinds))}"), f"`{ast.unparse(c)}`", f"{v.path}:{c.lineno}")
    if n < 2:
        raise AnalysisError(f"{rule}: only {n} number tests in Parameter.validate")


def repeated_parameter_names(ctx, rep, rule):
    ix = ctx.ix
    AG = "jaqalpaq.core.gatedef.AbstractGate"
    init = _method(ix, AG, "__init__")
    cp = _method(ix, AG, "copy")
    rep.rule(rule, "a gate definition whose parameter names repeat is refused when it is made or copied with new parameters (arguments are bound by name: no call could satisfy it)", floor=2)
    for m, what in ((init, "made"), (cp, "copied")):
        cons = construct_of(m, "unique-names")
        ok = False
        for c in ast.walk(m.node):
            if isinstance(c, ast.Call) and isinstance(c.func, ast.Name):
                r = ix.resolve_name(m.module, c.func.id, m)
                h = ix.functions.get(r[1]) if r and r[0] == "func" else None
                if h is not None and any(isinstance(x, ast.Raise) for x in ast.walk(h.node)) and "name" in ast.unparse(h.node) and ("set(" in ast.unparse(h.node) or "Counter" in ast.unparse(h.node)):
                    ok = True
        if not ok:
            ok = any(isinstance(x, ast.Raise) for x in ast.walk(m.node)) and "set(" in ast.unparse(m.node)
        if ok:
            rep.ok(rule, cons, f"names are compared when a definition is {what}", m.loc())
        else:
            rep.violation(rule, cons, f"a definition can be {what} with two parameters of one name: GateDefinition('MS', [q, q]) is accepted, and MS, I_MS and MS_stretched all refuse every call (`Bad argument count: expected 2, found 1`)", m.loc())


def emulator_missing_gate(ctx, rep, rule):
    ix = ctx.ix
    ms = _method(ix, "jaqalpaq.emulator.unitary.UnitarySerializedEmulator", "_make_subcircuit")
    rep.rule(rule, "a statement whose gate is not in the native gate table is passed over only if its own definition is a busy one (a bounding gate made up by expand_subcircuits); any other unknown gate is refused", floor=1)
    cons = construct_of(ms, "gate-not-in-table")
    hs = [h for t in ast.walk(ms.node) if isinstance(t, ast.Try) for h in t.handlers if h.type is not None and "KeyError" in ast.unparse(h.type)]
    if not hs:
        rep.undecided(rule, cons, "no KeyError handler around the gate table look-up", ms.loc())
        return
    h = hs[0]
    raises = any(isinstance(r, ast.Raise) for r in ast.walk(h))
    skips = [c for c in ast.walk(h) if isinstance(c, ast.Continue)]
    if not raises:
        rep.violation(rule, cons, "an unknown gate is skipped silently", f"{ms.path}:{h.lineno}")
    elif not skips:
        rep.violation(rule, cons, "every statement is looked up by name: `register q[1]; subcircuit { Px q[0] }` with a gate set that has no prepare_all/measure_all parses (expand_subcircuits makes up busy bounding gates, and parse_jaqal_output_list handles the circuit) but run_jaqal_circuit refuses it with `No native gate prepare_all to emulate`", f"{ms.path}:{h.lineno}")
    else:
        guarded = all(any(taken and "Busy" in ast.unparse(t) for t, taken in _enclosing_ifs(ms.node, c)) for c in skips)
        if guarded:
            rep.ok(rule, cons, "skipped only for busy definitions; refused otherwise", f"{ms.path}:{h.lineno}")
        else:
            rep.violation(rule, cons, "a statement with an unknown gate is skipped whatever its definition: a misspelt gate is emulated as the identity", f"{ms.path}:{h.lineno}")


def wraparound_test(ctx, rep, rule):
    ix = ctx.ix
    vb = _method(ix, "jaqalpaq.core.algorithm.walkers.DiscoverSubcircuits", "visit_BlockStatement")
    rep.rule(rule, "the refusal `measure_all -> prepare_all in a loop` asks whether the trace that was open at entry was MEASURED in the body (its end is set), not whether any trace was completed there: a prepare_all superseded by one in the body is legal", floor=1)
    cons = construct_of(vb, "wrap-around")
    hit = None
    for r in ast.walk(vb.node):
        if isinstance(r, ast.Raise):
            for t, taken in _enclosing_ifs(vb.node, r):
                # (the refusal about what was measured or completed in the body, not the one about gates put into a superseded trace)
                if taken and "had_started" in ast.unparse(t) and (".end" in ast.unparse(t) or "len(" in ast.unparse(t)):
                    hit = t
    if hit is None:
        rep.undecided(rule, cons, "no refusal depending on had_started", vb.loc())
        return
    src = ast.unparse(hit)
    if ".end" in src and "open_at_entry" in src:
        ok = any(isinstance(c, ast.Compare) and ".end" in ast.unparse(c.left) and isinstance(c.ops[0], ast.IsNot) for c in ast.walk(hit))
        if ok:
            rep.ok(rule, cons, f"`{src[:80]}`", f"{vb.path}:{hit.lineno}")
        else:
            rep.violation(rule, cons, f"`{src[:90]}` has the wrong sense", f"{vb.path}:{hit.lineno}")
    elif "len(" in src and "subcircuits" in src:
        rep.violation(rule, cons, f"`{src[:90]}` fires when ANY trace was completed in the body: `prepare_all; loop 2 {{ prepare_all; measure_all }}` (the first prepare_all is superseded, nothing wraps around) is refused although the same statements without the loop, with `loop 1`, or entirely inside the loop are executed", f"{vb.path}:{hit.lineno}", witness="prepare_all; loop 2 { subcircuit {} }")
    else:
        rep.undecided(rule, cons, f"`{src[:80]}`", f"{vb.path}:{hit.lineno}")


def made_up_bounding_busy(ctx, rep, rule):
    ix = ctx.ix
    gd = _method(ix, "jaqalpaq.core.circuitbuilder.Builder", "get_gate_definition")
    rep.rule(rule, "without a gate set the definitions made up for prepare_all and measure_all are busy ones (they act on every qubit, like the native gates they stand for and like the ones expand_subcircuits makes up)", floor=1)
    cons = construct_of(gd, "made-up-bounding-gates")
    made = [c for c in ast.walk(gd.node) if isinstance(c, ast.Call) and isinstance(c.func, ast.Name) and c.func.id.endswith("GateDefinition")]
    busy = [c for c in made if c.func.id == "BusyGateDefinition"]
    names = any("prepare_all" in ast.unparse(t) and "measure_all" in ast.unparse(t) for c in busy for t, taken in _enclosing_ifs(gd.node, c) if taken)
    if busy and names:
        rep.ok(rule, cons, "BusyGateDefinition for the two names", gd.loc())
    else:
        rep.violation(rule, cons, "every unknown name gets a plain definition: `prepare_all; Px q[0]; measure_all` parsed without a gate set uses qubit 0 only, while the same program written `subcircuit { Px q[0] }`, its expand_subcircuits form, and the text parsed with a gate set use every qubit; writing the expanded circuit out and parsing it again flips the answer", gd.loc(), witness="parse_jaqal_string('register q[3]; prepare_all; Px q[0]; measure_all', autoload_pulses=False)")


def parameter_constant_symmetry(ctx, rep, rule):
    ix = ctx.ix
    av = _method(ix, "jaqalpaq.core.parameter.AnnotatedValue", "__eq__")
    ce = ix.find_method("jaqalpaq.core.constant.Constant", "__eq__")
    rep.rule(rule, "equality between a parameter and a constant is symmetric: Constant.__eq__ needs a `.value` on the other side, so AnnotatedValue.__eq__ answers False for an operand that has one", floor=1)
    cons = construct_of(av, "constant-operand")
    needs_value = ce is not None and ce.cls.endswith("Constant") and any(isinstance(a, ast.Attribute) and a.attr in ("value", "_value") and isinstance(a.value, ast.Name) and a.value.id == ce.params[1] for a in ast.walk(ce.node))
    if not needs_value:
        rep.ok(rule, cons, "Constant.__eq__ does not ask for a value", av.loc())
        return
    othern = av.params[1]
    handles = any(isinstance(st, ast.If) and ("value" in ast.unparse(st.test) or "Constant" in ast.unparse(st.test)) and othern in _names(st.test) and any(isinstance(r, ast.Return) and isinstance(r.value, ast.Constant) and r.value.value is False for r in st.body) for st in ast.walk(av.node))
    typed = any(isinstance(c, ast.Compare) and "type(" in ast.unparse(c) for c in ast.walk(av.node))
    if handles or typed:
        rep.ok(rule, cons, "an operand with a value (a constant) never equals a parameter", av.loc())
    else:
        rep.violation(rule, cons, "AnnotatedValue.__eq__ compares name and kind only, so Parameter('a', INT) == Constant('a', 1) while Constant('a', 1) != Parameter('a', INT): two circuits compare equal in one direction only", av.loc(), witness="macro m a { G r[0] a } with a declared INT, against the same text using the let a")


EXTRA["C16"].append((egg_search_total, "C16.26"))
EXTRA["C16"].append((float_parameter_range, "C16.27"))
EXTRA["C18"].append((float_parameter_range, "C18.14"))


def lexer_token_positions(ctx, rep, rule):
    """Inside a token action sly has already advanced self.index past the
    match: the position of the token is token.index."""
    ix = ctx.ix
    L = "jaqalpaq.parser.slyparse.JaqalLexer"
    if L not in ix.classes:
        raise AnalysisError("anchor vanished: JaqalLexer")
    rep.rule(rule, "a lexer token action reports the position of its token from token.index (self.index already points past the match there); only the error hook, called before anything is consumed, may use self.index", floor=2)
    ci = ix.classes[L]
    n = 0

    def reads_self_index(m, depth=0):
        selfn = m.params[0]
        for x in ast.walk(m.node):
            if isinstance(x, ast.Attribute) and x.attr == "index" and isinstance(x.value, ast.Name) and x.value.id == selfn:
                return x
            if depth < 1 and isinstance(x, ast.Call) and isinstance(x.func, ast.Attribute) and isinstance(x.func.value, ast.Name) and x.func.value.id == selfn:
                h = ci.methods.get(x.func.attr)
                if h is not None and h is not m and reads_self_index(h, depth + 1) is not None:
                    return x
        return None
    for name, m in ci.methods.items():
        if not name.isupper() or len(m.params) < 2:
            continue
        if not any(isinstance(r, ast.Raise) for r in ast.walk(m.node)):
            continue
        n += 1
        cons = construct_of(m, "position")
        bad = reads_self_index(m)
        if bad is not None:
            rep.violation(rule, cons, f"`{ast.unparse(bad)[:50]}` in the action of token {name}: the column reported for `literal too large` is the one just past the literal, not that of its first character", f"{m.path}:{bad.lineno}")
        else:
            rep.ok(rule, cons, "position taken from the token", m.loc())
    if n < 2:
        raise AnalysisError(f"{rule}: only {n} raising token actions in JaqalLexer (INT and NUMBER on the pinned tree)")


def visited_field_used_raw(ctx, rep, rule, modules):
    """If a handler visits a field of its node, results are built from the
    visited value, not from the field again."""
    ix = ctx.ix
    VIS = "jaqalpaq.core.algorithm.visitor.Visitor"
    rep.rule(rule, "in a handler that visits a field of its node (`new = self.visit(node.f)`), the result is built from the visited value: the raw `node.f` does not appear again as an argument of a constructor or builder call", floor=3)
    n = 0
    for k in ix.subclasses(VIS):
        ci = ix.classes[k]
        if ci.module not in modules:
            continue
        for name, m in ci.methods.items():
            if not name.startswith("visit_") or len(m.params) < 2:
                continue
            selfn, p = m.params[0], m.params[1]
            visited = {}
            for c in ast.walk(m.node):
                if isinstance(c, ast.Call) and isinstance(c.func, ast.Attribute) and isinstance(c.func.value, ast.Name) and c.func.value.id == selfn:
                    for a in c.args:
                        if isinstance(a, ast.Attribute) and isinstance(a.value, ast.Name) and a.value.id == p:
                            visited.setdefault(a.attr, c)
            if not visited:
                continue
            n += 1
            cons = construct_of(m, "visited-fields")
            bad = None
            in_tests = {id(x) for st in ast.walk(m.node) if isinstance(st, (ast.If, ast.While, ast.IfExp, ast.Assert)) for x in ast.walk(st.test)}
            for c in ast.walk(m.node):
                if not isinstance(c, ast.Call) or id(c) in in_tests:
                    continue  # (a test may well compare with what the node was before)
                f_ = c.func
                if isinstance(f_, ast.Attribute) and isinstance(f_.value, ast.Name) and f_.value.id == selfn:
                    continue
                if isinstance(f_, ast.Name) and f_.id in ("isinstance", "len", "getattr", "hasattr", "type", "id", "repr", "str"):
                    continue
                for a in list(c.args) + [kw.value for kw in c.keywords]:
                    if isinstance(a, ast.Attribute) and isinstance(a.value, ast.Name) and a.value.id == p and a.attr in visited:
                        bad = (c, a)
            if bad is not None:
                c, a = bad
                rep.violation(rule, cons, f"`{ast.unparse(c)[:70]}` is built from the raw `{ast.unparse(a)}` although the handler has visited that field (`{ast.unparse(visited[a.attr])[:40]}`): on this path what the pass did below the field is thrown away (e.g. a single-qubit alias keeps resolving through the un-substituted chain)", f"{m.path}:{c.lineno}")
            else:
                rep.ok(rule, cons, f"visited {sorted(visited)}; none re-used raw", m.loc())
    if n < 3:
        raise AnalysisError(f"{rule}: only {n} handlers visit a field in {modules}")


EXTRA["C16"].append((lexer_token_positions, "C16.28"))
EXTRA["C05"].append((visited_field_used_raw, "C05.17", ["jaqalpaq.core.algorithm.fill_in_let"]))
EXTRA["C10"].append((visited_field_used_raw, "C10.18", ["jaqalpaq.core.algorithm.fill_in_let", "jaqalpaq.core.algorithm.fill_in_map", "jaqalpaq.core.algorithm.expand_macros", "jaqalpaq.core.algorithm.expand_subcircuits", "jaqalpaq.core.algorithm.unit_timing"]))


# ---------------------------------------------------------------- fourth batch (sweep 5)

def parallel_state_all_fields(ctx, rep, rule):
    ix = ctx.ix
    DS = "jaqalpaq.core.algorithm.walkers.DiscoverSubcircuits"
    vb = _method(ix, DS, "visit_BlockStatement")
    vg = _method(ix, DS, "visit_GateStatement")
    rep.rule(rule, "the refusal of state changes between parallel branches looks at EVERY piece of state a gate can change (the open trace and the list of closed ones)", floor=1)
    selfn = vg.params[0]
    written = {t.attr for st in ast.walk(vg.node) if isinstance(st, ast.Assign) for t in st.targets if isinstance(t, ast.Attribute) and isinstance(t.value, ast.Name) and t.value.id == selfn}
    written |= {n.func.value.attr for n in ast.walk(vg.node) if isinstance(n, ast.Call) and isinstance(n.func, ast.Attribute) and n.func.attr in ("append", "extend") and isinstance(n.func.value, ast.Attribute) and isinstance(n.func.value.value, ast.Name) and n.func.value.value.id == selfn}
    read = {n.attr for n in ast.walk(vg.node) if isinstance(n, ast.Attribute) and isinstance(n.ctx, ast.Load) and isinstance(n.value, ast.Name) and n.value.id == selfn}
    state = {a for a in written if a in read and a != "address"}
    cons = construct_of(vb, "parallel-state-fields")
    guards = [t for r in ast.walk(vb.node) if isinstance(r, ast.Raise) for t, taken in _enclosing_ifs(vb.node, r) if taken and any(f".{a}" in ast.unparse(t) for a in state) and any("parallel" in ast.unparse(t2) for t2, _ in _enclosing_ifs(vb.node, r))]
    if not guards:
        rep.undecided(rule, cons, "no state comparison guards the refusal", vb.loc())
        return
    seen = {a for a in state for g in guards if f".{a}" in ast.unparse(g)}
    if seen == state:
        rep.ok(rule, cons, f"compares {sorted(state)}", vb.loc())
    else:
        rep.violation(rule, cons, f"the refusal compares {sorted(seen)} only, not {sorted(state - seen)}: a branch that only {'opens a trace (prepare_all)' if 'current' in state - seen else 'closes one (measure_all)'} next to other branches passes, and acceptance depends on the order of the branches again", f"{vb.path}:{guards[0].lineno}")


def discovery_more(ctx, rep, rule):
    ix = ctx.ix
    DS = "jaqalpaq.core.algorithm.walkers.DiscoverSubcircuits"
    TV = "jaqalpaq.core.algorithm.walkers.TraceVisitor"
    vb = _method(ix, DS, "visit_BlockStatement")
    vg = _method(ix, DS, "visit_GateStatement")
    dc = _method(ix, DS, "visit_Circuit")
    tl = _method(ix, TV, "visit_LoopStatement")
    rep.rule(rule, "discovery keeps both loop-body refusals, refuses a measure gate without an open trace, drops exactly the trace that is still open at the end; the walker skips a loop exactly when its count is <= 0 and reads only fields a Trace has", floor=5)
    cons = construct_of(vb, "both-refusals")
    kinds = set()
    for r in ast.walk(vb.node):
        if isinstance(r, ast.Raise):
            src = " ".join(ast.unparse(t) for t, _ in _enclosing_ifs(vb.node, r))
            if "reps" not in src:
                continue
            if "had_started" in src and (".end" in src or "len(" in src):
                kinds.add("measured-in-body")
            elif "is not None" in src and "open_at_entry" in src and "had_started" not in src:
                kinds.add("left-open")
    n = len(kinds)
    if n >= 2:
        rep.ok(rule, cons, "a trace measured in, and a trace left open by, a body that does not run exactly once are both refused", vb.loc())
    else:
        rep.violation(rule, cons, f"of the two refusals for bodies that do not run exactly once only {sorted(kinds) or 'none'} exists: either a trace closed and reopened inside a repeated body, or one left open at its end, is accepted and yields the wrong number of readouts", vb.loc())
    cons = construct_of(vg, "measure-needs-open-trace")
    closing = [st for st in ast.walk(vg.node) if isinstance(st, ast.If) and "m_gate" in ast.unparse(st.test)]
    if closing:
        g = [i for b in closing[0].body for i in ast.walk(b) if isinstance(i, ast.If) and _none_test(i.test, "current") is False and any(isinstance(r, ast.Raise) for r in i.body)]
        if g:
            rep.ok(rule, cons, "`if self.current is None: raise`", f"{vg.path}:{g[0].lineno}")
        else:
            rep.violation(rule, cons, "a measure gate without an open trace is not refused: `measure_all` as the first statement fails with AttributeError on None instead of a JaqalError", f"{vg.path}:{closing[0].lineno}")
    cons = construct_of(dc, "open-trace-dropped")
    hit = False
    for st in iter_stmts(dc.body):
        if isinstance(st, ast.If) and ".end" in ast.unparse(st.test):
            hit = True
            e, neg = st.test, False
            while isinstance(e, ast.UnaryOp) and isinstance(e.op, ast.Not):
                neg, e = not neg, e.operand
            open_ = isinstance(e, ast.Compare) and isinstance(e.ops[0], (ast.Is, ast.Eq)) and isinstance(e.comparators[0], ast.Constant) and e.comparators[0].value is None
            open_ = open_ != neg
            drops = lambda body: any(isinstance(r, ast.Return) and isinstance(r.value, ast.Subscript) and isinstance(r.value.slice, ast.Slice) and r.value.slice.upper is not None for r in body)
            open_branch = st.body if open_ else st.orelse
            if drops(open_branch):
                rep.ok(rule, cons, "the last trace is dropped when it has no end", f"{dc.path}:{st.lineno}")
            else:
                rep.violation(rule, cons, f"`if {ast.unparse(st.test)}`: the last COMPLETE subcircuit is dropped (it never gets a readout) and an unfinished one is kept", f"{dc.path}:{st.lineno}")
    if not hit:
        rep.undecided(rule, cons, "no test of the last trace's end", dc.loc())
    cons = construct_of(tl, "skip-when-no-iterations")
    sk = [st for st in iter_stmts(tl.body) if isinstance(st, ast.If) and "iterations" in ast.unparse(st.test) and any(isinstance(s, ast.Return) for s in ast.walk(st))]
    if not sk:
        rep.undecided(rule, cons, "no zero-count branch", tl.loc())
    for st in sk:
        t = st.test
        ok = isinstance(t, ast.Compare) and len(t.ops) == 1 and ((isinstance(t.ops[0], ast.LtE) and isinstance(t.comparators[0], ast.Constant) and t.comparators[0].value == 0) or (isinstance(t.ops[0], ast.Lt) and isinstance(t.comparators[0], ast.Constant) and t.comparators[0].value == 1))
        if ok:
            rep.ok(rule, cons, f"`if {ast.unparse(t)}` skips", f"{tl.path}:{st.lineno}")
        elif isinstance(t, ast.UnaryOp):
            rep.violation(rule, cons, f"`if {ast.unparse(t)}`: loops that DO run are skipped (their subcircuits get no readouts) and loops with a count <= 0 are walked", f"{tl.path}:{st.lineno}")
        else:
            rep.undecided(rule, cons, f"`{ast.unparse(t)}` (strictness is decided by C08.4)", f"{tl.path}:{st.lineno}")
    # fields of Trace
    T_ = "jaqalpaq.core.algorithm.walkers.Trace"
    fields = set(ix.init_fields(T_)) if T_ in ix.classes else set()
    fields |= {f.lstrip("_") for f in fields}
    cons = f"core.algorithm.walkers:TraceVisitor:trace-fields"
    bad = None
    nread = 0
    for m in ix.classes[TV].methods.values():
        for a in ast.walk(m.node):
            if isinstance(a, ast.Attribute) and isinstance(a.value, ast.Subscript) and isinstance(a.value.value, ast.Attribute) and a.value.value.attr == "traces":
                nread += 1
                if fields and a.attr not in fields:
                    bad = (m, a)
    if bad:
        rep.violation(rule, cons, f"`{ast.unparse(bad[1])}`: a Trace has {sorted(f for f in fields if not f.startswith('_'))}; the read fails with AttributeError as soon as a second trace is looked at", f"{bad[0].path}:{bad[1].lineno}")
    elif nread:
        rep.ok(rule, cons, f"{nread} reads of trace fields, all declared", ix.classes[TV].loc())


PART_TEXT = {
    "marker": "the marker on made-up gate definitions is True",
    "relinker": "the builder's relinker compares definitions by identity, for macros and native gates alike",
    "contains": "contains_subcircuit answers `is a subcircuit or contains one`, with False as default and positive type tests",
    "constint": "int() of a constant recurses exactly when its value is a constant",
    "isnan": "every isnan() in gate equality is applied to a value known to be a float",
    "stretch": "stretched_gates skips what it HAS generated and renames while the name IS taken",
    "total": "the total error of a distribution is |total - 1|",
    "injected": "an injected gate wins over an imported one of the same name",
}


def small_polarities(ctx, rep, rule, parts):
    """Polarity of tests that earlier rules recognise by their operands."""
    ix = ctx.ix
    rep.rule(rule, "; ".join(PART_TEXT[p_] for p_ in parts), floor=1)
    if "marker" in parts:
        _sp_marker(ctx, rep, rule)
    if "relinker" in parts:
        _sp_relinker(ctx, rep, rule)
    if "contains" in parts:
        _sp_contains(ctx, rep, rule)
    if "constint" in parts:
        _sp_constint(ctx, rep, rule)
    if "isnan" in parts:
        _sp_isnan(ctx, rep, rule)
    if "stretch" in parts:
        _sp_stretch(ctx, rep, rule)
    if "total" in parts:
        _sp_total(ctx, rep, rule)
    if "injected" in parts:
        _sp_injected(ctx, rep, rule)


def _sp_marker(ctx, rep, rule):
    ix = ctx.ix
    gd = _method(ix, "jaqalpaq.core.circuitbuilder.Builder", "get_gate_definition")
    for a in ast.walk(gd.node):
        if isinstance(a, ast.Assign) and any(isinstance(t, ast.Attribute) and t.attr == "made_up" for t in a.targets):
            cons = construct_of(gd, "marker-value")
            if isinstance(a.value, ast.Constant) and a.value.value is True:
                rep.ok(rule, cons, "made_up = True", f"{gd.path}:{a.lineno}")
            else:
                rep.violation(rule, cons, f"`{ast.unparse(a)}`: the marker never marks, so unknown gates in pre-built statements are accepted again", f"{gd.path}:{a.lineno}")


def _sp_relinker(ctx, rep, rule):
    ix = ctx.ix
    vg = _method(ix, "jaqalpaq.core.circuitbuilder.RebuildMacroInContextVisitor", "visit_GateStatement")
    cons = construct_of(vg, "definition-identity")
    cmps = [c for c in ast.walk(vg.node) if isinstance(c, ast.Compare) and ".gate_def" in ast.unparse(c) and len(c.ops) == 1 and not (isinstance(c.comparators[0], ast.Constant))]
    if not cmps:
        rep.undecided(rule, cons, "no comparison of definitions", vg.loc())
    else:
        by_eq = [c for c in cmps if isinstance(c.ops[0], (ast.Eq, ast.NotEq))]
        if by_eq:
            rep.violation(rule, cons, f"`{ast.unparse(by_eq[0])}` compares definitions by equality: a macro built ahead of the circuit EQUALS its relinked version (Macro.__eq__ is structural and statements ignore their definitions), so a call made with the object that CircuitBuilder.macro() returned keeps the stale body, in which idle and busy gates are still made-up plain ones; a made-up prepare_all equals the busy one", f"{vg.path}:{by_eq[0].lineno}", witness="foo = b.macro('foo', ..); b.gate(foo(q[0], q[1]))")
        else:
            rep.ok(rule, cons, f"{len(cmps)} identity comparisons", vg.loc())


def _sp_contains(ctx, rep, rule):
    ix = ctx.ix
    cs = ix.functions.get("jaqalpaq.core.circuitbuilder.contains_subcircuit")
    if cs is not None:
        cons = construct_of(cs, "answer")
        blk = [st for st in iter_stmts(cs.body) if isinstance(st, ast.If) and "BlockStatement" in ast.unparse(st.test)]
        ok = False
        why = "no branch for blocks"
        if blk:
            rets = [r for r in ast.walk(blk[0]) if isinstance(r, ast.Return)]
            v = rets[0].value if rets else None
            if isinstance(v, ast.BoolOp) and isinstance(v.op, ast.Or) and any(isinstance(x, ast.Attribute) and x.attr == "subcircuit" for x in v.values) and any(isinstance(x, ast.Call) and isinstance(x.func, ast.Name) and x.func.id == "any" for x in v.values):
                ok = True
            else:
                why = f"`{ast.unparse(v)[:70] if v is not None else ''}` is not `obj.subcircuit or any(...)`"
        last = cs.body[-1]
        default_false = isinstance(last, ast.Return) and isinstance(last.value, ast.Constant) and last.value.value is False
        positive = all(isinstance(st.test, ast.Call) for st in iter_stmts(cs.body) if isinstance(st, ast.If) and "isinstance" in ast.unparse(st.test))
        if ok and default_false and positive:
            rep.ok(rule, cons, "block: is one or contains one; default False", cs.loc())
        else:
            rep.violation(rule, cons, (why if not ok else "the default answer is not False" if not default_false else "a type test is negated") + ": calls of macros that contain a subcircuit are accepted inside subcircuits or parallel blocks again (or every macro call there is refused)", cs.loc())


def _sp_constint(ctx, rep, rule):
    ix = ctx.ix
    ci = _method(ix, "jaqalpaq.core.constant.Constant", "__int__")
    for st in ast.walk(ci.node):
        if isinstance(st, ast.If) and "Constant" in ast.unparse(st.test) and "isinstance" in ast.unparse(st.test):
            cons = construct_of(ci, "chain-polarity")
            if isinstance(st.test, ast.Call):
                rep.ok(rule, cons, f"`{ast.unparse(st.test)}`", f"{ci.path}:{st.lineno}")
            else:
                rep.violation(rule, cons, f"`{ast.unparse(st.test)}`: int() recurses on values that are not constants and refuses constants of constants", f"{ci.path}:{st.lineno}")


def _sp_isnan(ctx, rep, rule):
    ix = ctx.ix
    eq = _method(ix, "jaqalpaq.core.gate.GateStatement", "__eq__")
    for c in ast.walk(eq.node):
        if isinstance(c, ast.Call) and ast.unparse(c.func).endswith("isnan") and c.args and isinstance(c.args[0], ast.Name):
            x = c.args[0].id
            cons = construct_of(eq, f"isnan:{x}")
            is_float = lambda e: isinstance(e, ast.Call) and isinstance(e.func, ast.Name) and e.func.id == "isinstance" and isinstance(e.args[0], ast.Name) and e.args[0].id == x and "float" in ast.unparse(e.args[1])
            holders = [b for b in ast.walk(eq.node) if isinstance(b, ast.BoolOp) and isinstance(b.op, ast.And) and any(y is c for y in ast.walk(b))]
            guarded = any(any(is_float(v) for v in b.values) for b in holders)
            if guarded:
                rep.ok(rule, cons, "after isinstance(.., float)", f"{eq.path}:{c.lineno}")
            else:
                rep.violation(rule, cons, f"`{ast.unparse(c)}` is applied to an argument that need not be a float: comparing `Rz q[0] nan` with `Rz q[0] t` (a let) or with a qubit argument raises TypeError instead of answering False", f"{eq.path}:{c.lineno}")


def _sp_stretch(ctx, rep, rule):
    ix = ctx.ix
    sg = _func(ix, "jaqalpaq.core.stretch.stretched_gates")
    for st in ast.walk(sg.node):
        if isinstance(st, ast.If) and any(isinstance(s, ast.Continue) for s in st.body) and "new_gates" in ast.unparse(st.test):
            cons = construct_of(sg, "skip-polarity")
            t = st.test
            if isinstance(t, ast.Compare) and isinstance(t.ops[0], ast.In):
                rep.ok(rule, cons, f"`if {ast.unparse(t)}: continue`", f"{sg.path}:{st.lineno}")
            else:
                rep.violation(rule, cons, f"`if {ast.unparse(t)}: continue` skips every gate that has NOT been generated yet: the result is empty", f"{sg.path}:{st.lineno}")
        if isinstance(st, ast.While) and "stretch_name" in ast.unparse(st.test):
            cons = construct_of(sg, "rename-polarity")
            cmps = [c for c in ast.walk(st.test) if isinstance(c, ast.Compare)]
            if cmps and all(isinstance(c.ops[0], ast.Eq) for c in cmps) and not isinstance(st.test, ast.UnaryOp):
                rep.ok(rule, cons, f"`while {ast.unparse(st.test)[:60]}`", f"{sg.path}:{st.lineno}")
            else:
                rep.violation(rule, cons, f"`while {ast.unparse(st.test)[:70]}` renames while some OTHER parameter has another name (always, for a gate with parameters: the loop never ends) and keeps a taken name", f"{sg.path}:{st.lineno}")


def _sp_total(ctx, rep, rule):
    ix = ctx.ix
    pi = _method(ix, "jaqalpaq.core.result.ProbabilisticSubcircuit", "__init__")
    te = [v for v in _local_defs(pi.node, "total_err") if not isinstance(v, ast.AugAssign)]
    if te:
        cons = construct_of(pi, "total-error")
        subs = [b for b in ast.walk(te[0]) if isinstance(b, ast.BinOp) and isinstance(b.op, ast.Sub)]
        if subs and any(isinstance(b.right, ast.Constant) and b.right.value == 1 or isinstance(b.left, ast.Constant) and b.left.value == 1 for b in subs):
            rep.ok(rule, cons, f"`{ast.unparse(te[0])}`", f"{pi.path}:{te[0].lineno}")
        else:
            rep.violation(rule, cons, f"`total_err = {ast.unparse(te[0])}` is not the distance of the total from one: every exact distribution has `error` 1 and is refused (RuntimeError)", f"{pi.path}:{te[0].lineno}")


def _sp_injected(ctx, rep, rule):
    ix = ctx.ix
    ug = _method(ix, "jaqalpaq.core.usepulses.UsePulsesStatement", "update_gates")
    for st in ast.walk(ug.node):
        if isinstance(st, ast.If) and any(isinstance(s, ast.Continue) for s in st.body) and "inject_pulses" in ast.unparse(st.test):
            cons = construct_of(ug, "injected-wins")
            member = [c for c in ast.walk(st.test) if isinstance(c, ast.Compare) and isinstance(c.ops[0], (ast.In, ast.NotIn))]
            if member and isinstance(member[0].ops[0], ast.In) and not isinstance(st.test, ast.UnaryOp):
                rep.ok(rule, cons, f"`if {ast.unparse(st.test)}: continue`", f"{ug.path}:{st.lineno}")
            else:
                rep.violation(rule, cons, f"`if {ast.unparse(st.test)}: continue`: an imported gate replaces the injected one of the same name, and imported gates that were NOT injected are dropped", f"{ug.path}:{st.lineno}")


EXTRA["C13"].append((parallel_state_all_fields, "C13.21"))
EXTRA["C08"].append((discovery_more, "C08.14"))
for _p, _r, _parts in (("C14", "C14.15", ("marker", "injected")), ("C13", "C13.22", ("relinker",)), ("C01", "C01.15", ("contains",)), ("C06", "C06.19", ("constint",)), ("C20", "C20.13", ("isnan",)), ("C18", "C18.15", ("stretch",)), ("C15", "C15.16", ("total",))):
    EXTRA.setdefault(_p, []).append((small_polarities, _r, _parts))

EXTRA["C18"].append((number_types_abstract, "C18.16"))
EXTRA["C18"].append((repeated_parameter_names, "C18.17"))
EXTRA["C08"].append((emulator_missing_gate, "C08.15"))
EXTRA["C08"].append((wraparound_test, "C08.16"))
EXTRA["C03"].append((emulator_missing_gate, "C03.10"))
EXTRA["C13"].append((made_up_bounding_busy, "C13.23"))
EXTRA["C20"].append((parameter_constant_symmetry, "C20.14"))


def zero_step_unconditional(ctx, rep, rule):
    ix = ctx.ix
    ri = _method(ix, "jaqalpaq.core.register.Register", "__init__")
    rep.rule(rule, "a literal slice step of zero is refused under a test of the step alone (not only in the branch taken when every bound and the source size are literal)", floor=1)
    cons = construct_of(ri, "zero-step")
    raises = [r for r in ast.walk(ri.node) if isinstance(r, ast.Raise) and "step" in ast.unparse(r).lower() and "zero" in ast.unparse(r).lower()]
    if not raises:
        rep.violation(rule, cons, "a slice step of zero is never refused", ri.loc())
        return
    free = False
    for r in raises:
        ctrl = [t for t, taken in _enclosing_ifs(ri.node, r)]
        others = [t for t in ctrl if ("size" in ast.unparse(t) or "start" in ast.unparse(t) or "stop" in ast.unparse(t) or "alias_from" in ast.unparse(t))]
        if not others:
            free = True
    if free:
        rep.ok(rule, cons, "refused whatever the other bounds are", f"{ri.path}:{raises[0].lineno}")
    else:
        rep.violation(rule, cons, "the zero-step test sits in the branch for all-literal slices of a source of known size: `let n 4; register q[n]; map a q[0:2:0]` is accepted, the generator writes `map a q[0:2]` (it tests the step by truthiness), and the re-parsed alias has step 1", f"{ri.path}:{raises[0].lineno}", witness="let n 4; register q[n]; map a q[0:2:0]")


EXTRA["C14"].append((zero_step_unconditional, "C14.16"))
EXTRA["C01"].append((zero_step_unconditional, "C01.16"))


# ---------------------------------------------------------------- after seed round 8 / the C12 hunt

def superseded_gates_refused(ctx, rep, rule):
    ix = ctx.ix
    DS = "jaqalpaq.core.algorithm.walkers.DiscoverSubcircuits"
    vb = _method(ix, DS, "visit_BlockStatement")
    vg = _method(ix, DS, "visit_GateStatement")
    rep.rule(rule, "a body that does not run exactly once may supersede the trace open at its entry only if it put no gate into it: discovery counts the gates of a trace, and refuses when the entry trace is no longer current and its count changed in the body", floor=1)
    cons = construct_of(vb, "superseded-after-gates")
    accepts_superseded = any("open_at_entry" in ast.unparse(t) and ".end" in ast.unparse(t) for r in ast.walk(vb.node) if isinstance(r, ast.Raise) for t, taken in _enclosing_ifs(vb.node, r) if taken)
    if not accepts_superseded:
        rep.ok(rule, cons, "a superseded entry trace is not accepted at all (any trace completed in the body is refused)", vb.loc())
        return
    counted = [a for a in ast.walk(vg.node) if isinstance(a, ast.AugAssign) and isinstance(a.target, ast.Attribute) and isinstance(a.op, ast.Add)]
    field = counted[0].target.attr if counted else None
    guard = None
    for r in ast.walk(vb.node):
        if isinstance(r, ast.Raise):
            tests = [t for t, taken in _enclosing_ifs(vb.node, r) if taken]
            src = " ".join(ast.unparse(t) for t in tests)
            if field and f".{field}" in src and "open_at_entry" in src and "reps" in src:
                guard = tests
    if field is None:
        rep.violation(rule, cons, "the wrap-around refusal lets a superseded entry trace pass, and nothing counts the gates that went into it: `prepare_all; loop 2 { Px q[0]; prepare_all; measure_all }` is accepted, and on the second pass Px follows a measure_all and is silently dropped", vb.loc(), witness="prepare_all\nloop 2 { Px q[0]; prepare_all; measure_all }")
    elif guard is None:
        rep.violation(rule, cons, f"gates are counted (`.{field}`) but no refusal compares the count of the entry trace before and after the body", vb.loc())
    else:
        src = " ".join(ast.unparse(t) for t in guard)
        ok = ("is not open_at_entry" in src or "open_at_entry is not" in src) and "!=" in src and "reps != 1" in src.replace("(", "").replace(")", "")
        if ok:
            rep.ok(rule, cons, f"refused when the entry trace is superseded and its `.{field}` changed", f"{vb.path}:{guard[0].lineno}")
        else:
            rep.violation(rule, cons, f"`{src[:100]}` does not have the sense `reps != 1 and current is not entry trace and count changed`", f"{vb.path}:{guard[0].lineno}")


def trailing_trace_test(ctx, rep, rule):
    ix = ctx.ix
    dc = _method(ix, "jaqalpaq.core.algorithm.walkers.DiscoverSubcircuits", "visit_Circuit")
    rep.rule(rule, "the last discovered trace is left out only under a test of its own end (`end is None`); nothing else -- such as a prepare_all still open when the circuit ends -- removes a completed subcircuit", floor=1)
    cons = construct_of(dc, "last-trace-left-out")
    drops = [r for r in ast.walk(dc.node) if isinstance(r, ast.Return) and isinstance(r.value, ast.Subscript) and isinstance(r.value.slice, ast.Slice) and r.value.slice.upper is not None]
    if not drops:
        rep.ok(rule, cons, "the list of traces is returned whole", dc.loc())
        return
    for r in drops:
        tests = [t for t, taken in _enclosing_ifs(dc.node, r) if taken]
        if tests and all(".end" in ast.unparse(t) for t in tests):
            rep.ok(rule, cons, f"`{ast.unparse(tests[0])}`", f"{dc.path}:{r.lineno}")
        else:
            rep.violation(rule, cons, f"`{ast.unparse(r)}` under `{ast.unparse(tests[0]) if tests else 'no test'}` drops the last COMPLETED subcircuit: `prepare_all; Px q[0]; measure_all; prepare_all` (a trailing unmatched prepare_all) yields no subcircuit instead of one", f"{dc.path}:{r.lineno}", witness="prepare_all\nPx q[0]\nmeasure_all\nprepare_all")


def prepare_opens_new_trace(ctx, rep, rule):
    ix = ctx.ix
    vg = _method(ix, "jaqalpaq.core.algorithm.walkers.DiscoverSubcircuits", "visit_GateStatement")
    rep.rule(rule, "every prepare gate opens a NEW trace object (the loop-body refusals tell traces apart by identity and by the end of the object that was open at entry)", floor=1)
    cons = construct_of(vg, "new-trace")
    opening = [st for st in iter_stmts(vg.body) if isinstance(st, ast.If) and "p_gate" in ast.unparse(st.test)]
    if not opening:
        rep.undecided(rule, cons, "opening branch not recognised", vg.loc())
        return
    body = opening[0].body
    direct = [a for a in body if isinstance(a, ast.Assign) and any(isinstance(t, ast.Attribute) and t.attr == "current" for t in ast.walk(a.targets[0]) ) or (isinstance(a, ast.Assign) and any(isinstance(t, ast.Attribute) and t.attr == "current" for tt in a.targets for t in ast.walk(tt)))]
    fresh = [a for a in direct if isinstance(a.value, ast.Call) and isinstance(a.value.func, ast.Name) and a.value.func.id == "Trace"]
    conditional = [i for i in body if isinstance(i, ast.If) and "current" in ast.unparse(i.test)]
    if fresh and not conditional:
        rep.ok(rule, cons, "`self.current = Trace(...)` unconditionally", f"{vg.path}:{fresh[0].lineno}")
    else:
        rep.violation(rule, cons, "a prepare gate met while a trace is open re-uses that trace object (moving its start) instead of opening a new one: the trace that was open at a loop's entry is then `measured in the body`, so `prepare_all; loop 2 { prepare_all; Px q[0]; measure_all }` is refused and `prepare_all; loop 2 { prepare_all }; measure_all` accepted", f"{vg.path}:{opening[0].lineno}")


def number_token_covers_reference(ctx, rep, rule):
    from ..lexer import extract_lexer
    from ..regex import lang, Unsupported
    ix = ctx.ix
    rep.rule(rule, "the NUMBER and INT token languages contain the number forms of the Jaqal language ([-+]?[0-9]*\\.[0-9]+([eE][-+]?[0-9]+)? and [-+]?[0-9]+): a sign, digits before the point and an exponent are each optional and independent", floor=2)
    lx = extract_lexer(ix)
    for tok, ref in (("NUMBER", r"[-+]?[0-9]*\.[0-9]+([eE][-+]?[0-9]+)?"), ("INT", r"[-+]?[0-9]+")):
        r = lx.rule(tok)
        cons = f"parser.slyparse:JaqalLexer:{tok}:reference-forms"
        if r is None:
            raise AnalysisError(f"{rule}: lexer has no {tok} rule")
        try:
            have, want = lang(r.pattern), lang(ref)
        except Unsupported as ex:
            rep.undecided(rule, cons, f"pattern not supported by the regular-language toolkit: {ex}")
            continue
        w = want.included_in(have)
        if w is True or w is None:
            rep.ok(rule, cons, f"L(reference) is included in L({tok})")
        else:
            rep.violation(rule, cons, f"{w!r} is a number of the Jaqal language that {tok} (`{r.pattern}`) does not match as one token: the text front end refuses (or splits) it while the builder and Q-syntax take the same value", witness=str(w))


def idle_twin_has_no_unitary(ctx, rep, rule):
    ix = ctx.ix
    f = _func(ix, "jaqalpaq.core.stretch.stretched_gates")
    rep.rule(rule, "the stretched twin of an idle gate is made as an IdleGateDefinition of the stretched parent (no unitary of its own), not as a copy that is handed the parent's unitary", floor=1)
    cons = construct_of(f, "idle-twin-construction")
    made_idle = [c for c in ast.walk(f.node) if isinstance(c, ast.Call) and isinstance(c.func, ast.Name) and c.func.id == "IdleGateDefinition"]
    copies = [c for c in ast.walk(f.node) if isinstance(c, ast.Call) and isinstance(c.func, ast.Attribute) and c.func.attr == "copy" and (any(k.arg == "ideal_unitary" or k.arg is None for k in c.keywords))]
    # a copy with a unitary is fine for the active gate; it must not be applied to the idle input
    idle_names = {t.id for a in ast.walk(f.node) if isinstance(a, ast.Assign) for t in ast.walk(a.targets[0]) if isinstance(t, ast.Name) and "idle" in t.id.lower() and not isinstance(a.value, ast.Constant)}
    bad = [c for c in copies if isinstance(c.func.value, ast.Name) and c.func.value.id in idle_names]
    if bad:
        rep.violation(rule, cons, f"`{ast.unparse(bad[0])[:70]}` copies the idle gate and hands it the stretched parent's unitary, which hides IdleGateDefinition's class-level None: `I_Rx_stretched q[0] 1.1 2.0` rotates the qubit", f"{f.path}:{bad[0].lineno}")
    elif made_idle:
        rep.ok(rule, cons, "IdleGateDefinition(<stretched parent>, ..)", f"{f.path}:{made_idle[0].lineno}")
    else:
        rep.undecided(rule, cons, "construction of the idle twin not recognised", f.loc())


EXTRA["C12X"] = []
EXTRA["C08"].append((superseded_gates_refused, "C08.17"))
EXTRA["C08"].append((trailing_trace_test, "C08.18"))
EXTRA["C08"].append((prepare_opens_new_trace, "C08.19"))
EXTRA["C02"].append((number_token_covers_reference, "C02.13"))
EXTRA["C17"].append((number_token_covers_reference, "C17.10"))
EXTRA["C18"].append((idle_twin_has_no_unitary, "C18.18"))


def bounding_names_not_macros(ctx, rep, rule):
    ix = ctx.ix
    f = _func(ix, "jaqalpaq.core.algorithm.expand_subcircuits.expand_subcircuits")
    SE = "jaqalpaq.core.algorithm.expand_subcircuits.SubcircuitExpander"
    ps = _method(ix, SE, "process_subcircuit")
    rep.rule(rule, "the bounding statements that replace a subcircuit block are found by NAME by every later pass (rebuild in fill_in_let, macro table in expand_macros): expand_subcircuits hands the expander the circuit's macro names and refuses a block whose bounding name is one of them", floor=1)
    cons = construct_of(ps, "bounding-name-is-macro")
    knows = any(isinstance(a, ast.Attribute) and a.attr == "macros" for c in ast.walk(f.node) if isinstance(c, ast.Call) and isinstance(c.func, ast.Name) and c.func.id == "SubcircuitExpander" for arg in list(c.args) + [k.value for k in c.keywords] for a in ast.walk(arg))
    refuses = any(isinstance(r, ast.Raise) and any(taken and any(isinstance(c, ast.Compare) and isinstance(c.ops[0], ast.In) and "name" in ast.unparse(c.left) for c in ast.walk(t)) for t, taken in _enclosing_ifs(ps.node, r)) for r in ast.walk(ps.node))
    if knows and refuses:
        rep.ok(rule, cons, "refused under `<bound>.name in <macro names>`", ps.loc())
    else:
        rep.violation(rule, cons, "a circuit that defines `macro measure_all { .. }` (legal when the gate set lacks that name) and has a subcircuit block: the block is replaced by prepare_all; ..; measure_all with made-up busy definitions, and fill_in_let / expand_macros then take the closing statement for a call of the macro -- the subcircuit has no measure_all any more and yields no readout; renaming the (never called) macro changes the meaning of the block", ps.loc(), witness="register q[2]\nmacro measure_all { Px q[0] }\nsubcircuit { Px q[1] }")


EXTRA["C09"].append((bounding_names_not_macros, "C09.14"))
EXTRA.setdefault("C07", []).append((bounding_names_not_macros, "C07.10"))


def distinct_qubits_checked(ctx, rep, rule):
    ix = ctx.ix
    ms = _method(ix, "jaqalpaq.emulator.unitary.UnitarySerializedEmulator", "_make_subcircuit")
    rep.rule(rule, "the list of resolved qubit positions of a gate is tested for duplicates (a raise under a comparison of len(set(..)) with len(..)) before the index arithmetic uses it: the bit-shuffling is only a permutation for distinct positions", floor=1)
    cons = construct_of(ms, "distinct-qubits")
    lists = {c.func.value.id for c in ast.walk(ms.node) if isinstance(c, ast.Call) and isinstance(c.func, ast.Attribute) and c.func.attr == "append" and isinstance(c.func.value, ast.Name) and any(isinstance(x, ast.Attribute) and x.attr == "resolve_qubit" for a in c.args for x in ast.walk(a))}
    if not lists:
        rep.undecided(rule, cons, "no list of resolved qubit positions", ms.loc())
        return
    ok = False
    for r in ast.walk(ms.node):
        if isinstance(r, ast.Raise):
            for t, taken in _enclosing_ifs(ms.node, r):
                src = ast.unparse(t)
                if taken and "set(" in src and "len(" in src and any(l in src for l in lists):
                    ok = True
    if ok:
        rep.ok(rule, cons, f"duplicates in {sorted(lists)} raise JaqalError", ms.loc())
    else:
        rep.violation(rule, cons, f"{sorted(lists)} is used as it comes: `Sxx r[0] r[0]` (also through an alias of the same qubit, or two macro parameters bound to one qubit) parses, and the emulator builds a non-unitary matrix -- RuntimeError from the probability check, or silently the identity for CX", ms.loc(), witness="map a r[0]\nSxx a r[0]")


EXTRA["C16"].append((distinct_qubits_checked, "C16.29"))
EXTRA["C03"].append((distinct_qubits_checked, "C03.11"))
