"""C06 -- every qubit reference resolves to the right physical qubit (decided clauses)."""

from __future__ import annotations

import ast

from ..index import AnalysisError
from ..cfg import walk_no_nested, iter_stmts
from ..taint import Taint
from .common import construct_of, cls_construct, short

REGMOD = "jaqalpaq.core.register"
ARITH = (ast.LShift, ast.RShift, ast.Add, ast.Sub, ast.Mult, ast.Pow, ast.BitOr, ast.BitAnd, ast.BitXor, ast.FloorDiv, ast.Mod)
CONSUMERS = ["jaqalpaq.emulator.unitary", "jaqalpaq.emulator.pygsti.circuit", "jaqalpaq.emulator.pygsti.backends",
             "jaqalpaq.emulator.backend", "jaqalpaq.core.algorithm.used_qubit_visitor", "jaqalpaq.core.algorithm.fill_in_map",
             "jaqalpaq.core.algorithm.walkers", "jaqalpaq.core.result"]


ATTR_EXEMPT = {
    ("jaqalpaq.core.usepulses.UsePulsesStatement.load_pulses", "load"):
        "deprecated method; the `except AttributeError` handler holding this read is unreachable because `_gates` is a class attribute",
}


def raw_index_sinks(ctx, f):
    """(source node, sink node, description) for raw alias_index values reaching
    arithmetic, a subscript of a non-IR object, or an external constructor."""
    ix, T = ctx.ix, ctx.typer

    def is_source(n):
        return isinstance(n, ast.Attribute) and n.attr in ("alias_index", "_alias_index") and isinstance(n.ctx, ast.Load)

    t = Taint(f.node, is_source)
    out = []
    srcs = [n for n in walk_no_nested(f.node) if is_source(n)]
    if not srcs:
        return out
    for n in walk_no_nested(f.node):
        if isinstance(n, ast.BinOp) and isinstance(n.op, ARITH) and (t.expr_tainted(n.left) or t.expr_tainted(n.right)):
            out.append((srcs[0], n, f"arithmetic `{ast.unparse(n)}`"))
        elif isinstance(n, ast.Call):
            # external (non-jaqalpaq) constructor / function receiving the raw index
            r = ix.resolve_expr(f.module, n.func, f)
            ext = r is not None and r[0] == "ext" and not r[1].startswith(("builtins",))
            if ext and any(t.expr_tainted(a) for a in list(n.args) + [k.value for k in n.keywords]):
                out.append((srcs[0], n, f"external call `{ast.unparse(n.func)}(...)`"))
    return out


def run(ctx, rep):
    ix, T = ctx.ix, ctx.typer
    from .common import check_shadowed_register_names
    check_shadowed_register_names(ctx, rep, "C06.10")
    from .common import check_no_frozen_size
    check_no_frozen_size(ctx, rep, "C06.9")
    from .common import check_scope_discipline
    check_scope_discipline(ctx, rep, "C06.6", "C06.7", "C06.8")
    from .common import check_symbolic_qubits_left_alone
    check_symbolic_qubits_left_alone(ctx, rep, "C06.5")
    S = ctx.strict

    # ------------------------------------------------------------ C06.1
    rep.rule("C06.1", "no consumer uses a raw alias_index as a physical qubit index (it must come from resolve_qubit)", floor=2)
    n_funcs = 0
    for m in CONSUMERS:
        if m not in ix.modules:
            continue
        reported = False
        for f in ix.functions.values():
            if f.module != m or isinstance(f.node, ast.Lambda):
                continue
            n_funcs += 1
            sinks = raw_index_sinks(ctx, f)
            if sinks and not reported:
                reported = True
                sinks.sort(key=lambda x: (0 if ("<<" in x[2] or "external" in x[2]) else 1, x[1].lineno))
                src, sink, desc = sinks[0]
                rep.violation("C06.1", f"{short(m)}:raw-alias-index", f"`{ast.unparse(src)}` (the index into the *alias* the qubit was written with) reaches {desc} in {construct_of(f)}: with `map a r[1:3]`, `a[0]` is treated as physical qubit 0 instead of 1; the physical index must come from resolve_qubit()", f"{f.path}:{sink.lineno}", witness="register r[3]\nmap a r[1:3]\nprepare_all\nPx a[0]\nmeasure_all")
        if not reported:
            uses_resolve = any(isinstance(n, ast.Attribute) and n.attr == "resolve_qubit" for f in ix.functions.values() if f.module == m for n in walk_no_nested(f.node))
            rep.ok("C06.1", f"{short(m)}:raw-alias-index", "no raw alias_index reaches arithmetic or an external constructor" + ("; uses resolve_qubit" if uses_resolve else ""))
    rep.analysed["consumer_functions"] = n_funcs

    # ------------------------------------------------------------ C06.2
    rep.rule("C06.2", "every attribute read on a receiver of known IR / package type exists on that type", floor=1)
    n_reads = 0
    reported_attr = set()
    constructed = set()
    for cs in S.all_callsites():
        if cs.kind == "constructor":
            constructed |= set(cs.classes)
    # attributes stored on objects from outside their class (job.traces = ..., readout._subcircuit = ...)
    external_stores = {}
    for f in ix.functions.values():
        for n in walk_no_nested(f.node):
            if isinstance(n, ast.Attribute) and isinstance(n.ctx, ast.Store):
                rt = S.types_of(n.value)
                ks = {t for t in rt if t in ix.classes}
                if ks:
                    for k in ks:
                        external_stores.setdefault(n.attr, set()).add(k)
                else:
                    external_stores.setdefault(n.attr, set()).add("*")
    for f in ix.functions.values():
        for name_ in ("setattr",):
            pass

    def exists(k, attr, on_class):
        fam = [k] + ([] if on_class else ix.subclasses(k))
        for c in fam:
            fa = ix.find_attr(c, attr)
            if fa is not None and not (on_class and fa[0] == "selfattr"):
                return True
        if not on_class:
            owners = external_stores.get(attr, set())
            if "*" in owners or any(o in ix.mro(k) or k in ix.mro(o) for o in owners):
                return True
        return False

    for f in ix.functions.values():
        if f.module.startswith(("jaqalpaq._cli",)):
            continue
        for n in walk_no_nested(f.node):
            if not (isinstance(n, ast.Attribute) and isinstance(n.ctx, ast.Load)):
                continue
            rt = S.types_of(n.value)
            if not rt or "?" in rt:
                continue
            kinds = [t for t in rt if t in ix.classes or (t.startswith("type:") and t[5:] in ix.classes)]
            if len(kinds) != len(rt):
                continue
            # `self` inside a class that the package never instantiates is an extension point:
            # the receiver may be an instance of a subclass defined elsewhere
            if isinstance(n.value, ast.Name) and f.cls and f.params and n.value.id == f.params[0]:
                fam = [f.cls] + ix.subclasses(f.cls)
                if not any(c in constructed for c in fam):
                    continue
            missing = []
            for t in kinds:
                on_class = t.startswith("type:")
                k = t[5:] if on_class else t
                if ix.ext_bases(k) or ix.find_method(k, "__getattr__") is not None or ix.find_method(k, "__getattribute__") is not None:
                    missing = []
                    break
                if any(ix.ext_bases(c) for c in ix.subclasses(k)):
                    missing = []
                    break
                if not exists(k, n.attr, on_class):
                    if n.attr.startswith("__") and n.attr.endswith("__"):
                        continue
                    missing.append((k, on_class))
            n_reads += 1
            if missing and len(missing) == len(kinds):
                k, on_class = missing[0]
                if (f.qualname, n.attr) in ATTR_EXEMPT:
                    rep.exempt("C06.2", construct_of(f, f"attr:{ix.classes[k].name}.{n.attr}"), ATTR_EXEMPT[(f.qualname, n.attr)], f"{f.path}:{n.lineno}")
                    continue
                key_ = (f.qualname, k, n.attr)
                if key_ in reported_attr:
                    continue
                reported_attr.add(key_)
                what = f"the class object {ix.classes[k].name}" if on_class else f"a {ix.classes[k].name}"
                hint = ""
                cands = [a for a in list(ix.classes[k].methods) + list(ix.classes[k].self_attrs) if a.strip("_") in n.attr or n.attr.strip("_") in a]
                if cands:
                    hint = f" (did you mean `{sorted(cands)[0]}`?)"
                rep.violation("C06.2", construct_of(f, f"attr:{ix.classes[k].name}.{n.attr}"), f"`{ast.unparse(n)}` reads attribute `{n.attr}` on {what}, which has no such attribute{hint}: AttributeError when this line runs", f"{f.path}:{n.lineno}")
    rep.analysed["typed_attribute_reads"] = n_reads
    if n_reads < 100:
        raise AnalysisError(f"C06.2: only {n_reads} typed attribute reads found (323 on the pinned tree): the typing layer is broken")
    rep.ok("C06.2", "package:typed-attribute-reads", f"{n_reads} attribute reads on receivers of known package type checked")

    # ------------------------------------------------------------ C06.3
    rep.rule("C06.3", "slice arithmetic (start + i*step) is computed only in core/register.py", floor=1)
    n_slice = 0
    for f in ix.functions.values():
        if isinstance(f.node, ast.Lambda):
            continue

        def is_source(n):
            return isinstance(n, ast.Attribute) and n.attr in ("start", "step") and isinstance(n.ctx, ast.Load) and any(isinstance(m, ast.Attribute) and m.attr in ("alias_slice", "_alias_slice") for m in ast.walk(n.value))

        if not any(is_source(n) for n in walk_no_nested(f.node)):
            continue
        n_slice += 1
        t = Taint(f.node, is_source)
        arith = [n for n in walk_no_nested(f.node) if isinstance(n, ast.BinOp) and isinstance(n.op, (ast.Add, ast.Mult, ast.Sub)) and (t.expr_tainted(n.left) or t.expr_tainted(n.right))]
        cons = construct_of(f, "slice-arithmetic")
        if arith and f.module != REGMOD:
            rep.violation("C06.3", cons, f"`{ast.unparse(arith[0])}` re-implements alias resolution outside core/register.py: consumers must compose Register.resolve_qubit, not recompute start + i*step", f"{f.path}:{arith[0].lineno}")
        else:
            rep.ok("C06.3", cons, "reads slice bounds" + (" and composes them in core/register.py" if arith else " without arithmetic"), f.loc())
    if n_slice == 0:
        raise AnalysisError("C06.3: no function reads alias_slice.start/step (anchor vanished)")


    # ------------------------------------------------------------ C06.4
    rep.rule("C06.4", "alias resolution is composed: every non-fundamental return of Register.resolve_qubit is the source's own resolve_qubit applied to the composed index", floor=2)
    rq = ix.find_method("jaqalpaq.core.register.Register", "resolve_qubit")
    if rq is None:
        raise AnalysisError("C06.4: Register.resolve_qubit vanished")
    from ..cfg import CFG
    from ..fieldflow import FuncFlow

    cfg = CFG(rq.body)
    fl = FuncFlow(ix, T, rq)
    selfn = rq.params[0]
    rets = [s_ for s_ in iter_stmts(rq.body) if isinstance(s_, ast.Return) and s_.value is not None]
    fund_tests = [s_ for s_ in iter_stmts(rq.body) if isinstance(s_, ast.If) and any(isinstance(m, ast.Attribute) and m.attr == "fundamental" for m in ast.walk(s_.test))]
    for r in rets:
        cons = construct_of(rq, f"return@{rets.index(r)}")
        loc = f"{rq.path}:{r.lineno}"
        v = r.value
        in_fund = any(any(x is r for x in iter_stmts(t.body)) for t in fund_tests)
        if in_fund:
            ok = isinstance(v, ast.Tuple) and len(v.elts) == 2 and isinstance(v.elts[0], ast.Name) and v.elts[0].id == selfn
            if ok:
                rep.ok("C06.4", cons, "fundamental register: (self, idx)", loc)
            else:
                rep.violation("C06.4", cons, "the fundamental branch does not return (self, index)", loc)
            continue
        is_rec = isinstance(v, ast.Call) and isinstance(v.func, ast.Attribute) and v.func.attr == "resolve_qubit"
        if is_rec:
            ids, roots = fl.depends(v.func.value)
            from_alias = any(isinstance(m, ast.Attribute) and m.attr in ("alias_from", "_alias_from") for r_ in roots for m in ast.walk(r_))
            if from_alias:
                rep.ok("C06.4", cons, f"`{ast.unparse(v)}`", loc)
            else:
                rep.violation("C06.4", cons, f"`{ast.unparse(v)}` does not recurse into the alias source", loc)
        else:
            rep.violation("C06.4", cons, f"`return {ast.unparse(v)}` for an alias does not go through the source register's resolve_qubit: a chain of aliases is not followed to the fundamental register, or the source's own stride is not applied to the composed index", loc, witness="register q[4]\nmap tail q[1:4]\nmap work tail\nPx work[0]")
    # no arithmetic on the *result* of the recursive call
    def is_src(n):
        return isinstance(n, ast.Call) and isinstance(n.func, ast.Attribute) and n.func.attr == "resolve_qubit"

    tt = Taint(rq.node, is_src)
    post = [n for n in walk_no_nested(rq.node) if isinstance(n, ast.BinOp) and isinstance(n.op, (ast.Add, ast.Mult, ast.Sub)) and (tt.expr_tainted(n.left) or tt.expr_tainted(n.right)) and not any(is_src(m) and any(x is n for x in ast.walk(m)) for m in walk_no_nested(rq.node))]
    cons = construct_of(rq, "no-arithmetic-after-recursion")
    if post:
        rep.violation("C06.4", cons, f"`{ast.unparse(post[0])}` does arithmetic on the result of the source's resolve_qubit: the offset must be passed INTO the recursive call so that the source's own start/step apply to it", f"{rq.path}:{post[0].lineno}")
    else:
        rep.ok("C06.4", cons, "index arithmetic happens before the recursive call", rq.loc())
