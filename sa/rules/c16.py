"""C16 -- failures are JaqalErrors with a position; no sticky state (decided clauses)."""

from __future__ import annotations

import ast
from typing import List, Optional

from ..fieldflow import FuncFlow
from ..index import AnalysisError
from ..cfg import CFG, walk_no_nested, iter_stmts


def _is_none_test(test, name):
    """-> 'is' / 'isnot' when test is exactly `name is None` / `name is not None`."""
    if isinstance(test, ast.Compare) and len(test.ops) == 1 and isinstance(test.left, ast.Name) and test.left.id == name:
        c = test.comparators[0]
        if isinstance(c, ast.Constant) and c.value is None:
            if isinstance(test.ops[0], ast.Is):
                return "is"
            if isinstance(test.ops[0], ast.IsNot):
                return "isnot"
    return None


def _exits_or_rebinds(stmts, name) -> bool:
    if not stmts:
        return False
    for st in iter_stmts(stmts):
        if isinstance(st, ast.Assign) and any(isinstance(t, ast.Name) and t.id == name for t in st.targets):
            return True
    last = stmts[-1]
    return isinstance(last, (ast.Return, ast.Raise, ast.Continue, ast.Break))


def _derefs(node, name):
    """Dereferences of `name` in node that are not protected by a further test of `name`."""
    out = []

    def guards(test):
        for n in ast.walk(test):
            if isinstance(n, ast.Name) and n.id == name:
                return True
        return False

    def visit(n, protected):
        if isinstance(n, (ast.FunctionDef, ast.AsyncFunctionDef, ast.Lambda, ast.ClassDef)):
            return
        if isinstance(n, ast.If):
            visit(n.test, protected)
            p = protected or guards(n.test)
            for s in n.body + n.orelse:
                visit(s, p)
            return
        if isinstance(n, ast.IfExp):
            visit(n.test, protected)
            p = protected or guards(n.test)
            visit(n.body, p)
            visit(n.orelse, p)
            return
        if isinstance(n, ast.BoolOp):
            p = protected
            for v in n.values:
                visit(v, p)
                if guards(v):
                    p = True
            return
        if isinstance(n, ast.Try):
            # a dereference inside try/except AttributeError|TypeError|Exception is protected
            catches = any(h.type is None or any(isinstance(x, ast.Name) and x.id in ("AttributeError", "TypeError", "Exception") for x in ast.walk(h.type)) for h in n.handlers)
            for s in n.body:
                visit(s, protected or catches)
            for h in n.handlers:
                for s in h.body:
                    visit(s, protected)
            for s in n.orelse + n.finalbody:
                visit(s, protected)
            return
        if not protected:
            if isinstance(n, ast.Attribute) and isinstance(n.value, ast.Name) and n.value.id == name and isinstance(n.ctx, ast.Load):
                out.append(n)
            elif isinstance(n, ast.Subscript) and isinstance(n.value, ast.Name) and n.value.id == name:
                out.append(n)
            elif isinstance(n, ast.Call) and isinstance(n.func, ast.Name) and n.func.id == name:
                out.append(n)
        for ch in ast.iter_child_nodes(n):
            visit(ch, protected)

    visit(node, False)
    return out


def none_guard_contradictions(func, name) -> Optional[List[ast.AST]]:
    """C16.3 shape.  None if the function has no sole `name is [not] None` test whose
    None branch falls through; otherwise the unprotected dereferences of ``name``
    after the join of such a test."""
    found_test = False
    bad: List[ast.AST] = []

    def scan(stmts):
        nonlocal found_test
        for i, st in enumerate(stmts):
            if isinstance(st, ast.If):
                kind = _is_none_test(st.test, name)
                if kind is not None:
                    none_branch = st.body if kind == "is" else st.orelse
                    if not _exits_or_rebinds(none_branch, name):
                        found_test = True
                        # dereferences inside the None branch itself
                        for s in none_branch:
                            bad.extend(_derefs(s, name))
                        for later in stmts[i + 1:]:
                            bad.extend(_derefs(later, name))
                    else:
                        found_test = True
            for fld in ("body", "orelse", "finalbody"):
                sub = getattr(st, fld, None)
                if sub and not isinstance(st, (ast.FunctionDef, ast.AsyncFunctionDef, ast.ClassDef)):
                    scan(sub)
            for h in getattr(st, "handlers", []) or []:
                scan(h.body)

    scan(func.body)
    if not found_test:
        return None
    # unique, in source order
    seen = set()
    uniq = []
    for n in bad:
        if id(n) not in seen:
            seen.add(id(n))
            uniq.append(n)
    return uniq



import builtins as _builtins

from ..escape import EscapeAnalysis, BUILTIN_BASES
from ..lexer import extract_lexer, extract_parser, find_sly_subclasses, SLY_ASSUMPTIONS
from .common import construct_of, cls_construct, short

PARSE = [
    "jaqalpaq.parser.parser.parse_jaqal_string",
    "jaqalpaq.parser.parser.parse_jaqal_file",
    "jaqalpaq.parser.parser.parse_to_sexpression",
    "jaqalpaq.parser.parser.parse_jaqal_string_header",
    "jaqalpaq.parser.parser.parse_jaqal_file_header",
]
EXECUTE = [
    "jaqalpaq.run.run.run_jaqal_circuit",
    "jaqalpaq.run.run.run_jaqal_string",
    "jaqalpaq.run.run.run_jaqal_file",
    "jaqalpaq.core.result.parse_jaqal_output_list",
]
EXCLUDE = ("jaqalpaq.emulator.pygsti", "jaqalpaq.ipc", "jaqalpaq._cli", "jaqalpaq.qsyntax")
JAQAL_ERROR = "jaqalpaq.error.JaqalError"

# per-symbol exemptions for C16.1 (reason each)
RAISE_EXEMPT = {
    ("jaqalpaq.core.result.ProbabilisticSubcircuit.__init__", "RuntimeError"):
        "numerical sanity guard on the probabilities: unreachable when the gate set's ideal unitaries are unitary (the gate set is configuration, not program text)",
}


def allowed(ea: EscapeAnalysis, cls: str) -> bool:
    sup = ea.supers(cls)
    return JAQAL_ERROR in sup or "ImportError" in [s.split(".")[-1] for s in sup]


def run(ctx, rep):
    ix, T = ctx.ix, ctx.typer
    from .common import check_number_finite
    check_number_finite(ctx, rep, "C16.19")
    for a in SLY_ASSUMPTIONS:
        rep.assume(a)
    rep.assume("only explicit raise statements and the listed implicit-exception idioms are modelled; arbitrary TypeError/KeyError from dynamically typed values and non-termination are not decided")
    rep.assume("the backend is the default UnitarySerializedEmulator; a user-supplied backend or gate set is configuration, not program text")
    entries = PARSE + EXECUTE
    for q in entries:
        ix.func(q)

    # ------------------------------------------------------------ C16.1
    rep.rule("C16.1", "every explicitly raised exception that can escape a parse/execute entry point is a JaqalError or an ImportError", floor=40)
    ea = EscapeAnalysis(ix, T, exclude_modules=EXCLUDE).analyse(entries)
    rep.analysed["reachable_functions"] = len(ea.reachable)
    rep.analysed["entries"] = entries
    by_site = {}
    for e in entries:
        for r in ea.escaping(e):
            by_site.setdefault(r.key(), (r, []))[1].append(e)
    n_raise = 0
    for q in ea.reachable:
        f = ix.functions[q]
        for n in walk_no_nested(f.node):
            if isinstance(n, ast.Raise):
                n_raise += 1
    rep.analysed["raise_statements_reachable"] = n_raise
    reported = set()
    for key, (r, ents) in sorted(by_site.items(), key=lambda kv: (kv[1][0].func.qualname, kv[1][0].cls)):
        cons = construct_of(r.func, f"raise:{r.cls.split('.')[-1]}")
        loc = f"{r.func.path}:{r.node.lineno}"
        if cons in reported:
            continue
        reported.add(cons)
        if allowed(ea, r.cls):
            rep.ok("C16.1", cons, f"{r.cls.split('.')[-1]} is a JaqalError/ImportError", loc)
        elif (r.func.qualname, r.cls.split(".")[-1]) in RAISE_EXEMPT:
            rep.exempt("C16.1", cons, RAISE_EXEMPT[(r.func.qualname, r.cls.split(".")[-1])], loc)
        else:
            path = " -> ".join(short(p) for p in r.path)
            rep.violation("C16.1", cons, f"{r.cls.split('.')[-1]} raised here escapes {', '.join(short(e).split('.')[-1] for e in ents[:3])} uncaught (path: {path}); only JaqalError and ImportError may escape", loc)
    # raises that are reachable but caught everywhere are discharged too
    for q in ea.reachable:
        f = ix.functions[q]
        for n in walk_no_nested(f.node):
            if isinstance(n, ast.Raise) and n.exc is not None:
                c = ea.resolve_exc(f, n.exc)
                if c is None:
                    continue
                cons = construct_of(f, f"raise:{c.split('.')[-1]}")
                if cons not in reported:
                    reported.add(cons)
                    rep.ok("C16.1", cons, "does not escape any entry point (caught on every call path) or is allowed", f"{f.path}:{n.lineno}")

    # ------------------------------------------------------------ C16.2
    rep.rule("C16.2", "every sly Lexer subclass overrides error() with a body that raises an allowed class", floor=1)
    for c in find_sly_subclasses(ix, "Lexer"):
        cons = cls_construct(ix, c.qualname, "error")
        err = c.methods.get("error")
        if err is None:
            rep.violation("C16.2", cons, "the lexer defines no error(): sly's default raises sly.lex.LexError for an illegal character, which is not a JaqalError", c.loc(), witness="foo $")
            continue
        raises = [n for n in walk_no_nested(err.node) if isinstance(n, ast.Raise) and n.exc is not None]
        from ..cfg import CFG

        cfg = CFG(err.body)
        if not raises or cfg.exit in cfg.reachable_from(cfg.entry):
            rep.violation("C16.2", cons, "the lexer's error() can return: sly then skips nothing (index is not advanced) or continues silently", err.loc())
            continue
        bad = [n for n in raises if not allowed(ea, ea.resolve_exc(err, n.exc) or "?")]
        if bad:
            rep.violation("C16.2", cons, f"the lexer's error() raises {ast.unparse(bad[0].exc.func) if isinstance(bad[0].exc, ast.Call) else ast.unparse(bad[0].exc)}, which is not a JaqalError", f"{err.path}:{bad[0].lineno}")
        else:
            rep.ok("C16.2", cons, "error() always raises a JaqalError subclass", err.loc())

    # ------------------------------------------------------------ C16.3
    rep.rule("C16.3", "no dereference of a value after an `is None` test on it has been joined without exit", floor=1)
    n_tests = 0
    for q in ea.reachable:
        f = ix.functions[q]
        names = set()
        for n in walk_no_nested(f.node):
            if isinstance(n, ast.If):
                t = n.test
                if isinstance(t, ast.Compare) and len(t.ops) == 1 and isinstance(t.left, ast.Name) and isinstance(t.comparators[0], ast.Constant) and t.comparators[0].value is None and isinstance(t.ops[0], (ast.Is, ast.IsNot)):
                    names.add(t.left.id)
        for name in sorted(names):
            bad = none_guard_contradictions(f, name)
            if bad is None:
                continue
            n_tests += 1
            cons = construct_of(f, f"none-guard:{name}")
            if bad:
                rep.violation("C16.3", cons, f"`{ast.unparse(bad[0])}` dereferences `{name}` after the branch where it is None has been joined: AttributeError/TypeError instead of a JaqalError", f"{f.path}:{bad[0].lineno}")
            else:
                rep.ok("C16.3", cons, "the None branch exits, rebinds the name, or every later dereference is guarded", f.loc())
    rep.analysed["none_tests"] = n_tests
    # direct contradiction: the value is used (called, dereferenced, indexed) on the very branch where the test
    # says it is None -- `if x is None and ..: return x(..)`
    n_direct = 0
    for q in ea.reachable:
        f = ix.functions[q]
        if isinstance(f.node, ast.Lambda):
            continue
        for n in walk_no_nested(f.node):
            if not isinstance(n, (ast.If, ast.IfExp)):
                continue
            conj = n.test.values if isinstance(n.test, ast.BoolOp) and isinstance(n.test.op, ast.And) else [n.test]
            for c in conj:
                if isinstance(c, ast.Compare) and len(c.ops) == 1 and isinstance(c.ops[0], ast.Is) and isinstance(c.left, ast.Name) and isinstance(c.comparators[0], ast.Constant) and c.comparators[0].value is None:
                    name = c.left.id
                    body = n.body if isinstance(n, ast.If) else [n.body]
                    n_direct += 1
                    rebound = False
                    bad_use = None
                    for b in body:
                        for m in ast.walk(b):
                            if isinstance(m, ast.Assign) and any(isinstance(t, ast.Name) and t.id == name for t in m.targets):
                                rebound = True
                            if not rebound and bad_use is None:
                                if isinstance(m, ast.Call) and isinstance(m.func, ast.Name) and m.func.id == name:
                                    bad_use = m
                                elif isinstance(m, (ast.Attribute, ast.Subscript)) and isinstance(m.value, ast.Name) and m.value.id == name and isinstance(m.ctx, ast.Load):
                                    bad_use = m
                    if bad_use is not None:
                        rep.violation("C16.3", construct_of(f, f"none-branch-use:{name}"), f"`{ast.unparse(bad_use)[:60]}` uses `{name}` on the branch taken when `{ast.unparse(c)}`: TypeError/AttributeError instead of the intended result", f"{f.path}:{bad_use.lineno}")
    rep.analysed["none_positive_tests"] = n_direct

    # ------------------------------------------------------------ C16.5
    rep.rule("C16.5", "every name read in a reachable function is bound; dotted uses of a package have a matching import", floor=100)
    builtin_names = set(dir(_builtins))
    sub_reported = set()
    for q in ea.reachable:
        f = ix.functions[q]
        m = ix.modules[f.module]
        bound = set(f.all_params)
        for n in ast.walk(f.node):
            if isinstance(n, ast.Name) and isinstance(n.ctx, (ast.Store, ast.Del)):
                bound.add(n.id)
            elif isinstance(n, (ast.Import, ast.ImportFrom)):
                for a in n.names:
                    bound.add((a.asname or a.name).split(".")[0])
            elif isinstance(n, (ast.FunctionDef, ast.AsyncFunctionDef, ast.ClassDef)):
                bound.add(n.name)
            elif isinstance(n, ast.ExceptHandler) and n.name:
                bound.add(n.name)
            elif isinstance(n, ast.arg):
                bound.add(n.arg)
        g = f
        while g.parent:
            g = ix.functions[g.parent]
            bound |= set(g.all_params)
            for n in ast.walk(g.node):
                if isinstance(n, ast.Name) and isinstance(n.ctx, ast.Store):
                    bound.add(n.id)
                elif isinstance(n, (ast.Import, ast.ImportFrom)):
                    for a in n.names:
                        bound.add((a.asname or a.name).split(".")[0])
                elif isinstance(n, (ast.FunctionDef, ast.ClassDef)):
                    bound.add(n.name)
        modbound = set(m.bindings)
        for st in ast.walk(m.tree):
            if isinstance(st, ast.Global):
                modbound |= set(st.names)
        star = bool(m.star_imports)
        unbound = {}
        body_nodes = []
        for part in (f.node.body if not isinstance(f.node, ast.Lambda) else [f.node.body]):
            body_nodes.extend(ast.walk(part))
        for n in body_nodes:
            if isinstance(n, ast.Name) and isinstance(n.ctx, ast.Load):
                if n.id in bound or n.id in modbound or n.id in builtin_names:
                    continue
                if star and ix.resolve_in_module(m.name, n.id) is not None:
                    continue
                unbound.setdefault(n.id, n)
        cons = construct_of(f, "names")
        if unbound:
            names_ = sorted(unbound)
            n = unbound[names_[0]]
            rep.violation("C16.5", construct_of(f, f"unbound:{','.join(names_)}"), f"the name(s) {', '.join('`'+x+'`' for x in names_)} are read but never bound in this function, its module or the builtins: NameError when this line runs", f"{f.path}:{n.lineno}")
        else:
            rep.ok("C16.5", cons, "all names bound", f.loc())
        # dotted use of a package attribute that is a submodule
        imported_plain = {}
        for st in ast.walk(m.tree):
            if isinstance(st, ast.Import):
                for a in st.names:
                    imported_plain.setdefault(a.name.split(".")[0], set()).add(a.name)
            elif isinstance(st, ast.ImportFrom) and st.level == 0 and st.module:
                for a in st.names:
                    imported_plain.setdefault(st.module.split(".")[0], set()).add(f"{st.module}.{a.name}")
        for n in ast.walk(f.node):
            if isinstance(n, ast.Attribute) and isinstance(n.value, ast.Attribute) and isinstance(n.value.value, ast.Name):
                pkg, sub = n.value.value.id, n.value.attr
                if pkg in imported_plain and (pkg, sub) in KNOWN_SUBMODULES and pkg not in bound:
                    full = f"{pkg}.{sub}"
                    if not any(x == full or x.startswith(full + ".") for x in imported_plain[pkg]) and (f.module, full) not in sub_reported:
                        sub_reported.add((f.module, full))
                        rep.violation("C16.5", f"{short(f.module)}:submodule:{full}", f"`{full}.{n.attr}` is used but the module only does `import {pkg}`: `{full}` is a submodule that is not imported here (AttributeError unless something else happened to import it)", f"{f.path}:{n.lineno}")

    # ------------------------------------------------------------ C16.7
    rep.rule("C16.7", "parse errors carry a position derived from the offending statement", floor=3)
    pm = extract_parser(ix)
    pcls = pm.cls
    from .c02 import never_returning_methods, _never_returns

    noret = never_returning_methods(ix, pcls)
    setters = {"set_pos"}
    raisers = {"raise_error"}
    by_lhs = {}
    for p in pm.productions:
        by_lhs.setdefault(p.lhs, []).append(p)

    def calls(fi, names):
        return any(isinstance(n, ast.Call) and isinstance(n.func, ast.Attribute) and n.func.attr in names and isinstance(n.func.value, ast.Name) and n.func.value.id == fi.params[0] for n in walk_no_nested(fi.node))

    def sets_pos(lhs, depth=0, seen=None):
        """Every alternative of lhs records a position (itself or through its first nonterminal)."""
        seen = seen or set()
        if lhs in seen or depth > 6:
            return False
        seen = seen | {lhs}
        alts = by_lhs.get(lhs, [])
        if not alts:
            return False
        for p in alts:
            if calls(p.func, setters):
                continue
            nts = [s for s in p.rhs if s in by_lhs]
            if nts and sets_pos(nts[0], depth + 1, seen):
                continue
            return False
        return True

    done = set()
    for p in pm.productions:
        if not calls(p.func, raisers) or p.func.qualname in done:
            continue
        done.add(p.func.qualname)
        cons = construct_of(p.func, "error-position")
        own = calls(p.func, setters)
        alts = [x for x in pm.productions if x.func.qualname == p.func.qualname]
        alts = [x for x in alts if not all(_never_returns(y.func, noret) for s in x.rhs if s in by_lhs for y in by_lhs[s])] or alts
        via = all(any(s in by_lhs and sets_pos(s) for s in x.rhs) for x in alts)
        if own or via:
            rep.ok("C16.7", cons, "a position is recorded before raise_error", p.func.loc())
        else:
            missing = [s for x in alts for s in x.rhs if s in by_lhs and not sets_pos(s)]
            rep.violation("C16.7", cons, f"raise_error() is called but no set_pos() precedes it (neither here nor in {sorted(set(missing)) or 'any right-hand-side action'}): the JaqalParseError carries the position of whatever statement last recorded one", p.func.loc())
    # an index that may legitimately be 0 must not be defaulted with `or`
    for name, lst in pcls.methods_all.items():
        for fi in lst:
            a = fi.node.args
            pos = a.posonlyargs + a.args
            none_defaults = {arg.arg for arg, d in zip(pos[len(pos) - len(a.defaults):], a.defaults) if isinstance(d, ast.Constant) and d.value is None}
            for n in walk_no_nested(fi.node):
                if isinstance(n, ast.BoolOp) and isinstance(n.op, ast.Or) and isinstance(n.values[0], ast.Name) and n.values[0].id in none_defaults:
                    var = n.values[0].id
                    arith = any(isinstance(m, ast.BinOp) and var in {x.id for x in ast.walk(m) if isinstance(x, ast.Name)} for m in walk_no_nested(fi.node)) or any(isinstance(m, ast.Call) and any(isinstance(x, ast.Name) and x.id == var for arg_ in m.args for x in ast.walk(arg_)) for m in walk_no_nested(fi.node))
                    cons = construct_of(fi, f"or-default:{var}")
                    if arith and ("index" in var or "col" in var or "pos" in var):
                        rep.violation("C16.7", cons, f"`{ast.unparse(n)}` replaces the legitimate value 0 of `{var}` by the default: an error at the very first character of the text is reported at the position of an earlier statement / column 2", f"{fi.path}:{n.lineno}", witness="] foo")
    # JaqalParseError constructions pass a non-constant line
    for name, lst in pcls.methods_all.items():
        for fi in lst:
            for n in walk_no_nested(fi.node):
                if isinstance(n, ast.Call) and isinstance(n.func, ast.Name) and n.func.id == "JaqalParseError":
                    cons = construct_of(fi, "JaqalParseError:line")
                    if len(n.args) >= 3 and not isinstance(n.args[1], ast.Constant):
                        rep.ok("C16.7", cons, "line/column arguments are computed", f"{fi.path}:{n.lineno}")
                    else:
                        rep.violation("C16.7", cons, "JaqalParseError is constructed with a constant position", f"{fi.path}:{n.lineno}")

    # the parser's error callback reports a real position on every path, also at the end of the input
    perr = pcls.methods.get("error")
    if perr is not None:
        cons = construct_of(perr, "position-on-every-path")
        consts = []
        for st in iter_stmts(perr.body):
            if isinstance(st, ast.Assign) and len(st.targets) == 1 and isinstance(st.targets[0], ast.Name) and st.targets[0].id in ("line", "lineno", "col", "column") and isinstance(st.value, ast.Constant):
                consts.append(st)
        if consts:
            rep.violation("C16.7", cons, f"`{ast.unparse(consts[0])}`: at the end of the input the JaqalParseError carries a constant instead of a line and column (`<string>:EOF:0`); a truncated program gets no position", f"{perr.path}:{consts[0].lineno}", witness="register q[")
        else:
            rep.ok("C16.7", cons, "line and column are computed on both paths (token / end of input)", perr.loc())

    # ------------------------------------------------------------ C16.8
    rep.rule("C16.8", "no history-dependence anti-patterns (mutable default mutated; __init__ as class/static method; module-level container mutated by a reachable function)", floor=1)
    n_checked = 0
    for f in ix.functions.values():
        if f.module.startswith(("jaqalpaq._cli",)):
            continue
        if f.name == "__init__" and f.cls and (f.is_classmethod or f.is_staticmethod):
            rep.violation("C16.8", construct_of(f, "init-decorated"), "__init__ is decorated @classmethod/@staticmethod: `self` is the class, so instance state becomes class state shared by every instance (the last constructed object wins)", f.loc())
        a = f.node.args if not isinstance(f.node, ast.Lambda) else None
        if a is None:
            continue
        pos = a.posonlyargs + a.args
        defaults = list(zip(pos[len(pos) - len(a.defaults):], a.defaults)) + [(x, d) for x, d in zip(a.kwonlyargs, a.kw_defaults) if d is not None]
        for arg, d in defaults:
            if isinstance(d, (ast.List, ast.Dict, ast.Set)) or (isinstance(d, ast.Call) and isinstance(d.func, ast.Name) and d.func.id in ("list", "dict", "set", "deque", "defaultdict")):
                n_checked += 1
                mutated = any(
                    (isinstance(n, ast.Call) and isinstance(n.func, ast.Attribute) and isinstance(n.func.value, ast.Name) and n.func.value.id == arg.arg and n.func.attr in ("append", "extend", "update", "add", "pop", "clear", "insert", "setdefault", "remove"))
                    or (isinstance(n, (ast.Subscript,)) and isinstance(n.ctx, (ast.Store, ast.Del)) and isinstance(n.value, ast.Name) and n.value.id == arg.arg)
                    for n in walk_no_nested(f.node)
                )
                cons = construct_of(f, f"mutable-default:{arg.arg}")
                if mutated:
                    rep.violation("C16.8", cons, f"the mutable default of `{arg.arg}` is mutated: state leaks from one call to the next", f.loc())
                else:
                    rep.ok("C16.8", cons, "mutable default is not mutated", f.loc())
    # module-level containers mutated from reachable functions
    for q in ea.reachable:
        f = ix.functions[q]
        m = ix.modules[f.module]
        containers = set()
        for st in m.tree.body:
            if isinstance(st, ast.Assign) and isinstance(st.value, (ast.List, ast.Dict, ast.Set)):
                for t in st.targets:
                    if isinstance(t, ast.Name):
                        containers.add(t.id)
        local = set(f.all_params) | {n.id for n in ast.walk(f.node) if isinstance(n, ast.Name) and isinstance(n.ctx, ast.Store)}
        for n in walk_no_nested(f.node):
            tgt = None
            if isinstance(n, ast.Call) and isinstance(n.func, ast.Attribute) and isinstance(n.func.value, ast.Name) and n.func.attr in ("append", "extend", "update", "add", "pop", "clear", "insert", "setdefault", "remove"):
                tgt = n.func.value.id
            elif isinstance(n, ast.Subscript) and isinstance(n.ctx, (ast.Store, ast.Del)) and isinstance(n.value, ast.Name):
                tgt = n.value.id
            if tgt and tgt in containers and tgt not in local:
                rep.violation("C16.8", construct_of(f, f"module-state:{tgt}"), f"the module-level container `{tgt}` is mutated by a function reachable from the entry points: later calls see what earlier calls left behind", f"{f.path}:{n.lineno}")
    # class-level mutable containers mutated through self and never rebound per instance
    for c in ix.classes.values():
        if c.module.startswith("jaqalpaq._cli"):
            continue
        for attr, val in c.class_attrs.items():
            if not isinstance(val, (ast.List, ast.Dict, ast.Set)) and not (isinstance(val, ast.Call) and isinstance(val.func, ast.Name) and val.func.id in ("list", "dict", "set", "deque", "defaultdict", "OrderedDict")):
                continue
            fam = [c.qualname] + ix.subclasses(c.qualname)
            rebound = any(any(fi.name == "__init__" for fi, v in ix.classes[k].self_attrs.get(attr, [])) for k in ix.mro(c.qualname) + ix.subclasses(c.qualname))
            mutated = None
            for k in fam:
                for lst in ix.classes[k].methods_all.values():
                    for fi in lst:
                        if not fi.params:
                            continue
                        s0 = fi.params[0]
                        for n in walk_no_nested(fi.node):
                            tgt = None
                            if isinstance(n, ast.Call) and isinstance(n.func, ast.Attribute) and n.func.attr in ("append", "extend", "update", "add", "pop", "clear", "insert", "setdefault", "remove"):
                                tgt = n.func.value
                            elif isinstance(n, ast.Subscript) and isinstance(n.ctx, (ast.Store, ast.Del)):
                                tgt = n.value
                            if isinstance(tgt, ast.Attribute) and tgt.attr == attr and isinstance(tgt.value, ast.Name) and tgt.value.id == s0:
                                mutated = (fi, n)
            if mutated and not rebound:
                fi, n = mutated
                rep.violation("C16.8", cls_construct(ix, c.qualname, f"class-state:{attr}"), f"`{attr}` is a mutable class attribute that {construct_of(fi)} mutates through self and no __init__ rebinds: every instance (every later call in the process) shares and keeps extending it", f"{fi.path}:{n.lineno}")
            elif mutated:
                rep.ok("C16.8", cls_construct(ix, c.qualname, f"class-state:{attr}"), "rebound per instance in __init__", c.loc())
    # tables loaded from an imported module are read-only afterwards
    for c in ix.classes.values():
        for attr, lst in c.self_attrs.items():
            loaders = [fi for fi, v in lst if isinstance(v, ast.Call) and (ix.resolve_expr(c.module, v.func, fi) or ("", ""))[0] == "func" and "import" in (ix.resolve_expr(c.module, v.func, fi) or ("", ""))[1]]
            if not loaders:
                continue
            for mlst in c.methods_all.values():
                for fi in mlst:
                    if fi in loaders or not fi.params:
                        continue
                    s0 = fi.params[0]

                    def is_src(n, s0=s0, attr=attr):
                        return isinstance(n, ast.Attribute) and n.attr == attr and isinstance(n.value, ast.Name) and n.value.id == s0 and isinstance(n.ctx, ast.Load)

                    aliases = set()
                    for n in walk_no_nested(fi.node):
                        if isinstance(n, ast.Assign) and is_src(n.value):
                            aliases |= {t.id for t in n.targets if isinstance(t, ast.Name)}
                    for n in walk_no_nested(fi.node):
                        tgt = None
                        if isinstance(n, ast.Call) and isinstance(n.func, ast.Attribute) and n.func.attr in ("pop", "clear", "update", "setdefault", "popitem", "append", "remove", "__setitem__", "__delitem__"):
                            tgt = n.func.value
                        elif isinstance(n, ast.Subscript) and isinstance(n.ctx, (ast.Store, ast.Del)):
                            tgt = n.value
                        if tgt is not None and (is_src(tgt) or (isinstance(tgt, ast.Name) and tgt.id in aliases)):
                            rep.violation("C16.8", construct_of(fi, f"mutates-loaded:{attr}"), f"`{ast.unparse(n)[:60]}` mutates self.{attr}, the table loaded from an imported module (the module's own object): the change persists for every later call in the process", f"{fi.path}:{n.lineno}")
    rep.ok("C16.8", "package:init-decorators", f"checked {sum(1 for f in ix.functions.values() if f.name == '__init__')} __init__ methods and {n_checked} mutable defaults")


    # ------------------------------------------------------------ C16.9
    rep.rule("C16.9", "no lexer pattern has an exponentially ambiguous repetition (catastrophic backtracking on malformed input)", floor=3)
    import re._parser as sre_parse
    import re._constants as sre_c
    from ..regex import NFA, Features, DFA, _build, Unsupported

    def lang_of(items):
        nfa = NFA()
        feats = Features()
        end = _build(nfa, list(items), nfa.start, feats)
        nfa.accept = {end}
        return DFA.from_nfa(nfa)

    def repeats(items, acc):
        for op, arg in items:
            if op in (sre_c.MAX_REPEAT, sre_c.MIN_REPEAT):
                lo, hi, p = arg
                if hi is sre_c.MAXREPEAT or (isinstance(hi, int) and hi > 8):
                    acc.append(list(p))
                repeats(p, acc)
            elif op is sre_c.SUBPATTERN:
                repeats(arg[3], acc)
            elif op is sre_c.BRANCH:
                for alt in arg[1]:
                    repeats(alt, acc)
        return acc

    lxm = extract_lexer(ix)
    for r in lxm.rules:
        cons = cls_construct(ix, lxm.cls.qualname, f"{'ignore_' if r.ignored else ''}{r.name}:repetition")
        loc = f"{lxm.cls.path}:{r.lineno}"
        try:
            parsed = sre_parse.parse(r.pattern)
            bad = None
            for body in repeats(list(parsed), []):
                one = lang_of(body)
                star = [(sre_c.MAX_REPEAT, (1, sre_c.MAXREPEAT, body))]
                two_plus = lang_of(list(body) + star)
                w = one.intersect(two_plus).shortest()
                if w is not None and w != "":
                    bad = (body, w)
                    break
            if bad:
                rep.violation("C16.9", cons, f"in {r.pattern!r} a repeated group can match {bad[1]!r} both as one iteration and as several: on input that does not complete the token (e.g. an unterminated comment) Python's backtracking matcher tries exponentially many splits and the call does not return", loc, witness=bad[1])
            else:
                rep.ok("C16.9", cons, "every unbounded repetition is iteration-unambiguous", loc)
        except Unsupported as ex:
            rep.undecided("C16.9", cons, str(ex), loc)

    # ------------------------------------------------------------ C16.10
    rep.rule("C16.10", "a raising emptiness guard is not followed by a reassignment that can empty the validated value", floor=0)
    for q in ea.reachable:
        f = ix.functions[q]
        if isinstance(f.node, ast.Lambda):
            continue
        for stmts in _stmt_lists_of(f.node):
            for i, st in enumerate(stmts):
                if not (isinstance(st, ast.If) and isinstance(st.test, ast.UnaryOp) and isinstance(st.test.op, ast.Not) and isinstance(st.test.operand, ast.Name) and st.body and isinstance(st.body[-1], ast.Raise)):
                    continue
                var = st.test.operand.id
                before = any(isinstance(x, ast.Assign) and any(isinstance(t, ast.Name) and t.id == var for t in x.targets) and _shrinks(x.value, var) for s2 in stmts[:i] for x in ast.walk(s2))
                after = [x for s2 in stmts[i + 1:] for x in ast.walk(s2) if isinstance(x, ast.Assign) and any(isinstance(t, ast.Name) and t.id == var for t in x.targets) and _shrinks(x.value, var)]
                reguarded = any(isinstance(s2, ast.If) and isinstance(s2.test, ast.UnaryOp) and isinstance(s2.test.op, ast.Not) and isinstance(s2.test.operand, ast.Name) and s2.test.operand.id == var for s2 in stmts[i + 1:])
                cons = construct_of(f, f"emptiness-guard:{var}")
                if after and not reguarded:
                    rep.violation("C16.10", cons, f"`if not {var}: raise` validates `{var}` before `{ast.unparse(after[0])}` shortens it: the value used afterwards can be empty although the guard passed (e.g. the module name `.`), and the failure surfaces later as a different exception type", f"{f.path}:{after[0].lineno}")
                else:
                    rep.ok("C16.10", cons, "the guard follows every shortening of the value", f"{f.path}:{st.lineno}")


    # ------------------------------------------------------------ C16.11
    rep.rule("C16.11", "every while loop changes something its condition depends on (or has an explicit exit)", floor=5)
    for q in ea.reachable:
        f = ix.functions[q]
        if isinstance(f.node, ast.Lambda):
            continue
        for st in iter_stmts(f.body):
            if not isinstance(st, ast.While):
                continue
            cons = construct_of(f, f"while:{ast.unparse(st.test)[:40]}")
            loc = f"{f.path}:{st.lineno}"
            cond_names = {n.id for n in ast.walk(st.test) if isinstance(n, ast.Name)} - {"isinstance", "len", "True", "False", "None"}
            cond_attrs = {(n.value.id, n.attr) for n in ast.walk(st.test) if isinstance(n, ast.Attribute) and isinstance(n.value, ast.Name)}
            has_exit = any(isinstance(x, (ast.Break, ast.Return, ast.Raise)) for x in iter_stmts(st.body))
            changed = False
            for x in iter_stmts(st.body):
                tgts = []
                if isinstance(x, ast.Assign):
                    tgts = x.targets
                elif isinstance(x, (ast.AugAssign, ast.AnnAssign)):
                    tgts = [x.target]
                elif isinstance(x, (ast.For,)):
                    tgts = [x.target]
                for t in tgts:
                    for n in ast.walk(t):
                        if isinstance(n, ast.Name) and n.id in cond_names:
                            changed = True
                        if isinstance(n, ast.Attribute) and isinstance(n.value, ast.Name) and (n.value.id, n.attr) in cond_attrs:
                            changed = True
                        if isinstance(n, ast.Subscript):
                            b = n.value
                            while isinstance(b, (ast.Subscript, ast.Attribute)):
                                b = b.value
                            if isinstance(b, ast.Name) and b.id in cond_names:
                                changed = True
            # calls that may mutate the objects the condition reads: method calls on them, or any self method when the condition reads self state
            for x in ast.walk(ast.Module(body=st.body, type_ignores=[])):
                if isinstance(x, ast.Call) and isinstance(x.func, ast.Attribute):
                    b = x.func.value
                    while isinstance(b, (ast.Attribute, ast.Subscript)):
                        b = b.value
                    if isinstance(b, ast.Name) and b.id in cond_names and (x.func.attr in ("pop", "append", "remove", "clear", "update", "add", "popleft", "extend", "discard") or (f.params and b.id == f.params[0])):
                        changed = True
            if isinstance(st.test, ast.Constant) and st.test.value:
                if has_exit:
                    rep.ok("C16.11", cons, "`while True` with an explicit exit", loc)
                else:
                    rep.violation("C16.11", cons, "`while True` without break/return/raise: the call never returns", loc)
            elif changed or has_exit:
                rep.ok("C16.11", cons, "the body changes what the condition reads" if changed else "explicit exit in the body", loc)
            else:
                rep.violation("C16.11", cons, f"nothing the condition `{ast.unparse(st.test)}` depends on is assigned or mutated in the loop body, and the body has no explicit exit: if the condition holds once, the loop never ends (the sibling loops assign the resolved value back)", loc)

    # ------------------------------------------------------------ C16.12
    rep.rule("C16.12", "a computed step handed to range() is tested against zero first (range(a, b, 0) raises ValueError)", floor=1)
    n12 = 0
    for q in sorted(ea.reachable):
        f = ix.functions[q]
        if isinstance(f.node, ast.Lambda):
            continue
        for n in walk_no_nested(f.node):
            if not (isinstance(n, ast.Call) and isinstance(n.func, ast.Name) and n.func.id == "range" and len(n.args) == 3):
                continue
            step = n.args[2]
            cons = construct_of(f, f"range-step:{ast.unparse(step)[:30]}")
            loc = f"{f.path}:{n.lineno}"
            n12 += 1
            if isinstance(step, ast.Constant) or (isinstance(step, ast.UnaryOp) and isinstance(step.operand, ast.Constant)):
                v = step.value if isinstance(step, ast.Constant) else 1
                if v == 0:
                    rep.violation("C16.12", cons, "range() with a literal zero step", loc)
                else:
                    rep.ok("C16.12", cons, "literal non-zero step", loc)
                continue
            key = ast.unparse(step)
            guard = None
            for st in iter_stmts(f.body):
                if isinstance(st, ast.If) and st.lineno < n.lineno and any(isinstance(x, ast.Raise) for x in st.body):
                    for c in ast.walk(st.test):
                        if isinstance(c, ast.Compare) and len(c.ops) == 1 and isinstance(c.ops[0], (ast.Eq, ast.LtE, ast.Lt)) :
                            l, r = ast.unparse(c.left), ast.unparse(c.comparators[0])
                            if (l == key and r == "0") or (r == key and l == "0"):
                                guard = st
                        if isinstance(c, ast.UnaryOp) and isinstance(c.op, ast.Not) and ast.unparse(c.operand) == key:
                            guard = st
            # the guard must still be valid: no re-assignment of the step between guard and use
            if guard is not None and isinstance(step, ast.Name):
                for st in iter_stmts(f.body):
                    if isinstance(st, ast.Assign) and guard.lineno < st.lineno < n.lineno and any(isinstance(t, ast.Name) and t.id == step.id for t in st.targets):
                        guard = None
                        break
            if guard is not None:
                rep.ok("C16.12", cons, f"`{ast.unparse(guard.test)}` raises before the call", loc)
            else:
                rep.violation("C16.12", cons, f"`{ast.unparse(n)}`: the step is computed (it can be a let constant) and nothing rejects zero before the call: ValueError('range() arg 3 must not be zero') escapes instead of JaqalError", loc, witness="let z 0\nregister q[2]\nmap a q[0:2:z]\nfoo a[0]")
    rep.analysed["range_step_sites"] = n12

    # ------------------------------------------------------------ C16.13
    rep.rule("C16.13", "a handler that swallows the failure of int()/float() on a program value covers every way the conversion fails (TypeError, ValueError, OverflowError)", floor=1)
    NEED = {"TypeError", "ValueError", "OverflowError"}
    # int(x) raises OverflowError only for a non-finite float; program text cannot produce one when the lexer
    # rejects literals that overflow (C16.19)
    from ..lexer import extract_lexer as _xl
    lexer_finite = False
    for r_ in _xl(ix).rules:
        if r_.conversion == "float" and r_.func is not None:
            lexer_finite = any(isinstance(st_, ast.If) and any(isinstance(x_, ast.Raise) for x_ in st_.body) and ("inf" in ast.unparse(st_.test) or "isfinite" in ast.unparse(st_.test) or "isinf" in ast.unparse(st_.test)) for st_ in iter_stmts(r_.func.body))
    rep.analysed["lexer_rejects_non_finite"] = lexer_finite
    COVER = {"Exception": NEED, "BaseException": NEED, "ArithmeticError": {"OverflowError"}, "TypeError": {"TypeError"}, "ValueError": {"ValueError"}, "OverflowError": {"OverflowError"}}
    for q in sorted(ea.reachable):
        f = ix.functions[q]
        if isinstance(f.node, ast.Lambda):
            continue
        for tr_ in walk_no_nested(f.node):
            if not isinstance(tr_, ast.Try):
                continue
            conv = [c for b in tr_.body for c in ast.walk(b) if isinstance(c, ast.Call) and isinstance(c.func, ast.Name) and c.func.id in ("int", "float") and c.args and not isinstance(c.args[0], ast.Constant)]
            if not conv:
                continue
            names = set()
            for h in tr_.handlers:
                if h.type is None:
                    names |= {"BaseException"}
                else:
                    ts = h.type.elts if isinstance(h.type, ast.Tuple) else [h.type]
                    for t in ts:
                        names.add(ast.unparse(t).split(".")[-1])
            builtin_handled = names & set(COVER)
            if not builtin_handled:
                continue  # the try is about something else (e.g. JaqalError from a property); not a belief about the conversion
            cons = construct_of(f, f"conversion-handler:{ast.unparse(conv[0])[:30]}")
            covered = set()
            for nm in builtin_handled:
                covered |= COVER[nm]
            need = NEED if not lexer_finite else NEED - {"OverflowError"}
            if f.cls and any(k.endswith(".Lexer") or k == "Lexer" for k in [b for c_ in ix.mro(f.cls) for b in ([c_] + list(getattr(ix.classes.get(c_), "bases", []) or []))]):
                # a lexer rule converts the matched text: a str, so only ValueError is possible
                need = {"ValueError"}
            # the value is known to be an int (the conversion sits in a branch taken under isinstance(x, int)):
            # float(int) fails with OverflowError only
            a0 = conv[0].args[0]
            if conv[0].func.id == "float" and isinstance(a0, ast.Name):
                from .wave3 import _enclosing_ifs as _eifs
                for t_, taken_ in _eifs(f.node, tr_):
                    if taken_ and isinstance(t_, ast.Call) and isinstance(t_.func, ast.Name) and t_.func.id == "isinstance" and isinstance(t_.args[0], ast.Name) and t_.args[0].id == a0.id and ast.unparse(t_.args[1]) == "int":
                        need = {"OverflowError"}
            # .. or it is the parameter of a private helper whose every call site hands it a value known to be an
            # integer (isinstance(.., Integral/int) on the path to the call)
            if conv[0].func.id == "float" and isinstance(a0, ast.Name) and a0.id in f.params and f.name.startswith("_") and f.cls:
                from .wave3 import _enclosing_ifs as _eifs2
                pos = f.params.index(a0.id) - 1
                sites = []
                for g in ix.functions.values():
                    if g.cls != f.cls or isinstance(g.node, ast.Lambda):
                        continue
                    for c_ in ast.walk(g.node):
                        if isinstance(c_, ast.Call) and isinstance(c_.func, ast.Attribute) and c_.func.attr == f.name and len(c_.args) > pos:
                            sites.append((g, c_))
                def _int_guarded(g, c_):
                    arg = c_.args[pos]
                    if not isinstance(arg, ast.Name):
                        return False
                    for t_, taken_ in _eifs2(g.node, c_):
                        if taken_ and isinstance(t_, ast.Call) and isinstance(t_.func, ast.Name) and t_.func.id == "isinstance" and isinstance(t_.args[0], ast.Name) and t_.args[0].id == arg.id and ast.unparse(t_.args[1]) in ("int", "Integral"):
                            return True
                    return False
                if sites and all(_int_guarded(g, c_) for g, c_ in sites):
                    need = {"OverflowError"}
            missing = need - covered
            loc = f"{f.path}:{tr_.lineno}"
            if missing:
                rep.violation("C16.13", cons, f"the handler ({', '.join(sorted(names))}) around `{ast.unparse(conv[0])}` expects the conversion to fail but does not cover {', '.join(sorted(missing))}: e.g. an out-of-range float literal (1.0e999 lexes as inf) makes int() raise OverflowError, which escapes the parser", loc, witness="let big 1.0e999")
            else:
                rep.ok("C16.13", cons, f"handlers cover all conversion failures ({', '.join(sorted(names))})", loc)

    # ------------------------------------------------------------ C16.14
    rep.rule("C16.14", "an object looked up by name in the builder's context can be any declared entity: class-specific attributes are read only after an isinstance test", floor=1)
    ENTITY = ["jaqalpaq.core.register.Register", "jaqalpaq.core.register.NamedQubit", "jaqalpaq.core.constant.Constant", "jaqalpaq.core.parameter.Parameter"]
    for c in ENTITY:
        ix.cls(c)

    def has_attr(cq, attr):
        for k in ix.mro(cq):
            ci = ix.classes.get(k)
            if ci is None:
                continue
            if attr in ci.methods or attr in getattr(ci, "init_fields", ()) or attr in getattr(ci, "class_attrs", ()):
                return True
        return False
    n14 = 0
    for q in sorted(ea.reachable):
        f = ix.functions[q]
        if f.module != "jaqalpaq.core.circuitbuilder" or isinstance(f.node, ast.Lambda):
            continue
        looked = set()
        for st in iter_stmts(f.body):
            if isinstance(st, ast.Assign) and len(st.targets) == 1 and isinstance(st.targets[0], ast.Name):
                v = st.value
                if isinstance(v, ast.Subscript) and isinstance(v.value, ast.Name) and v.value.id == "context":
                    looked.add(st.targets[0].id)
                if isinstance(v, ast.Call) and isinstance(v.func, ast.Attribute) and v.func.attr == "get" and isinstance(v.func.value, ast.Name) and v.func.value.id == "context":
                    looked.add(st.targets[0].id)
        if not looked:
            continue
        fl = FuncFlow(ix, T, f)
        for n in walk_no_nested(f.node):
            if isinstance(n, ast.Attribute) and isinstance(n.ctx, ast.Load) and isinstance(n.value, ast.Name) and n.value.id in looked:
                n14 += 1
                missing = [c.split(".")[-1] for c in ENTITY if not has_attr(c, n.attr)]
                cons = construct_of(f, f"context-entity:{n.value.id}.{n.attr}")
                loc = f"{f.path}:{n.lineno}"
                if not missing:
                    rep.ok("C16.14", cons, "every declared entity has this attribute", loc)
                    continue
                guarded = any(
                    isinstance(m, ast.Call) and isinstance(m.func, ast.Name) and m.func.id == "isinstance" and m.args and isinstance(m.args[0], ast.Name) and m.args[0].id == n.value.id
                    for t in fl.control_tests(n) for m in ast.walk(t))
                if guarded:
                    rep.ok("C16.14", cons, "read under an isinstance test", loc)
                else:
                    rep.violation("C16.14", cons, f"`{n.value.id}` comes from a context lookup and may be a {'/'.join(missing)}, which has no `{n.attr}`: AttributeError escapes instead of JaqalError", loc, witness="register q[2]\nmap a q[0]\nmap b a[:]")
    rep.analysed["context_entity_attribute_reads"] = n14

    # ------------------------------------------------------------ C16.15
    from .common import check_zero_trip
    check_zero_trip(ctx, rep, "C16.15", EXCLUDE)

    # ------------------------------------------------------------ C16.16
    rep.rule("C16.16", "the process-wide module table (sys.modules) is not left changed by a call: nothing is registered under a name a later absolute import can find, and whatever is evicted comes back when the import fails", floor=2)

    def is_sysmodules(e):
        return isinstance(e, ast.Attribute) and e.attr == "modules" and isinstance(e.value, ast.Name) and e.value.id == "sys"
    n16 = 0
    for q in sorted(ea.reachable):
        f = ix.functions[q]
        if isinstance(f.node, ast.Lambda):
            continue
        stores, evicts, restores = [], [], []
        for n in walk_no_nested(f.node):
            if isinstance(n, ast.Subscript) and is_sysmodules(n.value):
                if isinstance(n.ctx, ast.Store):
                    stores.append(n)
                elif isinstance(n.ctx, ast.Del):
                    evicts.append(n)
            if isinstance(n, ast.Call) and isinstance(n.func, ast.Attribute) and is_sysmodules(n.func.value):
                if n.func.attr in ("pop", "clear", "popitem"):
                    evicts.append(n)
                elif n.func.attr in ("setdefault", "update", "__setitem__"):
                    restores.append(n)
        if not (stores or evicts):
            continue
        handlers = [h for t in walk_no_nested(f.node) if isinstance(t, ast.Try) for h in t.handlers]

        def in_reraising_handler(node):
            for h in handlers:
                if any(x is node for b in h.body for x in ast.walk(b)) and any(isinstance(x, ast.Raise) and x.exc is None for b in h.body for x in ast.walk(b)):
                    return True
            return False
        for n in stores:
            n16 += 1
            cons = construct_of(f, f"sys.modules-store:{ast.unparse(n.slice)[:30]}")
            loc = f"{f.path}:{n.lineno}"
            if in_reraising_handler(n):
                rep.ok("C16.16", cons, "restores an entry on the failure path", loc)
            else:
                rep.violation("C16.16", cons, f"`{ast.unparse(n)} = ..` registers the relatively imported pulse module under its bare name for the rest of the process: afterwards `from {ast.unparse(n.slice)} usepulses *` (absolute) succeeds although it raises ImportError in a fresh process", loc, witness="from .mygates usepulses *   (succeeds)\nfrom mygates usepulses *    (now succeeds; ModuleNotFoundError when processed first)")
        for n in stores:
            if in_reraising_handler(n):
                continue
            cons = construct_of(f, f"sys.modules-store-rollback:{ast.unparse(n.slice)[:30]}")
            rolled = any(in_reraising_handler(e) for e in evicts)
            if rolled:
                rep.ok("C16.16", cons, "a re-raising handler removes the entry again when loading the module fails", f"{f.path}:{n.lineno}")
            else:
                rep.violation("C16.16", cons, f"`{ast.unparse(n)} = ..` is not rolled back when executing the module raises: a half-initialised module stays importable, so the same text fails differently (or succeeds) the second time", f"{f.path}:{n.lineno}")
        for n in evicts:
            n16 += 1
            cons = construct_of(f, f"sys.modules-evict:{ast.unparse(n)[:40]}")
            loc = f"{f.path}:{n.lineno}"
            if in_reraising_handler(n):
                rep.ok("C16.16", cons, "removes the half-initialised module this call registered, then re-raises", loc)
                continue
            # an eviction outside a handler must be remembered and restored by a re-raising handler
            par_assign = [st for st in iter_stmts(f.body) if isinstance(st, ast.Assign) and any(x is n for x in ast.walk(st.value))]
            restored = any(in_reraising_handler(r) for r in restores) or any(in_reraising_handler(s_) for s_ in stores)
            if par_assign and restored:
                rep.ok("C16.16", cons, "the evicted entry is kept and put back by a re-raising handler when the import fails", loc)
            else:
                rep.violation("C16.16", cons, f"`{ast.unparse(n)}` evicts an imported module and nothing puts it back when the import then fails: `from .numpy usepulses *` raises ImportError and leaves the process without numpy, so the next valid run fails (cannot load module more than once per process)", loc, witness="from .numpy usepulses *")
    rep.analysed["sys_modules_sites"] = n16

    # ------------------------------------------------------------ C16.17
    from .common import check_recursion_guard
    check_recursion_guard(ctx, rep, "C16.17", entries, EXCLUDE)

    # ------------------------------------------------------------ C16.18
    from .common import check_cached_mutables
    check_cached_mutables(ctx, rep, "C16.18", ["jaqalpaq"])

    # ------------------------------------------------------------ C16.20
    rep.rule("C16.20", "a pulse module is loaded from a file only after testing that this very file exists, and a directory is listed only after testing that it is one (otherwise FileNotFoundError escapes instead of ImportError)", floor=2)
    n20 = 0
    for q in sorted(ea.reachable):
        f = ix.functions[q]
        if f.module != "jaqalpaq._import" or isinstance(f.node, ast.Lambda):
            continue
        fl20 = None
        for nd in walk_no_nested(f.node):
            if not isinstance(nd, ast.Call):
                continue
            fname = nd.func.attr if isinstance(nd.func, ast.Attribute) else nd.func.id if isinstance(nd.func, ast.Name) else ""
            if fname == "spec_from_file_location" and len(nd.args) >= 2:
                want, what = ast.unparse(nd.args[1]), "is_file"
            elif fname == "listdir" and nd.args:
                want, what = ast.unparse(nd.args[0]), "is_dir"
            else:
                continue
            n20 += 1
            if fl20 is None:
                fl20 = FuncFlow(ix, T, f)
            cons = construct_of(f, f"path-tested:{fname}:{want[:30]}")
            loc = f"{f.path}:{nd.lineno}"
            tests = list(fl20.control_tests(nd))
            # an earlier `if not <path>.is_dir(): raise` also guards
            for st in iter_stmts(f.body):
                if isinstance(st, ast.If) and st.lineno < nd.lineno and any(isinstance(x, ast.Raise) for x in st.body):
                    tests.append(st.test)

            def strip(txt):
                return txt.replace("Path(", "").replace(")", "").replace("(", "").replace(" ", "")
            ok_ = any(isinstance(m, ast.Call) and isinstance(m.func, ast.Attribute) and m.func.attr == what and strip(ast.unparse(m.func.value)) == strip(want) for t in tests for m in ast.walk(t))
            if ok_:
                rep.ok("C16.20", cons, f"`{want}.{what}()` is tested first", loc)
            else:
                rep.violation("C16.20", cons, f"`{ast.unparse(nd)[:80]}` is reached without testing `{want}.{what}()`: a pulse-module directory without __init__.py (or a missing import path) raises FileNotFoundError from the parser instead of ImportError", loc, witness="from .mygates usepulses *   (import path holds an empty directory mygates/)")
    if n20 == 0:
        raise AnalysisError("C16.20: no file-based module loading found in jaqalpaq._import (anchor vanished)")

    # ------------------------------------------------------------ C16.21
    rep.rule("C16.21", "built-in failures on program-sized values are converted: len(range(..)) of program bounds (OverflowError), look-ups of a program's gate name in the native gate table (KeyError), file-system probes of a program-supplied module name (OSError)", floor=3)

    def in_try(f, node, names):
        for t in walk_no_nested(f.node):
            if isinstance(t, ast.Try) and any(x is node for b in t.body for x in ast.walk(b)):
                for h in t.handlers:
                    hn = {"BaseException"} if h.type is None else {ast.unparse(x).split(".")[-1] for x in (h.type.elts if isinstance(h.type, ast.Tuple) else [h.type])}
                    if hn & set(names) and any(isinstance(x, ast.Raise) for b in h.body for x in ast.walk(b)):
                        return True
        return False
    n21 = 0
    for q in sorted(ea.reachable):
        f = ix.functions[q]
        if isinstance(f.node, ast.Lambda):
            continue
        fl21 = None
        for nd in walk_no_nested(f.node):
            # (a) len(range(..)) with non-literal bounds
            rng_arg = None
            if isinstance(nd, ast.Call) and isinstance(nd.func, ast.Name) and nd.func.id == "len" and nd.args:
                a0 = nd.args[0]
                if isinstance(a0, ast.Name):
                    defs_ = [st_.value for st_ in iter_stmts(f.body) if isinstance(st_, ast.Assign) and any(isinstance(t_, ast.Name) and t_.id == a0.id for t_ in st_.targets)]
                    if len(defs_) == 1:
                        a0 = defs_[0]
                if isinstance(a0, ast.Call) and isinstance(a0.func, ast.Name) and a0.func.id == "range" and not all(isinstance(a, ast.Constant) for a in a0.args):
                    rng_arg = a0
            if rng_arg is not None:
                n21 += 1
                cons = construct_of(f, f"len-of-range:{ast.unparse(nd)[:40]}")
                if in_try(f, nd, ("OverflowError", "ArithmeticError", "Exception", "BaseException")):
                    rep.ok("C16.21", cons, "OverflowError is converted", f"{f.path}:{nd.lineno}")
                else:
                    rep.violation("C16.21", cons, f"`{ast.unparse(nd)}`: the length of a range over program-supplied bounds does not fit a machine integer for a bound like -9223372036854775808: OverflowError escapes instead of JaqalError", f"{f.path}:{nd.lineno}", witness="register r[2]\nmap a r[-9223372036854775808:2]")
            # (b) native gate table look-ups by a statement's name in the emulator
            if f.module.startswith("jaqalpaq.emulator") and isinstance(nd, ast.Subscript) and isinstance(nd.ctx, ast.Load) and isinstance(nd.slice, ast.Attribute) and nd.slice.attr == "name":
                if fl21 is None:
                    fl21 = FuncFlow(ix, T, f)
                ids_, roots_ = fl21.depends(nd.value)
                if any(isinstance(m, ast.Attribute) and m.attr == "native_gates" for e in [nd.value] + list(roots_) for m in ast.walk(e)):
                    n21 += 1
                    cons = construct_of(f, f"gate-table-lookup:{ast.unparse(nd)[:40]}")
                    if in_try(f, nd, ("KeyError", "LookupError", "Exception", "BaseException")):
                        rep.ok("C16.21", cons, "KeyError is converted", f"{f.path}:{nd.lineno}")
                    else:
                        rep.violation("C16.21", cons, f"`{ast.unparse(nd)}` fails with KeyError for a circuit whose gates have no native definition (e.g. parsed with autoload_pulses=False): run_jaqal_circuit lets it escape", f"{f.path}:{nd.lineno}", witness="register r[1]\nprepare_all\nPx r[0]\nmeasure_all   (parsed without a gate set)")
    # (c) file-system probes
    probers = [f for f in ix.functions.values() if f.module == "jaqalpaq._import" and any(isinstance(m, ast.Call) and isinstance(m.func, ast.Attribute) and m.func.attr in ("is_file", "is_dir", "listdir", "exists") for m in walk_no_nested(f.node))]
    for pf in probers:
        n21 += 1
        cons = construct_of(pf, "probe-oserror-converted")
        sites = [(g, cs.node) for g in ix.functions.values() if g.module == "jaqalpaq._import" for cs in T.callsites(g) if pf in cs.targets and isinstance(cs.node, ast.Call)]
        own = all(in_try(pf, m, ("OSError", "Exception", "BaseException")) for m in walk_no_nested(pf.node) if isinstance(m, ast.Call) and isinstance(m.func, ast.Attribute) and m.func.attr in ("is_file", "is_dir", "listdir", "exists"))
        if own or (sites and all(in_try(g, n_, ("OSError", "Exception", "BaseException")) for g, n_ in sites)):
            rep.ok("C16.21", cons, "an OSError from probing the file system becomes ImportError", pf.loc())
        else:
            rep.violation("C16.21", cons, "a module name the file system cannot probe (300 characters: ENAMETOOLONG) raises OSError from the parser instead of ImportError", pf.loc(), witness="from ." + "g" * 12 + "...(300) usepulses *")
    if n21 == 0:
        raise AnalysisError("C16.21: no instance found (anchors vanished)")


KNOWN_SUBMODULES = {
    ("importlib", "util"), ("importlib", "machinery"), ("importlib", "abc"), ("importlib", "resources"),
    ("os", "path"), ("xml", "etree"), ("concurrent", "futures"), ("urllib", "parse"), ("urllib", "request"),
    ("logging", "handlers"), ("email", "utils"), ("collections", "abc"), ("unittest", "mock"), ("sly", "yacc"), ("sly", "lex"),
}


def _shrinks(value, var) -> bool:
    """value is derived from var by slicing / stripping (can be empty when var is not)."""
    for n in ast.walk(value):
        if isinstance(n, ast.Subscript) and isinstance(n.slice, ast.Slice) and isinstance(n.value, ast.Name) and n.value.id == var:
            return True
        if isinstance(n, ast.Call) and isinstance(n.func, ast.Attribute) and n.func.attr in ("strip", "lstrip", "rstrip", "replace", "removeprefix", "removesuffix") and isinstance(n.func.value, ast.Name) and n.func.value.id == var:
            return True
    return False


def _stmt_lists_of(fn):
    out = []

    def rec(stmts):
        out.append(stmts)
        for st in stmts:
            if isinstance(st, (ast.FunctionDef, ast.ClassDef)):
                continue
            for fld in ("body", "orelse", "finalbody"):
                sub = getattr(st, fld, None)
                if sub:
                    rec(sub)
            for h in getattr(st, "handlers", []) or []:
                rec(h.body)

    rec(fn.body)
    return out
