"""C16 -- failures are JaqalErrors with a position; no sticky state (decided clauses)."""

from __future__ import annotations

import ast
from typing import List, Optional

from ..index import AnalysisError
from ..cfg import CFG, walk_no_nested, iter_stmts


def _is_none_test(test, name):
    """-> 'is' / 'isnot' when test is exactly `name is None` / `name is not None`."""
    if isinstance(test, ast.Compare) and len(test.ops) == 1 and isinstance(test.left, ast.Name) and test.left.id == name:
        c = test.comparators[0]
        if isinstance(c, ast.Constant) and c.value is None:
            if isinstance(test.ops[0], ast.Is):
                return "is"
            if isinstance(test.ops[0], ast.IsNot):
                return "isnot"
    return None


def _exits_or_rebinds(stmts, name) -> bool:
    if not stmts:
        return False
    for st in iter_stmts(stmts):
        if isinstance(st, ast.Assign) and any(isinstance(t, ast.Name) and t.id == name for t in st.targets):
            return True
    last = stmts[-1]
    return isinstance(last, (ast.Return, ast.Raise, ast.Continue, ast.Break))


def _derefs(node, name):
    """Dereferences of `name` in node that are not protected by a further test of `name`."""
    out = []

    def guards(test):
        for n in ast.walk(test):
            if isinstance(n, ast.Name) and n.id == name:
                return True
        return False

    def visit(n, protected):
        if isinstance(n, (ast.FunctionDef, ast.AsyncFunctionDef, ast.Lambda, ast.ClassDef)):
            return
        if isinstance(n, ast.If):
            visit(n.test, protected)
            p = protected or guards(n.test)
            for s in n.body + n.orelse:
                visit(s, p)
            return
        if isinstance(n, ast.IfExp):
            visit(n.test, protected)
            p = protected or guards(n.test)
            visit(n.body, p)
            visit(n.orelse, p)
            return
        if isinstance(n, ast.BoolOp):
            p = protected
            for v in n.values:
                visit(v, p)
                if guards(v):
                    p = True
            return
        if isinstance(n, ast.Try):
            # a dereference inside try/except AttributeError|TypeError|Exception is protected
            catches = any(h.type is None or any(isinstance(x, ast.Name) and x.id in ("AttributeError", "TypeError", "Exception") for x in ast.walk(h.type)) for h in n.handlers)
            for s in n.body:
                visit(s, protected or catches)
            for h in n.handlers:
                for s in h.body:
                    visit(s, protected)
            for s in n.orelse + n.finalbody:
                visit(s, protected)
            return
        if not protected:
            if isinstance(n, ast.Attribute) and isinstance(n.value, ast.Name) and n.value.id == name and isinstance(n.ctx, ast.Load):
                out.append(n)
            elif isinstance(n, ast.Subscript) and isinstance(n.value, ast.Name) and n.value.id == name:
                out.append(n)
            elif isinstance(n, ast.Call) and isinstance(n.func, ast.Name) and n.func.id == name:
                out.append(n)
        for ch in ast.iter_child_nodes(n):
            visit(ch, protected)

    visit(node, False)
    return out


def none_guard_contradictions(func, name) -> Optional[List[ast.AST]]:
    """C16.3 shape.  None if the function has no sole `name is [not] None` test whose
    None branch falls through; otherwise the unprotected dereferences of ``name``
    after the join of such a test."""
    found_test = False
    bad: List[ast.AST] = []

    def scan(stmts):
        nonlocal found_test
        for i, st in enumerate(stmts):
            if isinstance(st, ast.If):
                kind = _is_none_test(st.test, name)
                if kind is not None:
                    none_branch = st.body if kind == "is" else st.orelse
                    if not _exits_or_rebinds(none_branch, name):
                        found_test = True
                        # dereferences inside the None branch itself
                        for s in none_branch:
                            bad.extend(_derefs(s, name))
                        for later in stmts[i + 1:]:
                            bad.extend(_derefs(later, name))
                    else:
                        found_test = True
            for fld in ("body", "orelse", "finalbody"):
                sub = getattr(st, fld, None)
                if sub and not isinstance(st, (ast.FunctionDef, ast.AsyncFunctionDef, ast.ClassDef)):
                    scan(sub)
            for h in getattr(st, "handlers", []) or []:
                scan(h.body)

    scan(func.body)
    if not found_test:
        return None
    # unique, in source order
    seen = set()
    uniq = []
    for n in bad:
        if id(n) not in seen:
            seen.add(id(n))
            uniq.append(n)
    return uniq


def run(ctx, rep):
    raise AnalysisError("C16 rule set not built yet")
