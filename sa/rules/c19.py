"""C19 -- unit-timing normalisation preserves the schedule (decided clauses)."""

from __future__ import annotations

import ast

from ..index import AnalysisError
from ..cfg import CFG, walk_no_nested, iter_stmts
from ..fieldflow import FuncFlow, names_in
from .common import visitor_transformer, check_field_flow, construct_of, cls_construct

MOD = "jaqalpaq.core.algorithm.unit_timing"
BLOCK = "jaqalpaq.core.block.BlockStatement"
LOOP = "jaqalpaq.core.block.LoopStatement"
CIRCUIT = "jaqalpaq.core.circuit.Circuit"

R = "the property says header data and subcircuit annotations are preserved"


def find_normalizer(ctx):
    ix, T = ctx.ix, ctx.typer
    entry = ix.func(f"{MOD}.normalize_blocks_with_unitary_timing")
    for cs in T.callsites(entry):
        if cs.kind == "constructor" and cs.classes and T.is_visitor(cs.classes[0]):
            return cs.classes[0]
    raise AnalysisError("C19: cannot locate the visitor instantiated by normalize_blocks_with_unitary_timing")


def run(ctx, rep):
    ix, T = ctx.ix, ctx.typer
    from .common import check_fast_paths
    _fp_mods = ["jaqalpaq.core.algorithm.unit_timing"]
    check_fast_paths(ctx, rep, "C19.4", [f for f in ix.functions.values() if f.module in _fp_mods and (f.cls is None or T.is_visitor(f.cls))], None)
    vis = find_normalizer(ctx)
    tr = visitor_transformer(ctx, vis)
    rep.analysed["visitor"] = vis
    rep.assume("visitor convention: the first parameter of visit_<K> has static type K")
    # helper visitors of the module (UnrollIterator)
    helpers = [c.qualname for c in ix.classes.values() if c.module == MOD and T.is_visitor(c.qualname) and c.qualname != vis]
    rep.analysed["helpers"] = helpers
    funcs = list(tr.funcs)
    for h in helpers:
        funcs += [f for f in visitor_transformer(ctx, h).funcs if f not in funcs]
    rep.analysed["functions"] = sorted(f.qualname for f in funcs)

    # ------------------------------------------------------------ C19.1
    rep.rule("C19.1", "field flow through BlockNormalizer for what the pass must preserve", floor=8)
    check_field_flow(ctx, rep, "C19.1", tr, vis, [
        (BLOCK, "subcircuit", "required", R),
        (BLOCK, "iterations", "required", R),
        (BLOCK, "statements", "required", "no gate is lost or duplicated"),
        (BLOCK, "parallel", "read", "the pass is responsible for the block kind and nesting (READ only: it decides between chunking and unrolling)"),
        (LOOP, "iterations", "required", "loop counts are carried over"),
        (LOOP, "statements", "required", "no gate is lost or duplicated"),
        (CIRCUIT, "constants", "required", R),
        (CIRCUIT, "registers", "required", R),
        (CIRCUIT, "macros", "required", R),
        (CIRCUIT, "native_gates", "required", R),
        (CIRCUIT, "usepulses", "required", R),
        (CIRCUIT, "body", "required", R),
    ])
    # a block may be dissolved into its statements only under a guard that depends on its subcircuit annotation
    for f in funcs:
        fl = FuncFlow(ix, T, f)
        sites = []
        for n in walk_no_nested(f.node):
            blk = None
            if isinstance(n, ast.Call) and isinstance(n.func, ast.Attribute) and n.func.attr == "extend" and len(n.args) == 1:
                a = n.args[0]
                if isinstance(a, ast.Attribute) and a.attr == "statements":
                    blk = a.value
            elif isinstance(n, ast.YieldFrom) and isinstance(n.value, ast.Attribute) and n.value.attr == "statements":
                blk = n.value.value
            elif isinstance(n, ast.For) and isinstance(n.target, ast.Name):
                it = n.iter
                src = it.value if isinstance(it, ast.Attribute) and it.attr == "statements" else None
                if src is not None:
                    v = n.target.id
                    passes_on = any(
                        (isinstance(m, ast.Yield) and isinstance(m.value, ast.Name) and m.value.id == v)
                        or (isinstance(m, ast.Call) and isinstance(m.func, ast.Attribute) and m.func.attr == "append" and m.args and isinstance(m.args[0], ast.Name) and m.args[0].id == v)
                        for st in n.body for m in ast.walk(st)
                    )
                    if passes_on:
                        blk = src
            if blk is None:
                continue
            bt = {t for t in T.types_of(blk) if t in ix.classes}
            if bt and not any(BLOCK in ix.mro(t) for t in bt):
                continue
            if not isinstance(blk, ast.Name):
                continue
            # the circuit's own body is always a plain block
            sites.append((n, blk))
        for n, blk in sites:
            cons = construct_of(f, f"dissolve-{blk.id}")
            loc = f"{f.path}:{n.lineno}"
            tests = fl.control_tests(n)
            dep_sub = False
            needs_parallel = False
            for t in tests:
                for m in ast.walk(t):
                    if isinstance(m, ast.Attribute) and isinstance(m.value, ast.Name) and m.value.id == blk.id:
                        if m.attr == "subcircuit":
                            dep_sub = True
            # positive requirement that the dissolved block is parallel (parallel blocks are never subcircuits:
            # the builder creates subcircuit blocks only as sequential blocks)
            st = fl.enclosing_stmt(n)
            for s in iter_stmts(f.body):
                if isinstance(s, ast.Assert) and any(isinstance(m, ast.Attribute) and m.attr == "parallel" and isinstance(m.value, ast.Name) and m.value.id == blk.id for m in ast.walk(s.test)):
                    needs_parallel = True
            cfgf = CFG(f.body)
            for s in iter_stmts(f.body):
                if isinstance(s, ast.If) and isinstance(s.test, ast.Attribute) and s.test.attr == "parallel" and isinstance(s.test.value, ast.Name) and s.test.value.id == blk.id:
                    site = cfgf.containing_stmt_node(n, f.body)
                    if site is not None and cfgf.must_pass_edges(site, cfgf.branch_edges(cfgf.node(s), True)):
                        needs_parallel = True
            if dep_sub:
                rep.ok("C19.1", cons, "the guard of the dissolution depends on the block's subcircuit annotation", loc)
            elif needs_parallel:
                rep.exempt("C19.1", cons, "only parallel blocks are dissolved here; subcircuit blocks are always sequential (Builder.build_subcircuit_block)", loc)
            else:
                rep.violation("C19.1", cons, f"the statements of block `{blk.id}` are passed on individually without a guard on its subcircuit annotation: a subcircuit block nested in a sequential block is flattened away", loc)

    # a handler that receives a block either passes it on whole or consults its subcircuit annotation on the path
    for h in helpers + [vis]:
        hb = ix.classes[h].methods.get("visit_BlockStatement")
        if hb is None or not any(isinstance(n, (ast.Yield, ast.YieldFrom)) for n in walk_no_nested(hb.node)):
            continue
        obj = hb.params[1]
        cfgh = CFG(hb.body)
        whole, tests = [], []
        for st in iter_stmts(hb.body):
            if isinstance(st, ast.Expr) and isinstance(st.value, ast.Yield) and isinstance(st.value.value, ast.Name) and st.value.value.id == obj:
                whole.append(cfgh.node(st))
            if isinstance(st, (ast.If, ast.While)) and any(isinstance(m, ast.Attribute) and m.attr == "subcircuit" and isinstance(m.value, ast.Name) and m.value.id == obj for m in ast.walk(st.test)):
                tests.append(cfgh.node(st))
        cons = construct_of(hb, "whole-or-consults-subcircuit")
        removed_edges = [(t, b) for t in tests for b in cfgh.g.successors(t)]
        reach = cfgh.reachable_from(cfgh.entry, removed_edges=removed_edges, removed_nodes=whole)
        if cfgh.exit in reach:
            rep.violation("C19.1", cons, f"there is a path through {ix.classes[h].name}.visit_BlockStatement on which the block is neither yielded whole nor its subcircuit annotation tested: a subcircuit block can be dropped or dissolved on that path", hb.loc())
        else:
            rep.ok("C19.1", cons, "every path yields the block whole or tests its subcircuit annotation", hb.loc())

    # children are normalised before they are scheduled: the input's statements reach the result only through self.visit
    nh = ix.classes[vis].methods.get("visit_BlockStatement")
    if nh is not None:
        obj = nh.params[1]
        fln = FuncFlow(ix, T, nh)
        cons = construct_of(nh, "children-visited-first")
        bad = None
        n_reads = 0
        for n in walk_no_nested(nh.node):
            if isinstance(n, ast.Attribute) and n.attr == "statements" and isinstance(n.value, ast.Name) and n.value.id == obj and isinstance(n.ctx, ast.Load):
                n_reads += 1
                par = fln.parent.get(id(n))
                ok = False
                if isinstance(par, ast.comprehension) and par.iter is n and isinstance(par.target, ast.Name):
                    comp = fln.parent.get(id(par))
                    elt = getattr(comp, "elt", None)
                    ok = isinstance(elt, ast.Call) and any(cs.node is elt and cs.kind == "visit" for cs in T.callsites(nh)) and isinstance(elt.args[0], ast.Name) and elt.args[0].id == par.target.id
                elif isinstance(par, ast.For) and par.iter is n and isinstance(par.target, ast.Name):
                    v = par.target.id
                    uses = [m for s in par.body for m in ast.walk(s) if isinstance(m, ast.Name) and m.id == v and isinstance(m.ctx, ast.Load)]
                    ok = bool(uses) and all(isinstance(fln.parent.get(id(m)), ast.Call) and any(cs.node is fln.parent.get(id(m)) and cs.kind == "visit" for cs in T.callsites(nh)) for m in uses)
                elif isinstance(par, ast.Call) and any(cs.node is par and cs.kind == "visit" for cs in T.callsites(nh)):
                    ok = True
                elif isinstance(par, ast.Call) and isinstance(par.func, ast.Name) and par.func.id == "len":
                    ok = True
                if not ok:
                    bad = n
        if bad is not None:
            rep.violation("C19.1", cons, f"`{ast.unparse(fln.parent.get(id(bad)))}` uses the input block's statements without passing them through self.visit: nested blocks are scheduled un-normalised (wrong time steps, nested blocks left in the result)", f"{nh.path}:{bad.lineno}")
        elif n_reads:
            rep.ok("C19.1", cons, "the input's statements are only used as arguments of self.visit", nh.loc())

    # ------------------------------------------------------------ C19.2
    rep.rule("C19.2", "every element taken from an iterated input reaches an append/extend/yield on every non-raising path", floor=3)
    for f in funcs:
        if f.name in ("__init__",) or not any(isinstance(st, (ast.For,)) for st in iter_stmts(f.body)):
            continue
        is_gen_or_acc = any(isinstance(n, (ast.Yield, ast.YieldFrom)) for n in walk_no_nested(f.node))
        if not is_gen_or_acc:
            continue
        fl = FuncFlow(ix, T, f)
        cfg = CFG(f.body)
        for st in iter_stmts(f.body):
            if not isinstance(st, ast.For):
                continue
            vars_ = names_in(st.target)
            cons = construct_of(f, f"for-{'-'.join(sorted(vars_))}")
            loc = f"{f.path}:{st.lineno}"
            # statements of the loop body that use a loop variable (not merely test it)
            using = []
            for s in iter_stmts(st.body):
                hdr = None
                if isinstance(s, (ast.If, ast.While)):
                    continue  # a test alone does not consume the element
                if isinstance(s, ast.For):
                    exprs = [s.iter]
                elif isinstance(s, (ast.With, ast.Try)):
                    continue
                else:
                    exprs = [s]
                if any(names_in(e) & vars_ for e in exprs):
                    if isinstance(s, ast.Assert):
                        continue
                    using.append(s)
            relevant_using = []
            for s in using:
                ok = isinstance(s, (ast.Raise,))
                for n in walk_no_nested(s if not isinstance(s, ast.For) else s.iter):
                    if fl.is_relevant(n):
                        ok = True
                if isinstance(s, ast.Expr) and isinstance(s.value, (ast.Yield, ast.YieldFrom)):
                    ok = True
                if ok:
                    relevant_using.append(s)
            hdr = cfg.node(st)
            body_entry = cfg.succ(hdr, "iter")
            if not body_entry:
                rep.undecided("C19.2", cons, "empty loop body", loc)
                continue
            removed = {cfg.node(s) for s in relevant_using if cfg.node(s) is not None}
            # recognised filter idiom: `if x is None: continue` / `if x is not None:` -- None padding only
            none_filter_edges = []
            for s in iter_stmts(st.body):
                if isinstance(s, ast.If):
                    t = s.test
                    if isinstance(t, ast.Compare) and len(t.ops) == 1 and isinstance(t.ops[0], (ast.Is, ast.IsNot)) and isinstance(t.comparators[0], ast.Constant) and t.comparators[0].value is None and names_in(t.left) & vars_:
                        lbl = isinstance(t.ops[0], ast.Is)  # branch taken when the element is None
                        none_filter_edges += cfg.branch_edges(cfg.node(s), lbl)
            dropped = False
            for b in body_entry:
                if b in removed:
                    continue
                reach = cfg.reachable_from(b, removed_edges=none_filter_edges, removed_nodes=removed)
                if hdr in reach or cfg.exit in reach:
                    dropped = True
            if dropped:
                rep.violation("C19.2", cons, f"there is a path through the loop body on which the element ({', '.join(sorted(vars_))}) is neither appended, extended, yielded nor rejected: a gate can be lost", loc)
            else:
                rep.ok("C19.2", cons, "every path consumes the element or raises", loc)

    # ------------------------------------------------------------ C19.3
    rep.rule("C19.3", "a loop reached while chunking a parallel block raises JaqalError", floor=1)
    chunkers = []
    for f in funcs:
        uses_zip = any(
            isinstance(n, ast.Call) and isinstance(n.func, (ast.Name, ast.Attribute)) and (getattr(n.func, "id", None) or getattr(n.func, "attr", "")) in ("zip_longest", "zip")
            for n in walk_no_nested(f.node)
        )
        if uses_zip and any(isinstance(n, (ast.Yield, ast.YieldFrom)) for n in walk_no_nested(f.node)):
            chunkers.append(f)
    if not chunkers:
        rep.undecided("C19.3", cls_construct(ix, vis, "loop-guard"), "no zip-based chunking generator found")
    for f in chunkers:
        cons = construct_of(f, "loop-guard")
        cfg = CFG(f.body)
        guard = None
        for st in iter_stmts(f.body):
            if isinstance(st, ast.If):
                t = st.test
                is_loop_test = any(
                    isinstance(n, ast.Call) and isinstance(n.func, ast.Name) and n.func.id == "isinstance" and len(n.args) == 2
                    and (ix.resolve_expr(f.module, n.args[1], f) or (None, None))[1] == LOOP
                    for n in ast.walk(t)
                )
                if is_loop_test and cfg.branch_never_returns(cfg.node(st), True):
                    raises_jaqal = any(
                        isinstance(s, ast.Raise) and s.exc is not None and "JaqalError" in ast.unparse(s.exc)
                        for s in iter_stmts(st.body)
                    )
                    if raises_jaqal:
                        guard = st
        if guard is not None:
            rep.ok("C19.3", cons, "isinstance(stmt, LoopStatement) guards a raise JaqalError inside the chunking loop", f"{f.path}:{guard.lineno}")
        else:
            rep.violation("C19.3", cons, "no LoopStatement test raising JaqalError in the chunking generator: a loop inside a parallel block is scheduled as a single step", f.loc())

    # ------------------------------------------------------------ C19.5
    rep.rule("C19.5", "whether the unroller keeps a block whole depends on the block's kind alone: a subcircuit or parallel block is never dissolved because of its contents", floor=1)
    n5 = 0
    for h in helpers:
        bh = ix.classes[h].methods.get("visit_BlockStatement")
        if bh is None or not any(isinstance(n, (ast.Yield, ast.YieldFrom)) for n in walk_no_nested(bh.node)):
            continue
        n5 += 1
        obj = bh.params[1]
        fl = FuncFlow(ix, T, bh)
        whole = [n for n in walk_no_nested(bh.node) if isinstance(n, ast.Yield) and isinstance(n.value, ast.Name) and n.value.id == obj]
        parts = [n for n in walk_no_nested(bh.node) if isinstance(n, (ast.Yield, ast.YieldFrom)) and n not in whole]
        cons = construct_of(bh, "keep-whole-by-kind")
        if not whole or not parts:
            rep.undecided("C19.5", cons, "expected one path yielding the block whole and one yielding its statements", bh.loc())
            continue

        def is_kind(a):
            if isinstance(a, ast.UnaryOp) and isinstance(a.op, ast.Not):
                a = a.operand
            return isinstance(a, ast.Attribute) and isinstance(a.value, ast.Name) and a.value.id == obj and a.attr in ("parallel", "subcircuit")

        bad = None
        for y in whole:
            for t in fl.control_tests(y):
                for m in ast.walk(t):
                    if isinstance(m, ast.BoolOp) and isinstance(m.op, ast.And):
                        other = [v for v in m.values if not is_kind(v) and not (isinstance(v, ast.BoolOp) and all(is_kind(x) for x in v.values))]
                        kinds = [v for v in m.values if v not in other]
                        if other and kinds:
                            bad = (t, other[0])
        reads = set()
        for p_ in parts:
            for t in fl.control_tests(p_):
                for m in ast.walk(t):
                    if isinstance(m, ast.Attribute) and isinstance(m.value, ast.Name) and m.value.id == obj:
                        reads.add(m.attr)
        if bad is None:
            # the two kind flags themselves must be alternatives: `parallel and subcircuit` keeps almost nothing whole
            for y in whole:
                for t in fl.control_tests(y):
                    for m in ast.walk(t):
                        if isinstance(m, ast.BoolOp) and isinstance(m.op, ast.And) and sum(1 for v in m.values if is_kind(v)) >= 2:
                            bad = (t, m)
        if bad is not None and isinstance(bad[1], ast.BoolOp):
            rep.violation("C19.5", cons, f"`{ast.unparse(bad[1])}`: a block is kept whole only if it is parallel AND a subcircuit; every ordinary parallel block and every subcircuit block is dissolved into its statements", f"{bh.path}:{bad[0].lineno}")
        elif bad is not None:
            rep.violation("C19.5", cons, f"the block is kept whole only if `{ast.unparse(bad[1])}` also holds (`{ast.unparse(bad[0])}`): a subcircuit or parallel block for which it fails is dissolved into its statements and its flag and repetition count are lost", f"{bh.path}:{bad[0].lineno}")
        elif not {"parallel", "subcircuit"} <= reads:
            rep.violation("C19.5", cons, f"the path that dissolves a block into its statements is not guarded by both kind flags (reads {sorted(reads)}): a {'subcircuit' if 'subcircuit' not in reads else 'parallel'} block is flattened", bh.loc())
        else:
            rep.ok("C19.5", cons, "kept whole iff parallel or subcircuit", bh.loc())
    if n5 == 0:
        rep.undecided("C19.5", cls_construct(ix, vis, "unroller"), "no generator-style block handler among the helper visitors")

    # ------------------------------------------------------------ C19.6
    rep.rule("C19.6", "the normaliser handles every node that contains statements: loop bodies are normalised (and checked for loops inside parallel blocks) like any other block", floor=2)
    from .common import position_visited
    for k, member in ((BLOCK, "statements"), (LOOP, "statements"), ("jaqalpaq.core.circuit.Circuit", "body")):
        kname = ix.classes[k].name
        cons = f"{cls_construct(ix, vis)}:{kname}.{member}:visited"
        h = tr.has_handler(vis, k)
        if h is None:
            rep.violation("C19.6", cons, f"BlockNormalizer has no handler for {kname}: it falls to visit_default and is returned untouched, so `loop 2 {{ <a|{{b;c}}> }}` is not normalised and `loop 2 {{ <{{loop 3 {{a}}}} | b> }}` is not rejected", ix.classes[vis].loc(), witness="loop 2 { < foo q[0] | { bar q[1]; baz q[2] } > }")
        elif position_visited(ctx, tr, k, member):
            rep.ok("C19.6", cons, f"handled by {h.name}, which visits its {member}", h.loc())
        else:
            rep.violation("C19.6", cons, f"{h.name} does not visit {kname}.{member}", h.loc())
