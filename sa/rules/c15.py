"""C15 -- result views are normalised and mutually consistent (little-endian) (decided clauses)."""

from __future__ import annotations

import ast
from typing import Optional

from ..index import AnalysisError
from ..cfg import walk_no_nested, iter_stmts
from ..fieldflow import FuncFlow, names_in
from .common import construct_of, cls_construct

RESULT = "jaqalpaq.core.result"
LAYER = ["jaqalpaq.core.result", "jaqalpaq.emulator.unitary", "jaqalpaq.emulator.backend"]


class Conv:
    def __init__(self, node, kind, reversed_, width, func):
        self.node, self.kind, self.reversed, self.width, self.func = node, kind, reversed_, width, func


def _is_rev_slice(e):
    return isinstance(e, ast.Subscript) and isinstance(e.slice, ast.Slice) and e.slice.lower is None and e.slice.upper is None and isinstance(e.slice.step, ast.UnaryOp) and isinstance(e.slice.step.op, ast.USub) and isinstance(e.slice.step.operand, ast.Constant) and e.slice.step.operand.value == 1


def _binary_of(e) -> Optional[ast.AST]:
    """If e formats an int in base 2 (no width), return the formatted expression."""
    if isinstance(e, ast.JoinedStr) and len(e.values) == 1 and isinstance(e.values[0], ast.FormattedValue):
        fv = e.values[0]
        if fv.format_spec is not None and len(fv.format_spec.values) == 1 and isinstance(fv.format_spec.values[0], ast.Constant) and fv.format_spec.values[0].value == "b":
            return fv.value
    if isinstance(e, ast.Call) and isinstance(e.func, ast.Name) and e.func.id == "format" and len(e.args) == 2 and isinstance(e.args[1], ast.Constant) and e.args[1].value == "b":
        return e.args[0]
    if isinstance(e, ast.Subscript) and isinstance(e.slice, ast.Slice) and isinstance(e.slice.lower, ast.Constant) and e.slice.lower.value == 2 and isinstance(e.value, ast.Call) and isinstance(e.value.func, ast.Name) and e.value.func.id == "bin":
        return e.value.args[0]
    return None


def int_to_str(e):
    """Recognise  <binary>.zfill(w)[::-1]  and variants.  -> (value expr, reversed?, width expr) or None"""
    rev = False
    x = e
    if _is_rev_slice(x):
        rev = True
        x = x.value
    elif isinstance(x, ast.Call) and isinstance(x.func, ast.Attribute) and x.func.attr == "join" and x.args and isinstance(x.args[0], ast.Call) and isinstance(x.args[0].func, ast.Name) and x.args[0].func.id == "reversed":
        rev = True
        x = x.args[0].args[0]
    width = None
    if isinstance(x, ast.Call) and isinstance(x.func, ast.Attribute) and x.func.attr in ("zfill", "rjust") and x.args:
        width = x.args[0]
        x = x.func.value
        # reversal may also be applied before padding: f"{n:b}"[::-1].ljust(w, "0")
    elif isinstance(x, ast.Call) and isinstance(x.func, ast.Attribute) and x.func.attr == "ljust" and x.args:
        width = x.args[0]
        inner = x.func.value
        if _is_rev_slice(inner) and not rev:
            rev = True
            x = inner.value
        else:
            return None
    b = _binary_of(x)
    if b is None:
        # f"{n:0{w}b}" style
        if isinstance(x, ast.JoinedStr) and len(x.values) == 1 and isinstance(x.values[0], ast.FormattedValue) and x.values[0].format_spec is not None:
            spec = x.values[0].format_spec
            parts = spec.values
            if parts and isinstance(parts[-1], ast.Constant) and str(parts[-1].value).endswith("b"):
                w = [p for p in parts if isinstance(p, ast.FormattedValue)]
                return x.values[0].value, rev, (w[0].value if w else None)
        return None
    return b, rev, width


def str_to_int(e):
    """int(s[::-1], 2) / int(s, 2) -> (string expr, reversed?) or None"""
    if isinstance(e, ast.Call) and isinstance(e.func, ast.Name) and e.func.id == "int" and len(e.args) == 2 and isinstance(e.args[1], ast.Constant) and e.args[1].value == 2:
        a = e.args[0]
        if _is_rev_slice(a):
            return a.value, True
        if isinstance(a, ast.Call) and isinstance(a.func, ast.Attribute) and a.func.attr == "join" and a.args and isinstance(a.args[0], ast.Call) and isinstance(a.args[0].func, ast.Name) and a.args[0].func.id == "reversed":
            return a.args[0].args[0], True
        return a, False
    return None


def run(ctx, rep):
    ix, T = ctx.ix, ctx.typer
    funcs = [f for f in ix.functions.values() if f.module in LAYER and not isinstance(f.node, ast.Lambda)]
    if not funcs:
        raise AnalysisError("C15: result layer vanished")

    # ------------------------------------------------------------ C15.1
    rep.rule("C15.1", "all int<->bitstring conversions of the result layer reverse (qubit 0 = LSB = leftmost character) and pad to the number of measured qubits", floor=4)
    i2s, s2i, unrec = [], [], []
    for f in funcs:
        for n in walk_no_nested(f.node):
            r = int_to_str(n)
            if r is not None:
                # only outermost match
                i2s.append((f, n, r))
            r2 = str_to_int(n)
            if r2 is not None:
                s2i.append((f, n, r2))
    # drop nested matches (inner part of a bigger recognised expression)
    def outermost(items):
        ids = {}
        for f, n, r in items:
            ids[id(n)] = (f, n, r)
        out = []
        for f, n, r in items:
            inner = False
            for f2, n2, r2 in items:
                if n2 is not n and any(x is n for x in ast.walk(n2)):
                    inner = True
            if not inner:
                out.append((f, n, r))
        return out

    i2s = outermost(i2s)
    # binary formatting that matched no full idiom
    for f in funcs:
        for n in walk_no_nested(f.node):
            if _binary_of(n) is not None and not any(any(x is n for x in ast.walk(m)) for _, m, _ in i2s):
                unrec.append((f, n))
    for f, n in unrec:
        rep.undecided("C15.1", construct_of(f, "binary-format"), f"`{ast.unparse(n)}` formats an integer in base 2 with an unrecognised padding/reversal idiom", f"{f.path}:{n.lineno}")
    if len(i2s) + len(s2i) == 0:
        raise AnalysisError("C15.1: no int<->bitstring conversion recognised in the result layer")
    for f, n, (val, rev, width) in i2s:
        cons = construct_of(f, "int-to-bitstring")
        loc = f"{f.path}:{n.lineno}"
        fl = FuncFlow(ix, T, f)
        w_ok = False
        if width is not None:
            ids, roots = fl.depends(width)
            w_ok = any(isinstance(m, ast.Call) and isinstance(m.func, ast.Name) and m.func.id == "len" and any(isinstance(q, ast.Attribute) and "qubits" in q.attr for q in ast.walk(m)) for r in roots for m in ast.walk(r))
        if not rev:
            rep.violation("C15.1", cons, f"`{ast.unparse(n)}` is not reversed: the string's leftmost character is the MOST significant bit, but qubit 0 must be the leftmost character and the least-significant bit", loc)
        elif width is None:
            rep.violation("C15.1", cons, f"`{ast.unparse(n)}` is not padded: outcomes have fewer than n characters", loc)
        elif not w_ok:
            rep.violation("C15.1", cons, f"`{ast.unparse(n)}` is padded to `{ast.unparse(width)}`, which is not the number of measured/used qubits", loc)
        else:
            rep.ok("C15.1", cons, f"`{ast.unparse(n)}`: binary, padded to len(qubits), reversed", loc)
    for f, n, (s, rev) in s2i:
        cons = construct_of(f, "bitstring-to-int")
        loc = f"{f.path}:{n.lineno}"
        if rev:
            rep.ok("C15.1", cons, f"`{ast.unparse(n)}`: reversed before int(.., 2)", loc)
        else:
            rep.violation("C15.1", cons, f"`{ast.unparse(n)}` reads the string MSB-first, while every string view is written LSB-first: hardware outputs given as strings and as integers are interpreted differently", loc)

    # ------------------------------------------------------------ C15.2 / C15.4
    rep.rule("C15.2", "every *_by_str view enumerates the corresponding *_by_int data in integer order", floor=2)
    rep.rule("C15.4", "deprecated aliases return the view of the same kind", floor=4)
    for c in ix.classes.values():
        if c.module != RESULT:
            continue
        for pname in sorted(c.props):
            fi = c.methods[pname]
            rets = [s for s in iter_stmts(fi.body) if isinstance(s, ast.Return) and s.value is not None]
            if pname.endswith("_by_str") and not pname.startswith("probability_by"):
                cons = construct_of(fi, "enumerates-by-int")
                twin = c.methods.get(pname[:-3] + "int") or ix.find_method(c.qualname, pname[:-3] + "int")
                fl = FuncFlow(ix, T, fi)
                ok = False
                why = "no enumerate() over the integer-indexed data"
                for r in rets:
                    ids, roots = fl.depends(r.value)
                    enums = [m for rt in roots for m in ast.walk(rt) if isinstance(m, ast.Call) and isinstance(m.func, ast.Name) and m.func.id == "enumerate"]
                    for e in enums:
                        if len(e.args) != 1 or e.keywords:
                            why = "enumerate() with a start offset"
                            continue
                        eids, eroots = fl.depends(e.args[0])
                        src_fields = {m.attr for rt in eroots for m in ast.walk(rt) if isinstance(m, ast.Attribute) and isinstance(m.value, ast.Name) and m.value.id == fi.params[0]}
                        twin_fields = set()
                        if twin is not None:
                            twin_fields = {m.attr for m in walk_no_nested(twin.node) if isinstance(m, ast.Attribute) and isinstance(m.value, ast.Name) and m.value.id == twin.params[0]}
                        if any(isinstance(m, ast.Call) and isinstance(m.func, ast.Name) and m.func.id in ("sorted", "reversed") for rt in eroots for m in ast.walk(rt)):
                            why = "the enumerated data are re-ordered"
                        elif src_fields & twin_fields or (twin is not None and twin.name in src_fields):
                            ok = True
                        else:
                            why = f"enumerates {sorted(src_fields)} but the integer view returns {sorted(twin_fields)}"
                if ok:
                    rep.ok("C15.2", cons, f"enumerate() over the same data as {twin.name}", fi.loc())
                else:
                    rep.violation("C15.2", cons, f"{pname}: {why}: the string-keyed and integer-indexed views can describe different distributions", fi.loc())
            if pname in ("probability_by_int", "probability_by_str"):
                cons = construct_of(fi, "alias-kind")
                suffix = pname[-6:]
                ok = rets and all(isinstance(r.value, ast.Attribute) and r.value.attr.endswith(suffix) for r in rets)
                if ok:
                    rep.ok("C15.4", cons, f"returns self.{rets[0].value.attr}", fi.loc())
                else:
                    rep.violation("C15.4", cons, f"the deprecated alias {pname} does not return a view of the same kind ({suffix})", fi.loc())

    # ------------------------------------------------------------ C15.3
    rep.rule("C15.3", "accept_readout records the readout once and increments exactly its own bin by one", floor=1)
    for c in ix.classes.values():
        ar = c.methods.get("accept_readout")
        if ar is None or c.module != RESULT:
            continue
        ro = ar.params[1]
        cons = construct_of(ar, "counting")
        appends = [n for n in walk_no_nested(ar.node) if isinstance(n, ast.Call) and isinstance(n.func, ast.Attribute) and n.func.attr == "append" and n.args and isinstance(n.args[0], ast.Name) and n.args[0].id == ro]
        incs = [n for n in walk_no_nested(ar.node) if isinstance(n, ast.AugAssign) and isinstance(n.op, ast.Add) and isinstance(n.target, ast.Subscript)]
        in_loop = any(isinstance(st, (ast.For, ast.While)) for st in iter_stmts(ar.body))
        ok = len(appends) == 1 and len(incs) == 1 and not in_loop
        if ok:
            inc = incs[0]
            idx_ok = isinstance(inc.target.slice, ast.Attribute) and inc.target.slice.attr == "as_int" and isinstance(inc.target.slice.value, ast.Name) and inc.target.slice.value.id == ro
            one = isinstance(inc.value, ast.Constant) and inc.value.value == 1
            if idx_ok and one:
                rep.ok("C15.3", cons, f"`{ast.unparse(inc)}` and one append", ar.loc())
            else:
                rep.violation("C15.3", cons, f"`{ast.unparse(inc)}` does not add exactly 1 to the bin of the readout's own integer value", f"{ar.path}:{inc.lineno}")
        else:
            rep.violation("C15.3", cons, "a readout is not recorded exactly once with exactly one bin increment", ar.loc())


    # ------------------------------------------------------------ C15.5
    rep.rule("C15.5", "the normalising divisor is the sum of the very values it divides", floor=1)
    for c in ix.classes.values():
        if c.module != RESULT:
            continue
        init = c.methods.get("__init__")
        if init is None:
            continue
        stmts = list(iter_stmts(init.body))
        for i, st in enumerate(stmts):
            div = None
            if isinstance(st, ast.AugAssign) and isinstance(st.op, ast.Div) and isinstance(st.target, ast.Name) and isinstance(st.value, ast.Name):
                div = (st.target.id, st.value.id)
            elif isinstance(st, ast.Assign) and isinstance(st.value, ast.BinOp) and isinstance(st.value.op, ast.Div) and isinstance(st.value.left, ast.Name) and isinstance(st.value.right, ast.Name) and isinstance(st.targets[0], ast.Name) and st.targets[0].id == st.value.left.id:
                div = (st.value.left.id, st.value.right.id)
            if div is None:
                continue
            arr, tot = div
            cons = construct_of(init, f"normalise:{arr}/{tot}")
            # last definition of the divisor before the division
            d_idx = None
            for j in range(i - 1, -1, -1):
                s2 = stmts[j]
                if isinstance(s2, ast.Assign) and any(isinstance(t, ast.Name) and t.id == tot for t in s2.targets):
                    d_idx = j
                    break
            if d_idx is None:
                rep.undecided("C15.5", cons, "definition of the divisor not found", f"{init.path}:{st.lineno}")
                continue
            dv = stmts[d_idx].value
            sums_arr = isinstance(dv, ast.Call) and ((isinstance(dv.func, ast.Attribute) and dv.func.attr == "sum" and isinstance(dv.func.value, ast.Name) and dv.func.value.id == arr) or (isinstance(dv.func, (ast.Name, ast.Attribute)) and (getattr(dv.func, "id", None) or dv.func.attr) == "sum" and dv.args and isinstance(dv.args[0], ast.Name) and dv.args[0].id == arr))
            reassigned = [s2 for s2 in stmts[d_idx + 1:i] if isinstance(s2, ast.Assign) and any(isinstance(t, ast.Name) and t.id == arr for t in s2.targets)]
            if not sums_arr:
                rep.violation("C15.5", cons, f"`{arr}` is divided by `{tot}`, which is not the sum of `{arr}`: the probabilities do not sum to one", f"{init.path}:{st.lineno}")
            elif reassigned:
                rep.violation("C15.5", cons, f"`{tot} = {ast.unparse(dv)}` is computed before `{ast.unparse(reassigned[0])}`: the values are divided by the sum of the un-clipped input, so the clipped probabilities do not sum to one", f"{init.path}:{reassigned[0].lineno}")
            else:
                rep.ok("C15.5", cons, f"`{tot} = {ast.unparse(dv)}` is the sum of the array as it is when divided", f"{init.path}:{st.lineno}")

    # ------------------------------------------------------------ C15.6
    rep.rule("C15.6", "the measured-qubit list (the width n of every view) is built from the fundamental registers only", floor=1)
    for c in ix.classes.values():
        for aname, lst in c.self_attrs.items():
            if aname != "qubits" or not c.module.endswith("walkers"):
                continue
            for fi, v in lst:
                if v is None:
                    continue
                cons = construct_of(fi, "measured-qubits-source")
                fl = FuncFlow(ix, T, fi)
                ids, roots = fl.depends(v)
                fund = any(isinstance(m, ast.Call) and isinstance(m.func, ast.Attribute) and m.func.attr == "fundamental_registers" for r in roots for m in ast.walk(r)) or any(isinstance(m, ast.Attribute) and m.attr == "fundamental" for r in roots for m in ast.walk(r))
                allregs = any(isinstance(m, ast.Attribute) and m.attr == "registers" for r in roots for m in ast.walk(r))
                if fund:
                    rep.ok("C15.6", cons, "qubits come from circuit.fundamental_registers()", f"{fi.path}:{v.lineno}")
                elif allregs:
                    rep.violation("C15.6", cons, f"`{ast.unparse(v)}` counts every entry of circuit.registers, including map aliases: a program with a `map` statement gets more than n measured qubits (strings longer than n characters, more than 2^n outcomes)", f"{fi.path}:{v.lineno}")
                else:
                    rep.undecided("C15.6", cons, "source of the measured-qubit list not recognised", f"{fi.path}:{v.lineno}")

    # ------------------------------------------------------------ C15.3 (owner-only writes)
    owner = None
    for c in ix.classes.values():
        if c.module == RESULT and "accept_readout" in c.methods:
            owner = c
    if owner is not None:
        guarded_attrs = {"readouts", "_readouts", "_relative_frequencies", "relative_frequency_by_int"}
        fam = set(ix.mro(owner.qualname)) | set(ix.subclasses(owner.qualname))
        for f in ix.functions.values():
            if f.cls in fam or isinstance(f.node, ast.Lambda):
                continue
            for n in walk_no_nested(f.node):
                hit = None
                if isinstance(n, ast.Call) and isinstance(n.func, ast.Attribute) and n.func.attr in ("clear", "append", "pop", "remove", "extend", "insert", "fill") and isinstance(n.func.value, ast.Attribute) and n.func.value.attr in guarded_attrs and not (isinstance(n.func.value.value, ast.Name) and f.params and n.func.value.value.id == f.params[0] and f.cls):
                    hit = n
                if isinstance(n, (ast.Assign, ast.AugAssign)):
                    tg = n.targets[0] if isinstance(n, ast.Assign) else n.target
                    base = tg.value if isinstance(tg, ast.Subscript) else tg
                    if isinstance(base, ast.Attribute) and base.attr in guarded_attrs and not (isinstance(base.value, ast.Name) and f.params and base.value.id == f.params[0] and f.cls):
                        hit = n
                if hit is not None:
                    rep.violation("C15.3", construct_of(f, "writes-readout-state"), f"`{ast.unparse(hit)[:70]}` changes the readout list or the frequency counters of a subcircuit outside accept_readout(): the two are no longer updated together, so relative frequencies stop being the counts of the recorded readouts", f"{f.path}:{hit.lineno}")

    # ------------------------------------------------------------ C15.7
    rep.rule("C15.7", "every view takes its width n from the one accessor `measured_qubits` (which result classes for other back ends override), never from the trace directly", floor=3)
    n7 = 0
    for f in ix.functions.values():
        if f.module != "jaqalpaq.core.result" or isinstance(f.node, ast.Lambda):
            continue
        fl7 = None
        for nd in walk_no_nested(f.node):
            if isinstance(nd, ast.Call) and isinstance(nd.func, ast.Attribute) and nd.func.attr in ("zfill", "rjust", "ljust") and nd.args:
                if fl7 is None:
                    fl7 = FuncFlow(ix, T, f)
                n7 += 1
                ids, roots = fl7.depends(nd.args[0])
                exprs = [nd.args[0]] + list(roots)
                via_accessor = any(isinstance(m, ast.Attribute) and m.attr == "measured_qubits" for e in exprs for m in ast.walk(e))
                via_trace = any(isinstance(m, ast.Attribute) and m.attr in ("used_qubits",) for e in exprs for m in ast.walk(e))
                cons = construct_of(f, "width-source")
                loc = f"{f.path}:{nd.lineno}"
                if via_trace and not via_accessor and f.name != "measured_qubits":
                    rep.violation("C15.7", cons, f"`{ast.unparse(nd)}` pads to the trace's qubit list instead of `measured_qubits`: a result class that supplies its own measured qubits (no trace) cannot produce its string view, and the views can disagree on n", loc)
                elif via_accessor:
                    rep.ok("C15.7", cons, "width is len(measured_qubits)", loc)
                else:
                    rep.undecided("C15.7", cons, f"width `{ast.unparse(nd.args[0])}` not traced to measured_qubits", loc)
    if n7 == 0:
        raise AnalysisError("C15.7: no padded bit-string conversion found in core/result.py")

    # ------------------------------------------------------------ C15.8
    rep.rule("C15.8", "a readout-collecting subcircuit starts from all-zero counts unless counts are handed in: the zero array is created exactly when none is given", floor=1)
    n8 = 0
    for f in ix.functions.values():
        if f.module != "jaqalpaq.core.result" or f.name != "__init__" or isinstance(f.node, ast.Lambda):
            continue
        for st in iter_stmts(f.body):
            if not isinstance(st, ast.If):
                continue
            zeros_body = any(isinstance(m, ast.Call) and isinstance(m.func, ast.Attribute) and m.func.attr == "zeros" for b in st.body for m in ast.walk(b))
            zeros_else = any(isinstance(m, ast.Call) and isinstance(m.func, ast.Attribute) and m.func.attr == "zeros" for b in st.orelse for m in ast.walk(b))
            if not (zeros_body or zeros_else):
                continue
            n8 += 1
            cons = construct_of(f, "zero-counts-when-none-given")
            t = st.test
            flip = False
            while isinstance(t, ast.UnaryOp) and isinstance(t.op, ast.Not):
                t = t.operand
                flip = not flip
            is_none = isinstance(t, ast.Compare) and len(t.ops) == 1 and isinstance(t.comparators[0], ast.Constant) and t.comparators[0].value is None
            pos = is_none and (isinstance(t.ops[0], ast.Is) != flip) and isinstance(t.ops[0], (ast.Is, ast.IsNot))
            neg = is_none and (isinstance(t.ops[0], ast.IsNot) != flip) and isinstance(t.ops[0], (ast.Is, ast.IsNot))
            if (pos and zeros_body) or (neg and zeros_else):
                rep.ok("C15.8", cons, f"`{ast.unparse(t)}` selects the zero array", f"{f.path}:{st.lineno}")
            elif is_none:
                rep.violation("C15.8", cons, f"`{ast.unparse(t)}`: the zero array replaces counts that WERE handed in, and None is kept when none were: relative frequencies are not the counts of the recorded readouts (or accept_readout fails on None)", f"{f.path}:{st.lineno}")
            else:
                rep.undecided("C15.8", cons, "test not recognised", f"{f.path}:{st.lineno}")
    if n8 == 0:
        raise AnalysisError("C15.8: no zero-initialised count array found in core/result.py")

    # ------------------------------------------------------------ C15.9
    rep.rule("C15.9", "hardware outputs: a value is parsed as a bit string exactly when it IS a string (numpy integers and Python ints alike go the integer way)", floor=1)
    n9 = 0
    for f in ix.functions.values():
        if f.module != "jaqalpaq.core.result" or isinstance(f.node, ast.Lambda):
            continue
        fl9 = None
        for nd in walk_no_nested(f.node):
            if isinstance(nd, ast.Call) and isinstance(nd.func, ast.Name) and nd.func.id == "int" and len(nd.args) == 2 and isinstance(nd.args[1], ast.Constant) and nd.args[1].value == 2:
                n9 += 1
                if fl9 is None:
                    fl9 = FuncFlow(ix, T, f)
                cons = construct_of(f, "string-branch")
                tests = fl9.control_tests(nd)
                pos = any(isinstance(t, ast.Call) and isinstance(t.func, ast.Name) and t.func.id == "isinstance" and len(t.args) == 2 and "str" in ast.unparse(t.args[1]) for t in tests)
                if pos:
                    rep.ok("C15.9", cons, "`isinstance(x, str)` selects the bit-string parse", f"{f.path}:{nd.lineno}")
                else:
                    rep.violation("C15.9", cons, f"the bit-string parse `{ast.unparse(nd)}` is not selected by a positive isinstance(.., str) test ({'; '.join(ast.unparse(t)[:40] for t in tests) or 'no test'}): an integer outcome of another integer type (numpy.int64 from iterating an array) is sliced like a string and fails", f"{f.path}:{nd.lineno}", witness="parse_jaqal_output_list(circuit, numpy.array([1, 3, 1, 0]))")
    if n9 == 0:
        raise AnalysisError("C15.9: no bit-string parse of hardware outputs found in core/result.py")
