"""Rules added after the third wave of defect hunts.

Each function decides one structural necessary condition; the rule id is
passed in by the property module that owns it.  Anchors that vanish raise
AnalysisError (exit 2), never a silent pass.
"""

from __future__ import annotations

import ast

from ..index import AnalysisError
from ..cfg import CFG, iter_stmts, walk_no_nested
from .common import construct_of, cls_construct


def _func(ix, qual):
    try:
        return ix.func(qual)
    except Exception:
        raise AnalysisError(f"anchor vanished: function {qual}")


def _method(ix, cls, name):
    if cls not in ix.classes:
        raise AnalysisError(f"anchor vanished: class {cls}")
    m = ix.find_method(cls, name)
    if m is None:
        raise AnalysisError(f"anchor vanished: {cls}.{name}")
    return m


def _local_defs(fn_node, name):
    """Value expressions assigned to a local name anywhere in a function."""
    out = []
    for n in ast.walk(fn_node):
        if isinstance(n, ast.Assign):
            for t in n.targets:
                if isinstance(t, ast.Name) and t.id == name:
                    out.append(n.value)
                elif isinstance(t, ast.Tuple) and isinstance(n.value, ast.Tuple) and len(t.elts) == len(n.value.elts):
                    for tt, vv in zip(t.elts, n.value.elts):
                        if isinstance(tt, ast.Name) and tt.id == name:
                            out.append(vv)
        elif isinstance(n, ast.AugAssign) and isinstance(n.target, ast.Name) and n.target.id == name:
            out.append(n)
    return out


def _names(e):
    return {n.id for n in ast.walk(e) if isinstance(n, ast.Name)}


def _enclosing_ifs(fn_node, target):
    """Tests of the If statements (with the branch taken) that enclose a node."""
    out = []

    def visit(stmts, ctrl):
        for st in stmts:
            if any(n is target for n in ast.walk(st)):
                if isinstance(st, ast.If):
                    if any(n is target for b in st.body for n in ast.walk(b)):
                        visit(st.body, ctrl + [(st.test, True)])
                    elif any(n is target for b in st.orelse for n in ast.walk(b)):
                        visit(st.orelse, ctrl + [(st.test, False)])
                    else:
                        out.extend(ctrl)
                    return
                for fld in ("body", "orelse", "finalbody"):
                    sub = getattr(st, fld, None)
                    if sub and any(n is target for b in sub for n in ast.walk(b)):
                        visit(sub, ctrl)
                        return
                for h in getattr(st, "handlers", []) or []:
                    if any(n is target for b in h.body for n in ast.walk(b)):
                        visit(h.body, ctrl)
                        return
                out.extend(ctrl)
                return

    visit(fn_node.body, [])
    return out


# ---------------------------------------------------------------- C18

def keyword_capturable_receiver(ctx, rep, rule):
    """A method taking arbitrary keyword names (user-chosen parameter names)
    must not have a parameter those names can collide with."""
    ix = ctx.ix
    rep.rule(rule, "a gate call that takes the arguments by parameter name has no keyword-capturable parameter of its own (receiver positional-only): any legal identifier, `self` included, can be a parameter name", floor=2)
    AG = "jaqalpaq.core.gatedef.AbstractGate"
    if AG not in ix.classes:
        raise AnalysisError("anchor vanished: AbstractGate")
    n = 0
    for k in [AG] + ix.subclasses(AG):
        for name, m in ix.classes[k].methods.items():
            a = m.node.args
            if a.kwarg is None:
                continue
            n += 1
            cons = construct_of(m, "receiver")
            caps = [x.arg for x in a.args + a.kwonlyargs]
            if caps:
                rep.violation(rule, cons, f"`{m.name}({', '.join(caps)}, ..., **{a.kwarg.arg})`: a gate parameter named {' or '.join(repr(c) for c in caps)} cannot be passed by keyword (TypeError: multiple values), although the positional call is accepted", m.loc(), witness="macro flip self { Px self };  flip(self=q)")
            else:
                rep.ok(rule, cons, "every own parameter is positional-only", m.loc())
    if n < 2:
        raise AnalysisError(f"{rule}: only {n} keyword-taking gate methods found (call and __call__ on the pinned tree)")


def stretch_parameter_name(ctx, rep, rule):
    ix = ctx.ix
    f = _func(ix, "jaqalpaq.core.stretch.stretched_gates")
    rep.rule(rule, "the parameter appended by stretched_gates has a name the parent's parameters do not use (arguments are bound by name)", floor=1)
    sites = []
    for n in walk_no_nested(f.node):
        if isinstance(n, ast.Call) and isinstance(n.func, ast.Attribute) and n.func.attr == "append" and n.args:
            a = n.args[0]
            if isinstance(a, ast.Call) and isinstance(a.func, ast.Name) and a.func.id == "Parameter" and a.args:
                sites.append((n, a))
    if not sites:
        raise AnalysisError(f"{rule}: no `parameters.append(Parameter(...))` in stretched_gates")
    for call, par in sites:
        lst = call.func.value
        cons = construct_of(f, "appended-parameter-name")
        loc = f"{f.path}:{call.lineno}"
        name = par.args[0]
        if isinstance(name, ast.Constant):
            rep.violation(rule, cons, f"the extra parameter is always called {name.value!r}: a parent that already has a parameter of that name gets a variant with two parameters of one name, which no call can satisfy (the argument dict has one slot for both)", loc, witness="R(q, stretch) -> R_stretched(q, stretch, stretch): 'Bad argument count: expected 3, found 2'")
            continue
        ok = False
        if isinstance(name, ast.Name) and isinstance(lst, ast.Name):
            for w in ast.walk(f.node):
                if isinstance(w, ast.While) and name.id in _names(w.test) and lst.id in _names(w.test):
                    if any(isinstance(s, (ast.Assign, ast.AugAssign)) and name.id in {t.id for t in ast.walk(s) if isinstance(t, ast.Name) and isinstance(t.ctx, ast.Store)} for s in ast.walk(w)):
                        ok = True
                if isinstance(w, ast.If) and name.id in _names(w.test) and lst.id in _names(w.test) and any(isinstance(s, ast.Raise) for s in ast.walk(w)):
                    ok = True
        once = None
        if isinstance(name, ast.Name) and isinstance(lst, ast.Name):
            for w in ast.walk(f.node):
                if isinstance(w, ast.If) and name.id in _names(w.test) and lst.id in _names(w.test) and not any(isinstance(s_, ast.Raise) for s_ in ast.walk(w)) and any(isinstance(s_, (ast.Assign, ast.AugAssign)) and name.id in {t.id for t in ast.walk(s_) if isinstance(t, ast.Name) and isinstance(t.ctx, ast.Store)} for s_ in w.body):
                    once = w
        if ok:
            rep.ok(rule, cons, "the name is changed (or the gate refused) while a parent parameter has it", loc)
        elif once is not None:
            rep.violation(rule, cons, f"`if {ast.unparse(once.test)[:60]}` changes the name once, not until it is unused: a parent that has both `stretch` and `stretch_` (or a gate set stretched three times) gets a variant with two parameters of one name, which no call can satisfy", f"{f.path}:{once.lineno}")
        else:
            rep.undecided(rule, cons, "cannot see how the name of the appended parameter is kept distinct", loc)


def stretched_table_keys(ctx, rep, rule):
    """Membership tests and stores of the result table use keys of one form."""
    ix = ctx.ix
    f = _func(ix, "jaqalpaq.core.stretch.stretched_gates")
    rep.rule(rule, "the `already generated` test of stretched_gates asks for the key under which variants are stored (the stretched name)", floor=1)

    def resolve(e, depth=0):
        """Names a key expression is built from, following local assignments."""
        names = set()
        for nm in _names(e):
            names.add(nm)
            if depth < 3:
                for d in _local_defs(f.node, nm):
                    if not isinstance(d, ast.AugAssign):
                        names |= resolve(d, depth + 1)
        return names

    stores, tests = {}, []
    for n in walk_no_nested(f.node):
        if isinstance(n, ast.Subscript) and isinstance(n.ctx, ast.Store) and isinstance(n.value, ast.Name):
            stores.setdefault(n.value.id, []).append(n.slice)
        if isinstance(n, ast.Compare) and len(n.ops) == 1 and isinstance(n.ops[0], (ast.In, ast.NotIn)) and isinstance(n.comparators[0], ast.Name):
            tests.append((n, n.comparators[0].id))
    n_dec = 0
    for cmp_, tbl in tests:
        if tbl not in stores:
            continue
        n_dec += 1
        cons = construct_of(f, f"membership:{tbl}")
        loc = f"{f.path}:{cmp_.lineno}"
        common = None
        for k in stores[tbl]:
            r = resolve(k)
            common = r if common is None else (common & r)
        # the names every stored key depends on and that are not per-gate data
        need = {x for x in (common or set()) if x == "suffix"}
        have = resolve(cmp_.left)
        if need and not (need <= have):
            rep.violation(rule, cons, f"`{ast.unparse(cmp_)}` looks a gate up by its plain name in a table keyed by name + suffix: a gate whose name equals another gate's stretched name is silently skipped, and the outcome depends on the order of the input dict", loc, witness='stretched_gates({"R": R, "R_s": S}, suffix="_s") gives only R_s')
        else:
            rep.ok(rule, cons, "test and stores use the stretched name", loc)
    if n_dec == 0:
        rep.ok(rule, construct_of(f, "membership"), "no membership test against the result table")


def memo_key_hashable(ctx, rep, rule):
    ix = ctx.ix
    GM = "jaqalpaq.core.circuitbuilder.GateMemoizer"
    get = _method(ix, GM, "get")
    mh = _method(ix, GM, "_make_hashable")
    rep.rule(rule, "gate arguments reach the memo table as part of a key only under a guard against unhashable values (an untyped parameter accepts anything)", floor=1)
    p = mh.params[-1]
    passthrough = [st for st in iter_stmts(mh.body) if isinstance(st, ast.Return) and isinstance(st.value, ast.Name) and st.value.id == p]
    cons = construct_of(get, "table-lookup")
    lookups = [n for n in walk_no_nested(get.node) if (isinstance(n, ast.Call) and isinstance(n.func, ast.Attribute) and n.func.attr in ("get", "__contains__", "setdefault") and isinstance(n.func.value, ast.Attribute) and n.func.value.attr == "_table") or (isinstance(n, ast.Subscript) and isinstance(n.value, ast.Attribute) and n.value.attr == "_table") or (isinstance(n, ast.Compare) and any(isinstance(c, ast.Attribute) and c.attr == "_table" for c in n.comparators))]
    if not lookups:
        raise AnalysisError(f"{rule}: GateMemoizer.get does not consult _table")
    if not passthrough:
        rep.ok(rule, cons, "_make_hashable converts every value", get.loc())
        return
    for lk in lookups:
        guarded = False
        for t in ast.walk(get.node):
            if isinstance(t, ast.Try) and any(n is lk for b in t.body for n in ast.walk(b)):
                for h in t.handlers:
                    if h.type is None or {"TypeError", "Exception"} & {x.id for x in ast.walk(h.type) if isinstance(x, ast.Name)}:
                        guarded = True
        loc = f"{get.path}:{lk.lineno}"
        if guarded:
            rep.ok(rule, cons, "lookup under `except TypeError`: an unhashable argument makes the gate unmemoizable", loc)
        else:
            rep.violation(rule, cons, f"`{ast.unparse(lk)}` hashes a key that contains the raw gate arguments (`_make_hashable` returns other objects unchanged): an array, dict or set given to an untyped parameter raises TypeError in the builder and in Q-syntax while the definition called directly accepts it", loc, witness="CircuitBuilder.gate('Wave', r[0], numpy.array([...]))")


CONST_SITES = {
    # function qualname -> what it decides
    "jaqalpaq.core.parameter.Parameter.validate": "integral-float test of a FLOAT constant given to an INT parameter",
    "jaqalpaq.core.algorithm.fill_in_let.LetFiller.resolve_constant": "value a let constant is replaced by",
    "jaqalpaq.core.constant.Constant.__int__": "conversion of a register size (or any constant) to an integer",
}


def _is_value_of(a):
    """`x.value`, `x._value` or `getattr(x, "value", ...)`."""
    if isinstance(a, ast.Attribute) and a.attr in ("value", "_value"):
        return True
    return isinstance(a, ast.Call) and isinstance(a.func, ast.Name) and a.func.id == "getattr" and len(a.args) >= 2 and isinstance(a.args[1], ast.Constant) and a.args[1].value in ("value", "_value")


def constant_chain(ctx, rep, rule, sites):
    """Sites that type-test the value of a constant against number types
    must also handle a constant whose value is another constant."""
    ix = ctx.ix
    rep.rule(rule, "where the value of a constant is tested against number types, a constant defined by another constant (Constant(name, Constant)) is followed to its number", floor=len(sites))
    NUM = {"int", "float"}
    for q in sites:
        cls, name = q.rsplit(".", 1)
        f = _method(ix, cls, name)
        cons = construct_of(f, "constant-of-constant")
        tests = []
        for n in walk_no_nested(f.node):
            if isinstance(n, ast.Call) and isinstance(n.func, ast.Name) and n.func.id == "isinstance" and len(n.args) == 2:
                kinds = {ast.unparse(x).split(".")[-1] for x in (n.args[1].elts if isinstance(n.args[1], ast.Tuple) else [n.args[1]])}
                tests.append((n, kinds))
        direct = []
        for n, kinds in tests:
            if not (kinds & NUM) or (kinds & {"Constant", "AnnotatedValue"}):
                continue
            if _is_value_of(n.args[0]):
                direct.append(n)
        if not direct:
            # the value is obtained through a helper: it must loop/recurse on constants
            helpers = [c for c in walk_no_nested(f.node) if isinstance(c, ast.Call) and isinstance(c.func, ast.Name)]
            follows = False
            for c in helpers:
                r = ix.resolve_name(f.module, c.func.id, f)
                if r and r[0] == "func":
                    h = ix.functions.get(r[1])
                    if h is not None and any(isinstance(w, ast.While) and any(isinstance(m, ast.Call) and isinstance(m.func, ast.Name) and m.func.id == "isinstance" for m in ast.walk(w.test)) for w in ast.walk(h.node)):
                        follows = True
            if follows:
                rep.ok(rule, cons, "the number is taken through a helper that follows constants of constants", f.loc())
            else:
                rep.undecided(rule, cons, "no numeric type test of a constant's value recognised", f.loc())
            continue
        handles = any((kinds & {"Constant", "AnnotatedValue"}) and _is_value_of(n.args[0]) for n, kinds in tests)
        loc = f"{f.path}:{direct[0].lineno}"
        shortcut = None
        if handles:
            for st in ast.walk(f.node):
                if isinstance(st, ast.If) and any(isinstance(c, ast.Call) and isinstance(c.func, ast.Name) and c.func.id == "isinstance" and len(c.args) == 2 and _is_value_of(c.args[0]) and {"Constant", "AnnotatedValue"} & {ast.unparse(x).split(".")[-1] for x in (c.args[1].elts if isinstance(c.args[1], ast.Tuple) else [c.args[1]])} for c in ast.walk(st.test)):
                    for r in st.body:
                        if isinstance(r, ast.Return) and r.value is not None and f.cls and "override" in ast.unparse(f.node) and not any(isinstance(c, ast.Call) and isinstance(c.func, ast.Attribute) and c.func.attr == f.name for c in ast.walk(r.value)):
                            shortcut = r
        if shortcut is not None:
            rep.violation(rule, cons, f"`{ast.unparse(shortcut)}` takes the inner constant's declared value instead of resolving it like any constant: an override of the inner let does not reach the outer one (`let n 2; let reps n; loop reps {{..}}` with n overridden to 3 runs twice)", f"{f.path}:{shortcut.lineno}")
        elif handles:
            rep.ok(rule, cons, "a Constant-valued constant is followed", loc)
        else:
            rep.violation(rule, cons, f"`{ast.unparse(direct[0])}` looks one level deep only: for Constant('b', Constant('a', 2.0)) -- which Constant documents as legal and which has the same value and kind as `a` -- the {sites[q]} fails", loc, witness="b = builder.let('b', a)")


# ---------------------------------------------------------------- C13

def builder_relinks(ctx, rep, rule):
    ix = ctx.ix
    B = "jaqalpaq.core.circuitbuilder.Builder"
    V = "jaqalpaq.core.circuitbuilder.RebuildMacroInContextVisitor"
    bc = _method(ix, B, "build_circuit")
    vg = _method(ix, V, "visit_GateStatement")
    rep.rule(rule, "objects built ahead of the circuit (CircuitBuilder.loop/macro build at once, in an empty gate context) are linked to the circuit's definitions when the circuit is assembled: body statements are relinked, and the relinker replaces any definition that is not the circuit's own -- macro or native", floor=2)
    # (a) build_circuit: the branch that appends to the body reassigns obj from a relinking helper
    relinkers = set()
    for fq, fi in _module_funcs(ix, "jaqalpaq.core.circuitbuilder"):
        if fi.cls is None and any(isinstance(n, ast.Call) and isinstance(n.func, ast.Name) and n.func.id == "RebuildMacroInContextVisitor" for n in ast.walk(fi.node)):
            relinkers.add(fi.name)
    appends = [n for n in walk_no_nested(bc.node) if isinstance(n, ast.Call) and isinstance(n.func, ast.Attribute) and n.func.attr == "append" and isinstance(n.func.value, ast.Name) and n.func.value.id == "statements" and n.args and isinstance(n.args[0], ast.Name)]
    if not appends:
        raise AnalysisError(f"{rule}: build_circuit no longer appends to `statements`")
    for ap in appends:
        var = ap.args[0].id
        cons = construct_of(bc, "body-statement")
        loc = f"{bc.path}:{ap.lineno}"
        # the innermost block that contains the append
        blk = None
        for st in ast.walk(bc.node):
            for fld in ("body", "orelse"):
                sub = getattr(st, fld, None)
                if isinstance(sub, list) and any(isinstance(s, ast.Expr) and s.value is ap for s in sub):
                    blk = sub
        ok = False
        for s in blk or []:
            if isinstance(s, ast.Expr) and s.value is ap:
                break
            if isinstance(s, ast.Assign) and any(isinstance(t, ast.Name) and t.id == var for t in s.targets) and isinstance(s.value, ast.Call) and isinstance(s.value.func, ast.Name) and s.value.func.id in relinkers:
                ok = True
        if ok:
            rep.ok(rule, cons, "relinked against the gate context before it joins the body", loc)
        else:
            rep.violation(rule, cons, "a statement object built earlier joins the body as it is: inside `CircuitBuilder.loop(...)` a macro call keeps a made-up native definition (used-qubit analysis does not look into the macro), an idle gate counts as acting on its qubit and prepare_all as acting on none", loc, witness="b.macro('m', ['a'], body); b.loop(2, blk_calling_m)")
    # (b) the relinker: a return of the unchanged gate is conditional on the definition being the circuit's
    cons = construct_of(vg, "unchanged-gate")
    rets = [st for st in iter_stmts(vg.body) if isinstance(st, ast.Return) and isinstance(st.value, ast.Tuple) and len(st.value.elts) == 2 and isinstance(st.value.elts[0], ast.Constant) and st.value.elts[0].value is False]
    if not rets:
        raise AnalysisError(f"{rule}: no `return False, gate` in RebuildMacroInContextVisitor.visit_GateStatement")
    bad = None
    by_equality = None
    for r in rets:
        ctrl = _enclosing_ifs(vg.node, r)
        justified = False
        native_branch = any((not taken) and "Macro" in ast.unparse(test) for test, taken in ctrl)
        for test, taken in ctrl:
            src = ast.unparse(test)
            if taken and ("gate_def" in src) and (".gate_def" in src or "is None" in src):
                justified = True
                if native_branch and ".gate_def" in src and not any(isinstance(c, ast.Compare) and isinstance(c.ops[0], ast.Is) for c in ast.walk(test)):
                    by_equality = (r, test)
        if not justified:
            bad = r
    if by_equality is not None and bad is None:
        rep.violation(rule, cons, f"`{ast.unparse(by_equality[1])}` compares native definitions by equality, which looks at name and parameters only: a made-up `prepare_all` equals the circuit's busy definition and is not relinked (it counts as acting on no qubit), a made-up idle gate without parameters likewise", f"{vg.path}:{by_equality[0].lineno}", witness="b.loop(2, block_with_prepare_all)")
    elif bad is not None:
        rep.violation(rule, cons, "a gate whose definition is not a macro is returned unchanged without comparing its definition with the circuit's: native gates (idle, busy, typed) in a macro made with CircuitBuilder.macro() keep anonymous definitions", f"{vg.path}:{bad.lineno}", witness="macro wait a { I_Px a } built with CircuitBuilder.macro(): wait q[1] reported as using q[1]")
    else:
        rep.ok(rule, cons, "unchanged only when the definition already is the circuit's (or the name is unknown)", vg.loc())


def _module_funcs(ix, mod):
    return [(q, fi) for q, fi in ix.functions.items() if fi.module == mod]


def fresh_bounding_is_busy(ctx, rep, rule):
    ix, T = ctx.ix, ctx.typer
    f = _func(ix, "jaqalpaq.core.algorithm.expand_subcircuits._choose_bounding_gate")
    rep.rule(rule, "the prepare/measure definition made up when the circuit has none is a busy definition (acts on every qubit), like the native one it stands for", floor=1)
    cons = construct_of(f, "fresh-definition")
    rets = [st for st in iter_stmts(f.body) if isinstance(st, ast.Return) and isinstance(st.value, ast.Call) and isinstance(st.value.func, ast.Name)]
    fresh = []
    for r in rets:
        res = ix.resolve_name(f.module, r.value.func.id, f)
        if res and res[0] == "class" and ix.is_subclass(res[1], "jaqalpaq.core.gatedef.AbstractGate"):
            fresh.append((r, res[1]))
    if not fresh:
        rep.undecided(rule, cons, "no return constructs a gate definition", f.loc())
        return
    for r, k in fresh:
        uq = ix.find_method(k, "used_qubits")
        ys = [y for y in ast.walk(uq.node) if isinstance(y, (ast.Yield, ast.YieldFrom))] if uq else []
        busy = len(ys) == 1 and isinstance(ys[0], ast.Yield) and isinstance(ys[0].value, ast.Name) and ys[0].value.id == "all"
        loc = f"{f.path}:{r.lineno}"
        if busy:
            rep.ok(rule, cons, f"{ix.classes[k].name}: used_qubits yields `all`", loc)
        else:
            rep.violation(rule, cons, f"`{ast.unparse(r)}` makes a plain {ix.classes[k].name}: the prepare_all/measure_all written by expand_subcircuits for a circuit without these native gates act on no qubit, so the expanded subcircuit uses fewer qubits than the block it replaces", loc, witness="parse without a gate set: subcircuit { Px q[0] } -> all qubits before, {0} after expand_subcircuits")


def qubit_index_normalised(ctx, rep, rule):
    """Every index obtained from resolve_qubit that is reported (put into a
    result set or used to index a register) is normalised 2.0 -> 2 first."""
    ix = ctx.ix
    UQ = "jaqalpaq.core.algorithm.used_qubit_visitor.UsedQubitIndicesVisitor"
    if UQ not in ix.classes:
        raise AnalysisError("anchor vanished: UsedQubitIndicesVisitor")
    rep.rule(rule, "an index that resolve_qubit hands back (it may be an integral float coming from a macro argument) is converted to an integer before it is reported", floor=2)
    n = 0
    for name, m in ix.classes[UQ].methods.items():
        for st in iter_stmts(m.body):
            if not (isinstance(st, ast.Assign) and isinstance(st.targets[0], ast.Tuple) and len(st.targets[0].elts) == 2 and isinstance(st.value, ast.Call) and isinstance(st.value.func, ast.Attribute) and st.value.func.attr == "resolve_qubit"):
                continue
            recv = st.value.func.value
            # an element of a register taken at a range() position is an int already
            if isinstance(recv, ast.Subscript):
                continue
            idx = st.targets[0].elts[1]
            if not isinstance(idx, ast.Name):
                continue
            n += 1
            cons = construct_of(m, f"index:{idx.id}")
            conv = any(isinstance(a, ast.Assign) and any(isinstance(t, ast.Name) and t.id == idx.id for t in a.targets) and isinstance(a.value, ast.Call) and isinstance(a.value.func, ast.Name) and a.value.func.id in ("int", "as_integer") for a in ast.walk(m.node))
            loc = f"{m.path}:{st.lineno}"
            if conv:
                rep.ok(rule, cons, "integral floats become integers", loc)
            else:
                rep.violation(rule, cons, f"`{ast.unparse(st)}`: the index is reported as it comes; `m q 2.0` (accepted, and normalised by expand_macros and the emulator) gives {{'q': {{2.0}}}}, an element that cannot be used as an index and mixes types with other results", loc, witness="macro m r i { Px r[i] }; m q 2.0")
    if n < 2:
        raise AnalysisError(f"{rule}: only {n} resolve_qubit unpackings found in UsedQubitIndicesVisitor (2 on the pinned tree)")


def parallel_branch_state(ctx, rep, rule):
    ix = ctx.ix
    DS = "jaqalpaq.core.algorithm.walkers.DiscoverSubcircuits"
    vb = _method(ix, DS, "visit_BlockStatement")
    vg = _method(ix, DS, "visit_GateStatement")
    rep.rule(rule, "the branches of a parallel block are simultaneous: the open/closed subcircuit state that visiting one branch changes is not carried into the next branch (a change is refused), so acceptance cannot depend on the order in which branches are written", floor=1)
    selfn = vg.params[0]
    written = {t.attr for st in ast.walk(vg.node) if isinstance(st, ast.Assign) for t in st.targets if isinstance(t, ast.Attribute) and isinstance(t.value, ast.Name) and t.value.id == selfn}
    written |= {n.func.value.attr for n in ast.walk(vg.node) if isinstance(n, ast.Call) and isinstance(n.func, ast.Attribute) and n.func.attr in ("append", "extend") and isinstance(n.func.value, ast.Attribute) and isinstance(n.func.value.value, ast.Name) and n.func.value.value.id == selfn}
    read = {n.attr for n in ast.walk(vg.node) if isinstance(n, ast.Attribute) and isinstance(n.ctx, ast.Load) and isinstance(n.value, ast.Name) and n.value.id == selfn}
    state = {a for a in written if a in read and a not in ("address",)}
    cons = construct_of(vb, "parallel-branches")
    if not state:
        rep.ok(rule, cons, "visiting a gate keeps no state", vb.loc())
        return
    loops = [n for n in walk_no_nested(vb.node) if isinstance(n, ast.For)]
    if not loops:
        raise AnalysisError(f"{rule}: DiscoverSubcircuits.visit_BlockStatement has no loop over the statements")
    ok = False
    conj = None
    for lp in loops:
        for r in ast.walk(lp):
            if not isinstance(r, ast.Raise):
                continue
            tests = [t for t, taken in _enclosing_ifs(vb.node, r) if taken]
            src = " ".join(ast.unparse(t) for t in tests)
            for t in tests:
                if isinstance(t, ast.BoolOp) and isinstance(t.op, ast.And) and sum(1 for v in t.values if isinstance(v, ast.Compare)) >= 2 and "parallel" not in ast.unparse(t):
                    conj = t
            if "parallel" in src and any(f".{a}" in src or a in src for a in state):
                ok = True
            elif "parallel" in src:
                # the state is compared through locals captured in the loop
                locs = {n.id for t in tests for n in ast.walk(t) if isinstance(n, ast.Name)}
                for nm in locs:
                    for d in _local_defs(vb.node, nm):
                        if not isinstance(d, ast.AugAssign) and any(isinstance(x, ast.Attribute) and x.attr in state for x in ast.walk(d)):
                            ok = True
    if ok and conj is not None:
        rep.violation(rule, cons, f"`{ast.unparse(conj)}` refuses a branch only when ALL of {sorted(state)} changed: a branch that only opens a trace (prepare_all) passes, and acceptance depends on the order of the branches again", f"{vb.path}:{conj.lineno}", witness="< prepare_all | I_Px q[0] >  vs  < I_Px q[0] | prepare_all >")
    elif ok:
        rep.ok(rule, cons, f"a branch that changes {sorted(state)} next to other branches is refused", vb.loc())
    else:
        rep.violation(rule, cons, f"branches are visited one after the other and share {sorted('self.' + a for a in state)}: `< prepare_all | I_Px q[1] >` is accepted while `< I_Px q[1] | prepare_all >` is rejected (`gates must follow a prepare_all`), although the two used-qubit sets are disjoint in both orders", vb.loc(), witness="< prepare_all | I_Px q[1] > ; Px q[0] ; measure_all")


# ---------------------------------------------------------------- C15

FLOAT_CALLS = {"math.log2", "math.log", "math.log10", "math.sqrt", "log2", "log", "sqrt", "float", "math.pow"}


def view_size_is_integer(ctx, rep, rule):
    """Fields that `range()` / len-of-list views are sized by hold integers."""
    ix = ctx.ix
    mod = "jaqalpaq.ipc.ipc"
    if mod not in ix.modules:
        raise AnalysisError("anchor vanished: jaqalpaq.ipc.ipc")
    rep.rule(rule, "the qubit count that sizes the views of a hardware (IPC) result is an integer", floor=1)
    n = 0
    for kq, ci in ix.classes.items():
        if ci.module != mod:
            continue
        # fields used as range() arguments
        fields = set()
        for m in ci.methods.values():
            for c in ast.walk(m.node):
                if isinstance(c, ast.Call) and isinstance(c.func, ast.Name) and c.func.id == "range":
                    for a in c.args:
                        if isinstance(a, ast.Attribute) and isinstance(a.value, ast.Name) and a.value.id == m.params[0]:
                            fields.add(a.attr)
        init = ci.methods.get("__init__")
        if not fields or init is None:
            continue
        for fld in sorted(fields):
            # which ctor parameter feeds the field
            par = None
            for st in iter_stmts(init.body):
                if isinstance(st, ast.Assign) and any(isinstance(t, ast.Attribute) and t.attr == fld for t in st.targets) and isinstance(st.value, ast.Name):
                    par = st.value.id
            if par is None or par not in init.params:
                continue
            pos = init.params.index(par) - 1
            # constructor call sites in the module
            for fq, fi in _module_funcs(ix, mod):
                for c in ast.walk(fi.node):
                    if isinstance(c, ast.Call) and isinstance(c.func, ast.Name) and c.func.id == ci.name:
                        arg = None
                        if pos < len(c.args):
                            arg = c.args[pos]
                        for kw in c.keywords:
                            if kw.arg == par:
                                arg = kw.value
                        if arg is None:
                            continue
                        n += 1
                        cons = construct_of(fi, f"{ci.name}.{fld}")
                        loc = f"{fi.path}:{c.lineno}"
                        exprs = [arg]
                        if isinstance(arg, ast.Name):
                            exprs = [d for d in _local_defs(fi.node, arg.id) if not isinstance(d, ast.AugAssign)] or [arg]
                        bad = None
                        for e in exprs:
                            top = e
                            if isinstance(top, ast.Call) and (ast.unparse(top.func) in ("int", "round", "len", "operator.index") or (isinstance(top.func, ast.Attribute) and top.func.attr == "bit_length")):
                                continue
                            for s in ast.walk(e):
                                if isinstance(s, ast.Call) and ast.unparse(s.func) in FLOAT_CALLS:
                                    # .. unless converted on the way up
                                    if not _under_int(e, s):
                                        bad = s
                                if isinstance(s, ast.BinOp) and isinstance(s.op, ast.Div) and not _under_int(e, s):
                                    bad = s
                        if bad is not None:
                            rep.violation(rule, cons, f"`{ast.unparse(bad)}` is a float and becomes {ci.name}.{fld}, which `range()` and the string views need as an integer: relative_frequency_by_str, probability_by_str and measured_qubits of every IPC result raise TypeError", loc, witness="run_jaqal_circuit with JAQALPAQ_RUN_PORT set")
                        else:
                            rep.ok(rule, cons, "integer expression", loc)
    if n == 0:
        raise AnalysisError(f"{rule}: no constructor call feeds a range()-sized field in jaqalpaq.ipc.ipc (IpcSubcircuit._qubit_count on the pinned tree)")


def _under_int(root, node):
    """Is `node` nested in an int()/round() call inside `root`?"""
    for c in ast.walk(root):
        if isinstance(c, ast.Call) and isinstance(c.func, ast.Name) and c.func.id in ("int", "round") and any(x is node for a in c.args for x in ast.walk(a)):
            return True
    return False


def execution_owns_its_counters(ctx, rep, rule):
    ix = ctx.ix
    J = "jaqalpaq.emulator.backend.IndependentSubcircuitsJob"
    ex = _method(ix, J, "execute")
    rep.rule(rule, "the subcircuit objects that count the readouts of one execution are made for that execution: a job-lifetime object never accumulates readouts", floor=1)
    selfn = ex.params[0]
    n = 0
    for c in walk_no_nested(ex.node):
        if not (isinstance(c, ast.Call) and isinstance(c.func, ast.Name) and c.func.id in ("ExecutionResult", "IndependentSubcircuitsEmulatorWalker")):
            continue
        for a in list(c.args) + [k.value for k in c.keywords]:
            exprs = [a]
            if isinstance(a, ast.Name):
                exprs = [d for d in _local_defs(ex.node, a.id) if not isinstance(d, ast.AugAssign)] or [a]
            for e in exprs:
                if isinstance(e, ast.Attribute) and isinstance(e.value, ast.Name) and e.value.id == selfn and e.attr == "subcircuits":
                    n += 1
                    rep.violation(rule, construct_of(ex, f"{c.func.id}:subcircuits"), f"`{ast.unparse(c)[:70]}` hands the job's own subcircuit objects to the execution: accept_readout keeps adding to them, so after a second `job.execute()` the result has 3 readouts while its subcircuits hold 6, and the first result changes retroactively", f"{ex.path}:{c.lineno}", witness="job = backend(circ); job.execute(); job.execute()")
                elif isinstance(e, (ast.ListComp, ast.Call, ast.List)):
                    n += 1
                    if any(isinstance(x, ast.Attribute) and x.attr == "subcircuits" for x in ast.walk(e)) or c.func.id == "ExecutionResult":
                        rep.ok(rule, construct_of(ex, f"{c.func.id}:subcircuits"), "objects made inside execute()", f"{ex.path}:{c.lineno}")
    if n == 0:
        raise AnalysisError(f"{rule}: IndependentSubcircuitsJob.execute passes no subcircuits to the walker or the result")
    # the copy really starts from zero
    R = "jaqalpaq.core.result.ReadoutSubcircuit"
    acc = _method(ix, R, "accept_readout")
    mutated = {t.value.attr for st in ast.walk(acc.node) if isinstance(st, ast.AugAssign) for t in [st.target] if isinstance(t, ast.Subscript) and isinstance(t.value, ast.Attribute)}
    mutated |= {c.func.value.attr for c in ast.walk(acc.node) if isinstance(c, ast.Call) and isinstance(c.func, ast.Attribute) and c.func.attr == "append" and isinstance(c.func.value, ast.Attribute)}
    called = {c.func.attr for c in ast.walk(ex.node) if isinstance(c, ast.Call) and isinstance(c.func, ast.Attribute)}
    for nm in called:
        h = ix.find_method(R, nm)
        if h is None or nm in ("visit",):
            continue
        reset = {t.attr for st in ast.walk(h.node) if isinstance(st, ast.Assign) for t in st.targets if isinstance(t, ast.Attribute)}
        cons = construct_of(h, "resets")
        missing = sorted(mutated - reset)
        if missing:
            rep.violation(rule, cons, f"the per-execution copy shares {missing} with the job's object (a shallow copy): readouts of earlier executions are still counted", h.loc())
        else:
            rep.ok(rule, cons, f"fresh {sorted(mutated)}", h.loc())


def outcome_is_plain_int(ctx, rep, rule):
    ix = ctx.ix
    OP = "jaqalpaq.core.result.OutputParser"
    pt = _method(ix, OP, "process_trace")
    rep.rule(rule, "a hardware outcome reaches the tally as a plain integer whatever integer-like type it came in (a bool or numpy.bool_ used as an array index is a mask)", floor=1)
    cons = construct_of(pt, "outcome")
    var = None
    for st in iter_stmts(pt.body):
        if isinstance(st, ast.Assign) and isinstance(st.value, ast.Call) and isinstance(st.value.func, ast.Name) and st.value.func.id == "next" and isinstance(st.targets[0], ast.Name):
            var = st.targets[0].id
    if var is None:
        raise AnalysisError(f"{rule}: OutputParser.process_trace no longer takes the outcome with next()")
    CONV = {"int", "operator.index", "index"}
    # every path from the next() to the Readout(...) call passes a conversion of var
    cfg = CFG(pt.body)
    convs, use, start = [], None, None
    for st in iter_stmts(pt.body):
        if isinstance(st, ast.Assign) and any(isinstance(t, ast.Name) and t.id == var for t in st.targets) and isinstance(st.value, ast.Call):
            fn = ast.unparse(st.value.func)
            if fn == "next":
                start = st
            elif fn in CONV:
                convs.append(st)
        if use is None and any(isinstance(c, ast.Call) and isinstance(c.func, ast.Name) and c.func.id == "Readout" and any(isinstance(a, ast.Name) and a.id == var for a in c.args) for c in ast.walk(st)) and not isinstance(st, (ast.If, ast.For, ast.While, ast.Try, ast.With)):
            use = st
    if use is None:
        rep.undecided(rule, cons, "the outcome does not reach Readout(...) by name", pt.loc())
        return
    nodes = [cfg.node(c) for c in convs]
    reach = cfg.reachable_from(cfg.node(start), removed_nodes=[x for x in nodes if x is not None])
    if cfg.node(use) in reach:
        rep.violation(rule, cons, f"an outcome that is not a string reaches `{ast.unparse(use)[:50]}` unconverted: [True, False, True] is tallied as [2, 2] for three readouts (True increments every outcome, False none) while [1, 0, 1] and ['1', '0', '1'] give [1, 2]", f"{pt.path}:{use.lineno}", witness="parse_jaqal_output_list(c, [True, False, True])")
    else:
        rep.ok(rule, cons, "converted by int()/operator.index() on every path", f"{pt.path}:{use.lineno}")


# ---------------------------------------------------------------- C01

def value_writer_total(ctx, rep, rule):
    ix = ctx.ix
    f = _func(ix, "jaqalpaq.generator.generator.generate_jaqal_value")
    rep.rule(rule, "generate_jaqal_value writes every finite number the builder accepts (any Integral / Real type, e.g. numpy scalars) and never falls off its end (a silent None becomes the text `None` or a TypeError in join)", floor=2)
    cons = construct_of(f, "falls-through")
    cfg = CFG(f.body)
    last = f.body[-1]
    # falling off the end: the exit is reachable without passing a Return/Raise
    exits = [st for st in iter_stmts(f.body) if isinstance(st, (ast.Return, ast.Raise))]
    falls = cfg.stmts_reaching_exit_without([cfg.node(s) for s in exits])
    bare = [st for st in exits if isinstance(st, ast.Return) and st.value is None]
    if falls or bare:
        rep.violation(rule, cons, "a value that matches no branch makes the function return None: a numpy.int64 gate argument or register size gives `TypeError: expected str instance, NoneType found`, and a slice bound is written as the word `None` (`map x q[0:None:1]`), which the parser rejects", f.loc(), witness="b.gate('Rz', q[0], numpy.int64(2))")
    else:
        rep.ok(rule, cons, "every path returns text or raises", f.loc())
    cons = construct_of(f, "number-types")
    kinds = set()
    for n in ast.walk(f.node):
        if isinstance(n, ast.Call) and isinstance(n.func, ast.Name) and n.func.id == "isinstance" and len(n.args) == 2:
            kinds |= {ast.unparse(x).split(".")[-1] for x in (n.args[1].elts if isinstance(n.args[1], ast.Tuple) else [n.args[1]])}
    if {"Integral", "Real"} <= kinds or "Number" in kinds:
        rep.ok(rule, cons, "abstract number types are written", f.loc())
    else:
        rep.violation(rule, cons, f"only {sorted(kinds & {'int', 'float'})} are written: numbers of other types that Register/NamedQubit accept on purpose (numbers.Integral) and that override_dict lets through cannot be generated", f.loc(), witness="override_dict={'t': numpy.float32(0.5)} with expand_let=True")


def reserved_words_cover_keywords(ctx, rep, rule):
    ix = ctx.ix
    um = ix.modules.get("jaqalpaq.utilities")
    sm = ix.modules.get("jaqalpaq.parser.slyparse")
    if um is None or sm is None:
        raise AnalysisError("anchor vanished: utilities / slyparse")
    rep.rule(rule, "every keyword of the lexer is a reserved word for is_identifier_valid (a name the library calls valid must lex as an identifier)", floor=9)
    reserved = None
    for st in um.tree.body:
        if isinstance(st, ast.Assign) and any(isinstance(t, ast.Name) and t.id == "RESERVED_WORDS" for t in st.targets) and isinstance(st.value, (ast.List, ast.Tuple, ast.Set)):
            reserved = {e.value for e in st.value.elts if isinstance(e, ast.Constant)}
    if reserved is None:
        raise AnalysisError(f"{rule}: RESERVED_WORDS is no longer a literal list")
    kws = []
    for n in ast.walk(sm.tree):
        if isinstance(n, ast.Assign) and isinstance(n.targets[0], ast.Subscript) and isinstance(n.targets[0].value, ast.Name) and n.targets[0].value.id == "IDENTIFIER" and isinstance(n.targets[0].slice, ast.Constant):
            kws.append((n.targets[0].slice.value, n.lineno))
    if len(kws) < 9:
        raise AnalysisError(f"{rule}: only {len(kws)} keyword remappings found in the lexer (11 on the pinned tree)")
    for kw, ln in kws:
        cons = f"parser.slyparse:JaqalLexer:keyword:{kw}"
        if kw in reserved:
            rep.ok(rule, cons, "reserved", f"{sm.path}:{ln}")
        else:
            rep.violation(rule, cons, f"`{kw}` is a keyword for the lexer but is_identifier_valid({kw!r}) is true: the builder and Q-syntax accept it as a register, let, macro or gate name, the generator writes `register {kw}[2]`, and the parser rejects that text", f"{sm.path}:{ln}", witness=f"b.register({kw!r}, 2)")


def macro_call_nesting(ctx, rep, rule):
    ix = ctx.ix
    B = "jaqalpaq.core.circuitbuilder.Builder"
    bg = _method(ix, B, "build_gate")
    bs = _method(ix, B, "build_subcircuit_block")
    rep.rule(rule, "the nesting rule for subcircuits (not inside a subcircuit or parallel block) is applied to a macro call as to the body it stands for, on memoized gates too", floor=1)
    cons = construct_of(bg, "nesting-check")
    # the rule exists for literal blocks
    if not any(isinstance(c, ast.Call) and isinstance(c.func, ast.Attribute) and c.func.attr == "is_in_block_context" for c in ast.walk(bs.node)):
        rep.ok(rule, cons, "the builder has no nesting rule for subcircuit blocks", bg.loc())
        return
    raises = []
    for r in ast.walk(bg.node):
        if isinstance(r, ast.Raise):
            tests = _enclosing_ifs(bg.node, r)
            if any(taken and any(isinstance(c, ast.Call) and isinstance(c.func, ast.Attribute) and c.func.attr == "is_in_block_context" for c in ast.walk(t)) for t, taken in tests):
                raises.append((r, tests))
    if not raises:
        rep.violation(rule, cons, "a call of a macro whose body contains a subcircuit is accepted inside a subcircuit or parallel block: with expand_macro=True the parser returns a circuit whose generated text (`subcircuit { subcircuit {...} }`) it rejects itself", bg.loc(), witness="macro m a { subcircuit { Px a } }; subcircuit { m q[0] }")
        return
    for r, tests in raises:
        memo_only = any(taken and "is None" in ast.unparse(t) and "is_in_block_context" not in ast.unparse(t) for t, taken in tests)
        if memo_only:
            rep.violation(rule, cons, "the nesting check runs only when the gate is not found in the memo table: the same call seen first at top level is then accepted inside a subcircuit", f"{bg.path}:{r.lineno}")
        else:
            rep.ok(rule, cons, "checked for every call, memoized or not", f"{bg.path}:{r.lineno}")


# ---------------------------------------------------------------- C20

def equality_not_recursive_on_chain(ctx, rep, rule):
    ix = ctx.ix
    R = "jaqalpaq.core.register.Register"
    eq = _method(ix, R, "__eq__")
    from .c20 import operand_aliases
    rep.rule(rule, "Register.__eq__ does not call itself once per link of an alias chain (a legal program may chain more maps than calls can nest; Circuit.__eq__ would raise RecursionError instead of answering)", floor=1)
    lefts, rights = operand_aliases(eq)
    cons = construct_of(eq, "alias-chain")
    bad = None
    n = 0
    for c in walk_no_nested(eq.node):
        if not (isinstance(c, ast.Compare) and len(c.ops) == 1 and isinstance(c.ops[0], (ast.Eq, ast.NotEq))):
            continue
        l, r = c.left, c.comparators[0]

        def chain_side(e, side):
            # X.alias_from with X an operand alias, or an alias rebound to X.alias_from
            if isinstance(e, ast.Attribute) and e.attr in ("alias_from", "_alias_from") and isinstance(e.value, ast.Name) and e.value.id in side:
                return True
            if isinstance(e, ast.Name) and e.id in side:
                return any(isinstance(d, ast.Attribute) and d.attr in ("alias_from", "_alias_from") for d in _local_defs(eq.node, e.id) if not isinstance(d, ast.AugAssign))
            return False

        if not (chain_side(l, lefts) and chain_side(r, rights)):
            continue
        n += 1
        tests = _enclosing_ifs(eq.node, c)
        guarded = any(any(isinstance(m, ast.Call) and isinstance(m.func, ast.Name) and m.func.id == "isinstance" and "Register" in ast.unparse(m.args[1]) for m in ast.walk(t)) for t, taken in tests)
        if not guarded:
            bad = c
    if bad is not None:
        rep.violation(rule, cons, f"`{ast.unparse(bad)}` compares the aliased registers with the same __eq__, one Python call per link: `map a0 q; map a1 a0; ... map a600 a599` parses, is written back and re-parses, but comparing the two circuits raises RecursionError instead of returning a bool", f"{eq.path}:{bad.lineno}", witness="a chain of ~500 whole-register maps")
    elif n:
        rep.ok(rule, cons, "the chain is walked in a loop; `==` is used only once an end of a chain is not a Register", eq.loc())
    else:
        rep.ok(rule, cons, "no equality between the two alias sources", eq.loc())


EXTRA = {
    "C01": [(value_writer_total, "C01.11"), (reserved_words_cover_keywords, "C01.12"), (macro_call_nesting, "C01.13")],
    "C05": [(constant_chain, "C05.13", {"jaqalpaq.core.algorithm.fill_in_let.LetFiller.resolve_constant": CONST_SITES["jaqalpaq.core.algorithm.fill_in_let.LetFiller.resolve_constant"]})],
    "C06": [(constant_chain, "C06.18", {"jaqalpaq.core.constant.Constant.__int__": CONST_SITES["jaqalpaq.core.constant.Constant.__int__"]})],
    "C08": [(execution_owns_its_counters, "C08.7")],
    "C13": [(builder_relinks, "C13.8"), (fresh_bounding_is_busy, "C13.9"), (qubit_index_normalised, "C13.10"), (parallel_branch_state, "C13.11")],
    "C15": [(view_size_is_integer, "C15.10"), (execution_owns_its_counters, "C15.11"), (outcome_is_plain_int, "C15.12")],
    "C18": [(keyword_capturable_receiver, "C18.5"), (stretch_parameter_name, "C18.6"), (stretched_table_keys, "C18.7"), (memo_key_hashable, "C18.8"),
            (constant_chain, "C18.9", {"jaqalpaq.core.parameter.Parameter.validate": CONST_SITES["jaqalpaq.core.parameter.Parameter.validate"]})],
    "C20": [(equality_not_recursive_on_chain, "C20.8")],
}
