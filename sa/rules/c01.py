"""C01 -- generated Jaqal text parses back to the same circuit (decided clauses)."""

from __future__ import annotations

import ast
import re

from ..index import AnalysisError
from ..cfg import walk_no_nested, iter_stmts
from ..fieldflow import FuncFlow, Transformer, names_in
from ..lexer import extract_lexer, SLY_ASSUMPTIONS
from ..regex import lang, DFA, Unsupported, glushkov_deterministic
from .common import check_field_flow, construct_of, cls_construct

GEN = "jaqalpaq.generator.generator"
BLOCK = "jaqalpaq.core.block.BlockStatement"
LOOP = "jaqalpaq.core.block.LoopStatement"
GATE = "jaqalpaq.core.gate.GateStatement"
CIRCUIT = "jaqalpaq.core.circuit.Circuit"
QUBIT = "jaqalpaq.core.register.NamedQubit"
REGISTER = "jaqalpaq.core.register.Register"
MACRO = "jaqalpaq.core.macro.Macro"
CONSTANT = "jaqalpaq.core.constant.Constant"
PARAMETER = "jaqalpaq.core.parameter.Parameter"
ANNOTATED = "jaqalpaq.core.parameter.AnnotatedValue"
USEPULSES = "jaqalpaq.core.usepulses.UsePulsesStatement"

R = "the property says no numeric literal, identifier, alias bound, macro, loop count, block kind or subcircuit annotation is altered or lost by the trip"

D = "[0-9]"
# CPython repr() of a finite float: fixed notation for 1e-4 <= |x| < 1e16, exponent form otherwise
FLOAT_REPR = rf"-?({D}+\.{D}+|[1-9](\.{D}+)?e(-0[5-9]|-[1-9]{D}+|\+1[6-9]|\+[2-9]{D}|\+[1-9]{D}{D}+))"
INT_REPR = rf"-?{D}+"

# IR positions that may hold an AnnotatedValue (Constant / Parameter) instead of a number
VALUE_POSITIONS = {
    (BLOCK, "iterations"), (LOOP, "iterations"), (QUBIT, "alias_index"), (REGISTER, "size"),
}


def formatter_language(expr, arg_name):
    """Map a formatting expression applied to ``arg_name`` to
    (kind, float language regex, int language regex, lossless) or None if not recognised."""
    def spec_lang(spec):
        spec = spec or ""
        m = re.fullmatch(r"(\.(\d+))?([fFeEgGr]?)", spec)
        if not m:
            return None
        prec = int(m.group(2)) if m.group(2) is not None else None
        ty = m.group(3)
        if ty == "" and prec is None:
            return ("repr", FLOAT_REPR, INT_REPR, True)
        if ty in ("f", "F"):
            p = 6 if prec is None else prec
            frac = rf"\.{D}{{{p}}}" if p > 0 else ""
            return (f"%.{p}f", rf"-?{D}+{frac}", rf"-?{D}+{frac}", False)
        if ty in ("e", "E"):
            p = 6 if prec is None else prec
            frac = rf"\.{D}{{{p}}}" if p > 0 else ""
            return (f"%.{p}e", rf"-?{D}{frac}[eE][-+]{D}{D}+", rf"-?{D}{frac}[eE][-+]{D}{D}+", p >= 16)
        if ty in ("g", "G", ""):
            p = 6 if prec is None else prec
            return (f"%.{p}g", rf"-?({D}+(\.{D}+)?|{D}(\.{D}+)?[eE][-+]{D}{D}+)", rf"-?({D}+|{D}(\.{D}+)?[eE][-+]{D}{D}+)", p >= 17)
        return None

    if isinstance(expr, ast.Call) and isinstance(expr.func, ast.Name) and expr.func.id in ("str", "repr") and len(expr.args) == 1:
        a = expr.args[0]
        if isinstance(a, ast.Name) and a.id == arg_name:
            return ("repr", FLOAT_REPR, INT_REPR, True)
        if isinstance(a, ast.Call) and isinstance(a.func, ast.Name) and a.func.id == "round":
            return ("round", FLOAT_REPR, INT_REPR, False)
        if isinstance(a, ast.Call) and isinstance(a.func, ast.Name) and a.func.id == "float":
            return ("repr-float", FLOAT_REPR, FLOAT_REPR, True)
        return None
    if isinstance(expr, ast.JoinedStr) and len(expr.values) == 1 and isinstance(expr.values[0], ast.FormattedValue):
        fv = expr.values[0]
        if isinstance(fv.value, ast.Name) and fv.value.id == arg_name:
            spec = ""
            if fv.format_spec is not None:
                if len(fv.format_spec.values) == 1 and isinstance(fv.format_spec.values[0], ast.Constant):
                    spec = fv.format_spec.values[0].value
                else:
                    return None
            if fv.conversion == ord("r") or (fv.conversion == ord("s") and not spec):
                return ("repr", FLOAT_REPR, INT_REPR, True)
            return spec_lang(spec)
    if isinstance(expr, ast.BinOp) and isinstance(expr.op, ast.Mod) and isinstance(expr.left, ast.Constant) and isinstance(expr.left.value, str):
        m = re.fullmatch(r"%(\.\d+)?([sfFeEgGrd])", expr.left.value)
        if m and isinstance(expr.right, ast.Name) and expr.right.id == arg_name:
            if m.group(2) in "sr":
                return ("repr", FLOAT_REPR, INT_REPR, True)
            if m.group(2) == "d":
                return ("%d", INT_REPR, INT_REPR, False)
            return spec_lang((m.group(1) or "") + m.group(2))
    if isinstance(expr, ast.Call) and isinstance(expr.func, ast.Name) and expr.func.id == "format" and len(expr.args) == 2:
        if isinstance(expr.args[0], ast.Name) and expr.args[0].id == arg_name and isinstance(expr.args[1], ast.Constant):
            return spec_lang(expr.args[1].value)
    if isinstance(expr, ast.Call) and isinstance(expr.func, ast.Attribute) and expr.func.attr == "format" and isinstance(expr.func.value, ast.Constant) and len(expr.args) == 1:
        m = re.fullmatch(r"\{(?::([^}]*))?\}", expr.func.value.value)
        if m and isinstance(expr.args[0], ast.Name) and expr.args[0].id == arg_name:
            return spec_lang(m.group(1) or "")
    return None


FLOAT_REPR_DOTTED = rf"-?({D}+\.{D}+|[1-9]\.{D}+e(-0[5-9]|-[1-9]{D}+|\+1[6-9]|\+[2-9]{D}|\+[1-9]{D}{D}+))"


def dotted_exponent_idiom(ifst, var, defs, tested):
    """text = str(val); if "e" in text and "." not in text: text = text.replace("e", ".0e"); return text

    The replacement applies exactly to the exponent-form reprs without a
    mantissa point (`De+XX` -> `D.0e+XX`); every other repr is unchanged."""
    if len(defs) != 2:
        return None
    base = [d for d in defs if formatter_language(d, tested) and formatter_language(d, tested)[0] == "repr"]
    repl = [d for d in defs if isinstance(d, ast.Call) and isinstance(d.func, ast.Attribute) and d.func.attr == "replace"
            and isinstance(d.func.value, ast.Name) and d.func.value.id == var and len(d.args) == 2
            and all(isinstance(a, ast.Constant) for a in d.args) and d.args[0].value == "e" and d.args[1].value == ".0e"]
    if len(base) != 1 or len(repl) != 1:
        return None
    # the replacement must be guarded by `"." not in text` (and only then)
    guard = None
    for st in iter_stmts(ifst.body):
        if isinstance(st, ast.If) and any(isinstance(s, ast.Assign) and s.value is repl[0] for s in st.body):
            guard = st
    if guard is None or guard.orelse:
        return None
    has_not_dot = any(
        isinstance(n, ast.Compare) and len(n.ops) == 1 and isinstance(n.ops[0], ast.NotIn) and isinstance(n.left, ast.Constant) and n.left.value == "."
        and isinstance(n.comparators[0], ast.Name) and n.comparators[0].id == var
        for n in ast.walk(guard.test)
    )
    only_and = not any(isinstance(n, ast.BoolOp) and isinstance(n.op, ast.Or) for n in ast.walk(guard.test)) and not any(isinstance(n, ast.UnaryOp) for n in ast.walk(guard.test))
    other_terms_ok = all(
        (isinstance(n.left, ast.Constant) and n.left.value in (".", "e") and isinstance(n.ops[0], (ast.In, ast.NotIn)))
        for n in ast.walk(guard.test) if isinstance(n, ast.Compare)
    )
    e_positive = all(
        isinstance(n.ops[0], ast.In) for n in ast.walk(guard.test)
        if isinstance(n, ast.Compare) and isinstance(n.left, ast.Constant) and n.left.value == "e"
    )
    if has_not_dot and only_and and other_terms_ok and e_positive:
        return ("repr with `.0` inserted before a bare exponent", FLOAT_REPR_DOTTED, INT_REPR, True)
    return None


EXPO = rf"e(-0[5-9]|-[1-9]{D}+|\+1[6-9]|\+[2-9]{D}|\+[1-9]{D}{D}+)"


def partition_idiom(ifst, expr, tested):
    """m, e, x = str(val).partition("e"); if e and <test on m>: m += ".0"; return m + e + x

    The `.0` goes to the exponent-form reprs whose mantissa passes the test.  `"." not in m` and
    `m.lstrip("-").isdigit()` cover every bare mantissa; `m.isdigit()` covers the positive ones only, so a negative
    bare mantissa (`-1e-06`) is printed as it is."""
    if not (isinstance(expr, ast.BinOp) and isinstance(expr.op, ast.Add)):
        return None
    parts = []

    def flat(e):
        if isinstance(e, ast.BinOp) and isinstance(e.op, ast.Add):
            flat(e.left)
            flat(e.right)
        else:
            parts.append(e)
    flat(expr)
    if len(parts) != 3 or not all(isinstance(x, ast.Name) for x in parts):
        return None
    m, e_, x = (q.id for q in parts)
    unpack = None
    for st in iter_stmts(ifst.body):
        if isinstance(st, ast.Assign) and len(st.targets) == 1 and isinstance(st.targets[0], ast.Tuple) and [getattr(t, "id", None) for t in st.targets[0].elts] == [m, e_, x]:
            v = st.value
            if isinstance(v, ast.Call) and isinstance(v.func, ast.Attribute) and v.func.attr == "partition" and len(v.args) == 1 and isinstance(v.args[0], ast.Constant) and v.args[0].value == "e":
                src = v.func.value
                if isinstance(src, ast.Call) and isinstance(src.func, ast.Name) and src.func.id in ("str", "repr") and len(src.args) == 1 and isinstance(src.args[0], ast.Name) and src.args[0].id == tested:
                    unpack = st
    if unpack is None:
        return None
    guard = None
    for st in iter_stmts(ifst.body):
        if isinstance(st, ast.If) and not st.orelse and len(st.body) == 1 and isinstance(st.body[0], ast.AugAssign) and isinstance(st.body[0].op, ast.Add) \
                and isinstance(st.body[0].target, ast.Name) and st.body[0].target.id == m and isinstance(st.body[0].value, ast.Constant) and st.body[0].value.value == ".0":
            guard = st
    if guard is None:
        return None
    terms = guard.test.values if isinstance(guard.test, ast.BoolOp) and isinstance(guard.test.op, ast.And) else [guard.test]
    has_exp = any(isinstance(t, ast.Name) and t.id == e_ for t in terms)
    rest = [t for t in terms if not (isinstance(t, ast.Name) and t.id == e_)]
    if not has_exp or len(rest) != 1:
        return None
    t = rest[0]
    txt = ast.unparse(t)
    if txt in (f"'.' not in {m}", f"not '.' in {m}") or re.fullmatch(rf"{m}\.lstrip\('(\+-|-\+|-)'\)\.isdigit\(\)", txt):
        return ("repr with `.0` appended to a bare mantissa", FLOAT_REPR_DOTTED, INT_REPR, True)
    if txt == f"{m}.isdigit()":
        lang_ = rf"(-?({D}+\.{D}+|[1-9]\.{D}+{EXPO})|[1-9]\.0{EXPO}|-[1-9]{EXPO})"
        return ("repr with `.0` appended to an unsigned bare mantissa only", lang_, INT_REPR, True)
    return None


def find_value_printer(ctx):
    """The generator function that dispatches on isinstance(val, float/int)."""
    ix = ctx.ix
    cands = []
    for f in ix.functions.values():
        if f.module != GEN or f.cls is not None:
            continue
        for st in iter_stmts(f.body):
            if isinstance(st, ast.If):
                ts = {d for n in ast.walk(st.test) if isinstance(n, ast.Call) and isinstance(n.func, ast.Name) and n.func.id == "isinstance" and len(n.args) == 2
                      for d in ([e.id for e in n.args[1].elts if isinstance(e, ast.Name)] if isinstance(n.args[1], ast.Tuple) else [n.args[1].id] if isinstance(n.args[1], ast.Name) else [])}
                # the branch that prints (a type test that only normalises the
                # value, with no return in its body, is not a printer)
                if "float" in ts and any(isinstance(s, ast.Return) and s.value is not None for s in iter_stmts(st.body)):
                    cands.append((f, st))
    if not cands:
        raise AnalysisError("C01.1: no generator function dispatches on isinstance(val, float) (value printer vanished)")
    return cands


def run(ctx, rep):
    ix, T = ctx.ix, ctx.typer
    from .common import check_memo_numeric_keys
    check_memo_numeric_keys(ctx, rep, "C01.9")
    from .common import check_number_finite
    check_number_finite(ctx, rep, "C01.10")
    from .common import check_falsy_zero
    check_falsy_zero(ctx, rep, "C01.7", ['jaqalpaq.generator'], floor_positions=5)
    # C01.19: the generator writes a let constant by name; int()/float() of a count, index or argument that may be a
    # constant (Constant has __int__/__float__) decides on, or writes, its declared value instead
    from .common import check_coercion
    check_coercion(ctx, rep, "C01.19", {"jaqalpaq.generator.generator"})
    from .c18 import fill_order
    fill_order(ctx, rep, "C01.8", extra=" (the generator prints a gate's arguments as parameters.values(), positionally)")
    for a in SLY_ASSUMPTIONS:
        rep.assume(a)
    lx = extract_lexer(ix)
    rep.analysed["lexer_rules"] = [(r.name, r.pattern, "ignored" if r.ignored else "") for r in lx.rules]
    automata = {}
    undecided_tokens = {}
    for r in lx.rules:
        try:
            automata[r.name] = lang(r.pattern)
        except Unsupported as ex:
            undecided_tokens[r.name] = str(ex)
    for need in ("NUMBER", "INT", "IDENTIFIER"):
        if lx.rule(need) is None:
            raise AnalysisError(f"C01: lexer has no {need} rule (anchor vanished)")

    # ------------------------------------------------------------ C01.1
    rep.rule("C01.1", "number printer language is included in the number token language; priority, inverse conversion, losslessness", floor=4)
    rep.assume("repr() of a finite float is `-?D+.D+` for 1e-4 <= |x| < 1e16 and `-?D[.D+]e[-+]DD+` otherwise (CPython float_repr_style='short'); repr of an int is `-?D+`")
    printers = find_value_printer(ctx)
    for f, ifst in printers:
        # the value being tested
        tested = None
        for n in ast.walk(ifst.test):
            if isinstance(n, ast.Call) and isinstance(n.func, ast.Name) and n.func.id == "isinstance" and isinstance(n.args[0], ast.Name):
                ts = ast.unparse(n.args[1])
                if "float" in ts or "int" in ts:
                    tested = n.args[0].id
        rets = [s for s in iter_stmts(ifst.body) if isinstance(s, ast.Return) and s.value is not None]
        cons = construct_of(f, "number-format")
        loc = f"{f.path}:{ifst.lineno}"
        if not rets or tested is None:
            rep.undecided("C01.1", cons, "numeric branch has no return", loc)
            continue
        fl = FuncFlow(ix, T, f)
        expr = rets[0].value
        fm = None
        if isinstance(expr, ast.Name):
            d = fl.defs.get(expr.id, [])
            fm = dotted_exponent_idiom(ifst, expr.id, d, tested)
            expr = d[0] if d else expr
        if fm is None:
            fm = partition_idiom(ifst, expr, tested)
        if fm is None:
            fm = formatter_language(expr, tested)
        if fm is None:
            rep.undecided("C01.1", cons, f"formatter not recognised: {ast.unparse(expr)}", loc)
            continue
        kind, fre, ire, lossless = fm
        rep.analysed["number_formatter"] = {"function": f.qualname, "expr": ast.unparse(expr), "kind": kind}
        if "NUMBER" in undecided_tokens or "INT" in undecided_tokens:
            rep.undecided("C01.1", cons, f"token pattern outside the supported fragment: {undecided_tokens}", loc)
            continue
        P_f, P_i = lang(fre), lang(ire)
        NUM, INT = automata["NUMBER"], automata["INT"]
        # (a) inclusion
        w = P_f.included_in(NUM)
        if w is not None:
            rep.violation("C01.1", cons + ":float", f"the printer ({kind}) can print the float literal {w!r}, which the NUMBER pattern {lx.rule('NUMBER').pattern!r} does not match: the generated text does not parse back", loc, witness=w)
        else:
            rep.ok("C01.1", cons + ":float", f"L({kind} of a float) is included in L(NUMBER)", loc)
        w = P_i.included_in(INT)
        if w is not None:
            # an int printed in a float format is read back as a float (or not at all)
            w2 = P_i.included_in(INT.union(NUM))
            rep.violation("C01.1", cons + ":int", f"the printer ({kind}) prints an int as {w!r}, which is not an INT token: " + ("it does not lex as a number at all" if w2 is not None else "it is read back as a float, so the value's type changes"), loc, witness=w)
        else:
            rep.ok("C01.1", cons + ":int", f"L({kind} of an int) is included in L(INT)", loc)
        # (b) priority: no earlier rule matches a non-empty prefix of a printed literal
        for P, tok, label in ((P_f, "NUMBER", "float"), (P_i, "INT", "int")):
            idx = lx.index_of(tok)
            bad = None
            for r in lx.rules[:idx]:
                if r.name in automata:
                    w = P.nonempty_prefixes_matching(automata[r.name])
                    if w is not None:
                        bad = (r, w)
                        break
            c2 = f"{cons}:{label}:priority"
            if bad:
                r, w = bad
                rep.violation("C01.1", c2, f"the earlier lexer rule {r.name} matches a prefix of the printed literal {w!r}: it does not lex as one {tok} token", f"{lx.cls.path}:{r.lineno}", witness=w)
            else:
                rep.ok("C01.1", c2, f"no rule ordered before {tok} matches a prefix of a printed {label}")
        # (c) inverse conversion
        for tok, want in (("NUMBER", "float"), ("INT", "int")):
            c2 = f"{cls_construct(ix, lx.cls.qualname)}:{tok}:conversion"
            r = lx.rule(tok)
            if r.conversion == want:
                rep.ok("C01.1", c2, f"{tok} tokens are converted with {want}()")
            else:
                rep.violation("C01.1", c2, f"{tok} tokens are converted with {r.conversion!r}, not {want}(): the printed literal is not read back as the same value", f"{lx.cls.path}:{r.lineno}")
        # (d) lossless
        c2 = cons + ":lossless"
        if lossless:
            rep.ok("C01.1", c2, f"{kind} round-trips every finite float")
        else:
            rep.violation("C01.1", c2, f"the formatter {kind} does not print enough digits to read back the same float (e.g. 0.1+0.2)", loc, witness="0.30000000000000004")
        # deterministic patterns: priority matching == longest matching
        for tok in ("NUMBER", "INT"):
            if not glushkov_deterministic(lx.rule(tok).pattern):
                rep.undecided("C01.1", f"{cls_construct(ix, lx.cls.qualname)}:{tok}:deterministic", "pattern is not one-unambiguous; priority matching may differ from the regular language")

    # ------------------------------------------------------------ C01.2
    rep.rule("C01.2", "identifier languages agree; qubit-reference template", floor=2)
    idm = ix.modules.get("jaqalpaq.core.identifier")
    pat = None
    if idm is not None:
        for st in idm.tree.body:
            if isinstance(st, ast.Assign) and isinstance(st.value, ast.Call) and st.value.args and isinstance(st.value.args[0], ast.Constant) and "compile" in ast.unparse(st.value.func):
                pat = st.value.args[0].value
    cons = "core.identifier:valid_identifier_regex"
    if pat is None:
        rep.undecided("C01.2", cons, "valid_identifier_regex not found")
    else:
        try:
            V = lang(pat)
            w = V.included_in(automata["IDENTIFIER"])
            if w is not None:
                rep.violation("C01.2", cons, f"{w!r} is a valid identifier for the builder API but not an IDENTIFIER token: a circuit built with it generates text that does not parse back", witness=w)
            else:
                rep.ok("C01.2", cons, "L(valid_identifier_regex) is included in L(IDENTIFIER)")
        except Unsupported as ex:
            rep.undecided("C01.2", cons, str(ex))
    # reserved words (informational: the builder path does not validate names at all)
    um = ix.modules.get("jaqalpaq.utilities")
    reserved = set()
    if um is not None:
        for st in um.tree.body:
            if isinstance(st, ast.Assign) and isinstance(st.value, (ast.List, ast.Tuple, ast.Set)):
                reserved |= {e.value for e in st.value.elts if isinstance(e, ast.Constant)}
    lex_kw = {v for (t, v) in lx.remap}
    if lex_kw - reserved:
        rep.info("C01.2", "utilities:RESERVED_WORDS", f"the lexer reserves {sorted(lex_kw - reserved)} but RESERVED_WORDS does not (names are not validated on the builder path; informational)")
    # make_item_name template
    mi = ix.functions.get("jaqalpaq.core.parameter.make_item_name")
    cons = "core.parameter:make_item_name:template"
    if mi is None:
        rep.undecided("C01.2", cons, "make_item_name not found")
    else:
        rets = [s for s in iter_stmts(mi.body) if isinstance(s, ast.Return)]
        v = rets[0].value if rets else None
        ok = False
        if isinstance(v, ast.JoinedStr):
            parts = [("lit", x.value) if isinstance(x, ast.Constant) else ("hole", ast.unparse(x.value)) for x in v.values]
            shape = [p if k == "lit" else "{}" for k, p in parts]
            ok = shape == ["{}", "[", "{}", "]"] and parts[0][1].endswith(".name") and parts[2][1] == mi.params[1] and all(x.conversion == -1 and x.format_spec is None for x in v.values if isinstance(x, ast.FormattedValue))
        if ok:
            # the index hole may hold a Constant or a Parameter: both must print their name
            lacking = []
            for vc in (CONSTANT, PARAMETER):
                sm = ix.find_method(vc, "__str__")
                good = sm is not None and any(isinstance(s_, ast.Return) and isinstance(s_.value, ast.Attribute) and s_.value.attr in ("name", "_name") for s_ in iter_stmts(sm.body))
                if not good:
                    lacking.append(ix.classes[vc].name)
            if lacking:
                rep.violation("C01.2", cons, f"the index hole of {ast.unparse(v)} is formatted with str(), but an index may be a {' or '.join(lacking)} object and {', '.join(lacking)} has no __str__ returning its name: `macro m k {{ foo r[k] }}` is printed as `foo r[Parameter('k', ParamType.NONE)]`", mi.loc(), witness="register r[2]\nmacro m k { foo r[k] }")
            else:
                rep.ok("C01.2", cons, "name[index] with str() of the index: tokenises as IDENTIFIER '[' INT|IDENTIFIER ']'", mi.loc())
        elif v is None or not isinstance(v, ast.JoinedStr):
            rep.undecided("C01.2", cons, "template not an f-string", mi.loc())
        else:
            rep.violation("C01.2", cons, f"qubit reference template {ast.unparse(v)} is not `name[index]`: printed gate arguments do not parse back as array items", mi.loc())

    # ------------------------------------------------------------ C01.3
    rep.rule("C01.3", "the printer reads every semantic IR field that has a textual representation", floor=25)
    entry = f"{GEN}.generate_jaqal_program"
    tr = Transformer.from_entry(ix, T, [entry], name="generator")
    rep.analysed["generator_functions"] = sorted(tr.qualnames)
    check_field_flow(ctx, rep, "C01.3", tr, None, [
        (CIRCUIT, "usepulses", "required", R),
        (CIRCUIT, "constants", "required", R),
        (CIRCUIT, "registers", "required", R),
        (CIRCUIT, "macros", "required", R),
        (CIRCUIT, "body", "required", R),
        (CIRCUIT, "native_gates", "exempt", "the gate table has no textual representation (it comes from the usepulses import)"),
        (BLOCK, "parallel", "required", R),
        (BLOCK, "subcircuit", "required", R),
        (BLOCK, "iterations", "required", R),
        (BLOCK, "statements", "required", R),
        (LOOP, "iterations", "required", R),
        (LOOP, "statements", "required", R),
        (GATE, "gate_def", "required", R),
        (GATE, "parameters", "required", R),
        (MACRO, "name", "required", R),
        (MACRO, "parameters", "required", R),
        (MACRO, "body", "required", R),
        (MACRO, "_ideal_unitary", "exempt", "macros have no unitary"),
        (REGISTER, "name", "required", R),
        (REGISTER, "_size", "required", R),
        (REGISTER, "alias_from", "required", R),
        (REGISTER, "alias_slice", "required", R),
        (QUBIT, "name", "required", R),
        (QUBIT, "alias_from", "required", R),
        (QUBIT, "alias_index", "required", R),
        (CONSTANT, "name", "required", R),
        (CONSTANT, "value", "required", R),
        (CONSTANT, "kind", "exempt", "derived from the value"),
        (USEPULSES, "module", "required", R),
        (USEPULSES, "names", "exempt", "only `*` is supported; asserted by the generator"),
        (USEPULSES, "_import_path", "exempt", "environment, not program text"),
    ], ctor=False, owner="generator.generator")
    # slice parts
    for part in ("start", "stop", "step"):
        cons = f"generator.generator:slice.{part}"
        found = False
        for f in tr.funcs:
            fl = tr.flows[f.qualname]
            for n in walk_no_nested(f.node):
                if isinstance(n, ast.Attribute) and n.attr == part and fl.is_relevant(n):
                    found = True
        if found:
            rep.ok("C01.3", cons, "read in a position that reaches the text")
        else:
            rep.violation("C01.3", cons, f"the {part} of an alias slice is never printed: `map a r[0:4:2]` loses its {part}")

    # each part is printed in its own position of `start:stop[:step]`
    for f in tr.funcs:
        if not any(isinstance(n, ast.Attribute) and n.attr == "step" for n in walk_no_nested(f.node)):
            continue
        fl = tr.flows[f.qualname]
        for n in walk_no_nested(f.node):
            if isinstance(n, ast.BinOp) and isinstance(n.op, ast.Mod) and isinstance(n.left, ast.Constant) and isinstance(n.left.value, str) and ":" in n.left.value and isinstance(n.right, ast.Tuple):
                want = ["start", "stop", "step"][: len(n.right.elts)]
                cons = construct_of(f, f"slice-positions:{len(want)}")
                bad = None
                for pos, (elt, part) in enumerate(zip(n.right.elts, want)):
                    ids, roots = fl.depends(elt)
                    exprs = [elt] + list(roots)
                    parts = {m.attr for e in exprs for m in ast.walk(e) if isinstance(m, ast.Attribute) and m.attr in ("start", "stop", "step")}
                    if parts and part not in parts:
                        bad = (pos, part, parts)
                    elif parts - {part}:
                        bad = (pos, part, parts)
                if bad:
                    rep.violation("C01.3", cons, f"position {bad[0]} of `{n.left.value}` should print the slice's {bad[1]} but is computed from {sorted(bad[2])}: `map a r[1:4]` is written with the wrong bound", f"{f.path}:{n.lineno}")
                else:
                    rep.ok("C01.3", cons, f"`{n.left.value}` prints {', '.join(want)} in this order", f"{f.path}:{n.lineno}")

    # ------------------------------------------------------------ C01.5
    rep.rule("C01.5", "IR-valued holes go through the value printer (or the class prints its name)", floor=0)
    printer_funcs = {f.qualname for f, _ in printers}
    for f in tr.funcs:
        if f.qualname in printer_funcs:
            continue
        fl = tr.flows[f.qualname]
        for n in walk_no_nested(f.node):
            target = None
            if isinstance(n, ast.FormattedValue):
                target = n.value
            elif isinstance(n, ast.Call) and isinstance(n.func, ast.Name) and n.func.id in ("str", "repr") and len(n.args) == 1:
                target = n.args[0]
            elif isinstance(n, ast.BinOp) and isinstance(n.op, ast.Mod) and isinstance(n.left, ast.Constant) and isinstance(n.left.value, str):
                elts = n.right.elts if isinstance(n.right, ast.Tuple) else [n.right]
                for e in elts:
                    if isinstance(e, ast.Attribute):
                        target = e
            if not isinstance(target, ast.Attribute):
                continue
            rt = {t for t in T.types_of(target.value) if t in ix.classes}
            hits = [(k, m) for (k, m) in VALUE_POSITIONS if m == target.attr and (k in rt or any(k in ix.mro(t) for t in rt))]
            if not hits:
                continue
            k, m = hits[0]
            cons = construct_of(f, f"{ix.classes[k].name}.{m}:direct-format")
            loc = f"{f.path}:{n.lineno}"
            missing = []
            for vc in (CONSTANT, PARAMETER):
                sm = ix.find_method(vc, "__str__")
                ok = False
                if sm is not None:
                    for s in iter_stmts(sm.body):
                        if isinstance(s, ast.Return) and isinstance(s.value, ast.Attribute) and s.value.attr in ("name", "_name"):
                            ok = True
                if not ok:
                    missing.append(ix.classes[vc].name)
            if missing:
                rep.violation("C01.5", cons, f"{ix.classes[k].name}.{m} may hold a {' or '.join(missing)} object but is interpolated directly; {', '.join(missing)} has no __str__ returning its name, so its repr is printed (e.g. `subcircuit Parameter('n', ParamType.NONE) {{`)", loc, witness="macro m n { subcircuit n { g } }")
            else:
                rep.ok("C01.5", cons, "every class the field may hold prints its name", loc)


    # ------------------------------------------------------------ C01.6
    rep.rule("C01.6", "a constant's value is printed only by the let statement; every other position prints names / stored fields untransformed", floor=3)
    let_printers = set()
    for f in tr.funcs:
        env = T.final_env.get(f.qualname, {})
        if any(CONSTANT in env.get(p_, ()) for p_ in f.all_params) and any(isinstance(n, ast.Constant) and isinstance(n.value, str) and n.value.startswith("let ") for n in walk_no_nested(f.node)):
            let_printers.add(f.qualname)
    if not let_printers:
        rep.undecided("C01.6", "generator.generator:let-printer", "no function prints `let` statements")
    for f in tr.funcs:
        reads = []
        for n in walk_no_nested(f.node):
            if isinstance(n, ast.Attribute) and n.attr == "value" and isinstance(n.ctx, ast.Load):
                reads.append(n)
            if isinstance(n, ast.Call) and isinstance(n.func, ast.Name) and n.func.id == "getattr" and len(n.args) >= 2 and isinstance(n.args[1], ast.Constant) and n.args[1].value in ("value", "_value"):
                reads.append(n)
            if isinstance(n, ast.Call) and isinstance(n.func, ast.Attribute) and n.func.attr == "resolve_value":
                reads.append(n)
        cons = construct_of(f, "reads-constant-value")
        if f.qualname in let_printers:
            if reads:
                rep.ok("C01.6", cons, "the let statement prints the constant's value", f.loc())
            continue
        if reads:
            rep.violation("C01.6", cons, f"`{ast.unparse(reads[0])}` consults the value of a constant outside the let statement: the generated text depends on the value instead of the name, so the reference to the constant is lost or the statement changes when the value does (e.g. `let shots 1; subcircuit shots {{..}}`)", f"{f.path}:{reads[0].lineno}")
    rep.ok("C01.6", "generator.generator:value-reads", f"{len(tr.funcs)} generator functions scanned for reads of a constant's value")
    # stored fields reach the printer untransformed: the property the printer reads returns the field itself
    for k, m in sorted(VALUE_POSITIONS):
        kname = ix.classes[k].name
        cons = f"{kname}.{m}:passthrough"
        getter = ix.find_method(k, m)
        if getter is None or not getter.is_property:
            continue
        flds = tr.member_fields(k, m) - {"*"}
        seen_f = set()

        def passthrough(fi, depth=0):
            if fi is None or fi.qualname in seen_f or depth > 3:
                return False
            seen_f.add(fi.qualname)
            s0 = fi.params[0]
            for st in iter_stmts(fi.body):
                if isinstance(st, ast.Return) and st.value is not None:
                    v = st.value
                    if isinstance(v, ast.Attribute) and isinstance(v.value, ast.Name) and v.value.id == s0 and v.attr in flds:
                        return True
                    if isinstance(v, ast.Call) and isinstance(v.func, ast.Attribute) and isinstance(v.func.value, ast.Name) and v.func.value.id == s0:
                        if passthrough(ix.find_method(k, v.func.attr), depth + 1):
                            return True
            return False

        if passthrough(getter):
            rep.ok("C01.6", cons, "the property returns the stored field itself", getter.loc())
        else:
            rep.violation("C01.6", cons, f"{kname}.{m} no longer returns the stored field: a let-constant stored there is resolved to its value before the printer sees it, so `register q[n]` is printed as `register q[3]`", getter.loc())


    # ------------------------------------------------------------ C01.4
    run_templates(ctx, rep, lx, automata)


SHAPE_ASSUMPTIONS = [
    "A1: a subcircuit block is sequential (Builder.build_subcircuit_block never sets parallel)",
    "A2: the body of a loop or of a macro is a plain (non-subcircuit) sequential or parallel block (grammar: gate_block)",
    "A3: inside a parallel block the member blocks are sequential; inside a sequential block they are parallel or subcircuit blocks",
    "A4: the members of a parallel block are gates and sequential blocks, never loops",
]


def run_templates(ctx, rep, lx, automata):
    """C01.4: the keyword/bracket/separator templates of the generator are derivable from the parser's grammar."""
    from ..templates import TemplateExtractor, LiteralTokenizer, to_grammar, Earley, Unmodelled
    from ..lexer import extract_parser
    from ..grammar import Grammar
    from .c02 import never_returning_methods, _never_returns

    ix, T = ctx.ix, ctx.typer
    n = 10 if ctx.tier == "quick" else 12
    rep.rule("C01.4", f"every token string the generator's templates can emit (IR shape model A1-A4, length <= {n}) is derivable from the parser's grammar", floor=1)
    for a in SHAPE_ASSUMPTIONS:
        rep.assume("generator templates, IR shape model " + a)
    printers = find_value_printer(ctx)
    te = TemplateExtractor(ix, GEN, printers[0][0].qualname)
    for name, f in te.funcs.items():
        env = T.final_env.get(f.qualname, {})
        ts = env.get(f.params[0], frozenset()) if f.params else frozenset()
        if BLOCK in ts and any(isinstance(m, ast.Attribute) and m.attr == "subcircuit" for m in ast.walk(f.node)):
            te.kinds[name] = "block"
            te.block_printer = name
        elif LOOP in ts:
            te.kinds[name] = "loop"
        elif MACRO in ts:
            te.kinds[name] = "macro"
    entry = "generate_jaqal_program"
    if entry not in te.funcs:
        raise AnalysisError("C01.4: generate_jaqal_program vanished")
    cons = "generator.generator:templates"
    try:
        templates = te.extract_all(entry)
        if te.unmodelled:
            for name, why in sorted(te.unmodelled.items()):
                rep.undecided("C01.4", f"generator.generator:{name}:template", f"string building not modelled: {why}")
            return
        tok = LiteralTokenizer(lx, automata)
        holes = {
            "IDENT": [["IDENTIFIER"]],
            "MODULE": [["IDENTIFIER"], ["DOTIDENTIFIER"]],
            "NUM": [["NUMBER"], ["INT"]],
            "INTLIKE": [["INT"], ["IDENTIFIER"]],
            "VALUE": [["IDENTIFIER"], ["IDENTIFIER", '"["', "INT", '"]"'], ["IDENTIFIER", '"["', "IDENTIFIER", '"]"'], ["NUMBER"], ["INT"]],
        }
        G0 = to_grammar(templates, tok, holes, entry)
        for a_, b_ in getattr(G0, "glued", [])[:3]:
            rep.violation("C01.4", "generator.generator:templates:glued", f"the template piece {a_!r} is followed directly by {b_!r} without a separating blank: the two lex as one token", "")
        G = G0.trim()
    except Unmodelled as ex:
        rep.undecided("C01.4", cons, f"string building not modelled: {ex}")
        return
    pm = extract_parser(ix)
    noret = never_returning_methods(ix, pm.cls)
    prods = {}
    for p in pm.productions:
        if _never_returns(p.func, noret):
            continue
        prods.setdefault(p.lhs, []).append(tuple(p.rhs))
    for p in pm.productions:
        prods.setdefault(p.lhs, [])
    P = Grammar(prods, pm.start).trim()
    E = Earley(P)
    words, alpha = G.enumerate(n)
    rep.analysed["template_functions"] = sorted(templates)
    rep.analysed["template_strings_checked"] = len(words)
    bad = []
    for w in words:
        ws = [alpha[b] for b in w]
        if not E.accepts(ws):
            bad.append(ws)
    if not words:
        raise AnalysisError("C01.4: the template grammar derives no string")
    if bad:
        bad.sort(key=len)
        wtxt = " ".join(x.strip('"') if x.startswith('"') else x for x in bad[0])
        rep.violation("C01.4", cons, f"the generator can emit the token sequence `{wtxt}`, which the parser's grammar does not derive ({len(bad)} of {len(words)} template strings of length <= {n}): generated text is rejected by the parser", "", witness=wtxt)
    else:
        rep.ok("C01.4", cons, f"all {len(words)} template token strings of length <= {n} are derivable from the parser's grammar")
