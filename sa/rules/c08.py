"""C08 -- one readout per subcircuit visit, in order (narrow structural claim)."""

from __future__ import annotations

import ast

from ..index import AnalysisError
from ..cfg import CFG, walk_no_nested, iter_stmts
from ..fieldflow import FuncFlow, names_in
from .common import construct_of, cls_construct

TRACE_VISITOR = "jaqalpaq.core.algorithm.walkers.TraceVisitor"
READOUT = "jaqalpaq.core.result.Readout"


def effect_summary(ctx, fi):
    """Summary of a process_trace implementation."""
    ix, T = ctx.ix, ctx.typer
    selfn = fi.params[0]
    fl = FuncFlow(ix, T, fi)
    s = {"selects": None, "readouts": 0, "readout_index_arg": False, "accept_on_selected": False, "appends": [], "increments": [], "in_loop": False}
    for st in iter_stmts(fi.body):
        if isinstance(st, (ast.For, ast.While)):
            s["in_loop"] = True
    selected_var = None
    for var, exprs in fl.defs.items():
        for e in exprs:
            if isinstance(e, ast.Subscript) and isinstance(e.value, ast.Attribute) and isinstance(e.value.value, ast.Name) and e.value.value.id == selfn and isinstance(e.slice, ast.Attribute) and e.slice.attr == "index":
                s["selects"] = f"self.{e.value.attr}[self.index]"
                selected_var = var
    readout_vars = set()
    for cs in T.callsites(fi):
        if cs.kind == "constructor" and cs.classes and cs.classes[0] == READOUT and isinstance(cs.node, ast.Call):
            s["readouts"] += 1
            args = list(cs.node.args) + [k.value for k in cs.node.keywords]
            if len(args) >= 2 and isinstance(args[1], ast.Attribute) and args[1].attr == "readout_index":
                s["readout_index_arg"] = True
            for var, exprs in fl.defs.items():
                if any(e is cs.node for e in exprs):
                    readout_vars.add(var)
    for n in walk_no_nested(fi.node):
        if isinstance(n, ast.Call) and isinstance(n.func, ast.Attribute):
            if n.func.attr == "accept_readout" and isinstance(n.func.value, ast.Name) and n.func.value.id == selected_var and n.args and isinstance(n.args[0], ast.Name) and n.args[0].id in readout_vars:
                s["accept_on_selected"] = True
            if n.func.attr == "append" and n.args and isinstance(n.args[0], ast.Name) and n.args[0].id in readout_vars and isinstance(n.func.value, ast.Attribute):
                s["appends"].append(n.func.value.attr)
        if isinstance(n, ast.AugAssign) and isinstance(n.target, ast.Attribute) and isinstance(n.target.value, ast.Name) and n.target.value.id == selfn:
            s["increments"].append((n.target.attr, type(n.op).__name__, ast.unparse(n.value)))
    return s


def run(ctx, rep):
    ix, T = ctx.ix, ctx.typer
    tv = ix.cls(TRACE_VISITOR)
    from .common import check_zero_trip
    check_zero_trip(ctx, rep, "C08.4", ("jaqalpaq.emulator.pygsti", "jaqalpaq.ipc"))
    discover_guards(ctx, rep)
    rep.assume("termination and visit order of the trace walker are not decided (DESIGN section 5)")

    # ------------------------------------------------------------ C08.1
    rep.rule("C08.1", "every process_trace implementation selects self.subcircuits[self.index], builds exactly one Readout with the running readout index, hands it to that subcircuit, records it once and advances the readout index by one", floor=2)
    impls = []
    for c in ix.subclasses(TRACE_VISITOR):
        fi = ix.classes[c].methods.get("process_trace")
        if fi is not None:
            impls.append(fi)
    if len(impls) < 1:
        raise AnalysisError("C08.1: no concrete process_trace implementation")
    rep.analysed["process_trace_implementations"] = [f.qualname for f in impls]
    for fi in impls:
        s = effect_summary(ctx, fi)
        cons = construct_of(fi, "effects")
        problems = []
        if s["selects"] is None:
            problems.append("does not select the subcircuit with self.index")
        if s["readouts"] != 1:
            problems.append(f"constructs {s['readouts']} Readout objects instead of one")
        if not s["readout_index_arg"]:
            problems.append("the Readout is not numbered with self.readout_index")
        if not s["accept_on_selected"]:
            problems.append("the readout is not passed to accept_readout() of the selected subcircuit")
        if len(s["appends"]) != 1:
            problems.append(f"the readout is appended to {len(s['appends'])} result lists instead of one")
        incs = [i for i in s["increments"] if i[0] == "readout_index"]
        if len(incs) != 1 or incs[0][1] != "Add" or incs[0][2] != "1":
            problems.append("self.readout_index is not advanced by exactly 1")
        if s["in_loop"]:
            problems.append("contains a loop (more than one readout per visit)")
        if problems:
            rep.violation("C08.1", cons, "; ".join(problems), fi.loc())
        else:
            rep.ok("C08.1", cons, f"{s['selects']}; one Readout(.., self.readout_index); accept_readout; append to self.{s['appends'][0]}; readout_index += 1", fi.loc())
    # the walkers that call process_trace must not override the base block handler's bookkeeping
    for c in ix.subclasses(TRACE_VISITOR):
        for m in ("visit_BlockStatement", "visit_LoopStatement"):
            if m in ix.classes[c].methods:
                rep.undecided("C08.1", cls_construct(ix, c, m), "a subclass overrides the base walker's handler; its bookkeeping is not analysed")

    # ------------------------------------------------------------ C08.3
    rep.rule("C08.3", "the base walker advances its trace index on the same path as each process_trace call", floor=1)
    vb = tv.methods.get("visit_BlockStatement")
    if vb is None:
        raise AnalysisError("C08.3: TraceVisitor.visit_BlockStatement vanished")
    cfg = CFG(vb.body)
    calls = [st for st in iter_stmts(vb.body) if isinstance(st, ast.Expr) and isinstance(st.value, ast.Call) and isinstance(st.value.func, ast.Attribute) and st.value.func.attr == "process_trace"]
    incs = [st for st in iter_stmts(vb.body) if isinstance(st, ast.AugAssign) and isinstance(st.target, ast.Attribute) and st.target.attr == "index" and isinstance(st.op, ast.Add) and isinstance(st.value, ast.Constant) and st.value.value == 1]
    cons = construct_of(vb, "index-advance")
    if not calls:
        rep.violation("C08.3", cons, "the walker never calls process_trace: no readout is produced", vb.loc())
    elif not incs:
        rep.violation("C08.3", cons, "self.index is never advanced by one after process_trace: the same subcircuit receives every readout", vb.loc())
    else:
        ok = True
        for c in calls:
            cn = cfg.node(c)
            inc_nodes = [cfg.node(i) for i in incs]
            # from the call, every path to the exit / loop head / another call passes an increment
            reach = cfg.reachable_from(cn, removed_nodes=inc_nodes)
            later_reads = [cfg.node(st) for st in iter_stmts(vb.body) if cfg.node(st) in reach and cfg.node(st) != cn and any(isinstance(n, ast.Attribute) and n.attr == "index" and isinstance(n.ctx, ast.Load) for n in ast.walk(st) if not isinstance(st, (ast.If, ast.While, ast.For)) or n in ast.walk(getattr(st, "test", st)))]
            if cfg.exit in reach or later_reads:
                ok = False
        n_calls_between = len(calls)
        if ok and len(incs) == len(calls):
            rep.ok("C08.3", cons, "process_trace(); self.index += 1 on every path", vb.loc())
        else:
            rep.violation("C08.3", cons, "there is a path from a process_trace() call to the next use of self.index (or to the exit) that does not advance self.index by one: readouts are attributed to the wrong subcircuit", vb.loc())
    # completion: after the last trace the objective is cleared (the comparison is an equality with the number of traces)
    cons = construct_of(vb, "completion-test")
    comp = [st for st in iter_stmts(vb.body) if isinstance(st, ast.If) and any(isinstance(m, ast.Call) and isinstance(m.func, ast.Name) and m.func.id == "len" and m.args and isinstance(m.args[0], ast.Attribute) and m.args[0].attr == "traces" for m in ast.walk(st.test))
            and any(isinstance(m, ast.Attribute) and m.attr == "index" for m in ast.walk(st.test))]
    if not comp:
        rep.undecided("C08.3", cons, "no test of the trace index against the number of traces", vb.loc())
    else:
        t = comp[0].test
        clears = any(isinstance(a, ast.Assign) and any(isinstance(tg, ast.Attribute) and tg.attr == "objective" for tg in a.targets) and isinstance(a.value, ast.Constant) and a.value.value is None for a in ast.walk(ast.Module(body=comp[0].body, type_ignores=[])))
        if isinstance(t, ast.Compare) and len(t.ops) == 1 and isinstance(t.ops[0], ast.Eq) and clears:
            rep.ok("C08.3", cons, "`index == len(traces)` clears the objective and stops the walk", f"{vb.path}:{comp[0].lineno}")
        else:
            rep.violation("C08.3", cons, f"`{ast.unparse(t)}`: the walk is stopped while traces remain (or continues past the last one and indexes beyond the trace list)", f"{vb.path}:{comp[0].lineno}")
    # loop handler restores the walk state for each iteration
    vl = tv.methods.get("visit_LoopStatement")
    cons = construct_of(vl, "loop-repeats") if vl else cls_construct(ix, TRACE_VISITOR, "loop-repeats")
    if vl is None:
        rep.violation("C08.3", cons, "the trace walker has no loop handler: loops are not repeated", tv.loc())
    else:
        loops = [st for st in iter_stmts(vl.body) if isinstance(st, ast.For)]
        rng = any(isinstance(st.iter, ast.Call) and isinstance(st.iter.func, ast.Name) and st.iter.func.id == "range" and any(isinstance(n, ast.Attribute) and n.attr == "iterations" for n in ast.walk(st.iter)) for st in loops)
        restores = any(isinstance(s, ast.Assign) and isinstance(s.targets[0], ast.Attribute) and s.targets[0].attr == "index" for st in loops for s in st.body)
        visits = any(isinstance(n, ast.Call) and isinstance(n.func, ast.Attribute) and n.func.attr == "visit" for st in loops for s in st.body for n in ast.walk(s))
        if rng and restores and visits:
            rep.ok("C08.3", cons, "for _ in range(loop.iterations): restore walk state; visit body", vl.loc())
        else:
            rep.violation("C08.3", cons, "the loop handler does not repeat the body loop.iterations times with the walk state restored at each iteration", vl.loc())

    # ------------------------------------------------------------ C08.5
    rep.rule("C08.5", "the walker decides 'the next trace lies inside this node' by comparing its WHOLE address with the prefix of the objective of the same length (block handler and zero-count loop branch alike)", floor=2)

    def resolve_local(fn, e, depth=0):
        """Follow single-assignment local names (depth = len(address))."""
        if isinstance(e, ast.Name) and depth < 4:
            defs = [st.value for st in iter_stmts(fn.body) if isinstance(st, ast.Assign) and any(isinstance(t, ast.Name) and t.id == e.id for t in st.targets)]
            if len(defs) == 1:
                return resolve_local(fn, defs[0], depth + 1)
        return e

    def is_address(fn, e):
        e = resolve_local(fn, e)
        return (isinstance(e, ast.Attribute) and e.attr == "address") or (isinstance(e, ast.Name) and e.id == "address") or (
            isinstance(e, ast.Subscript) and isinstance(e.slice, ast.Slice) and e.slice.lower is None and e.slice.upper is None and is_address(fn, e.value))

    def mentions(e, attr):
        return any((isinstance(m, ast.Attribute) and m.attr == attr) or (isinstance(m, ast.Name) and m.id == attr) for m in ast.walk(e))

    def prefix_test(fn, c):
        """'ok' | 'partial: why' | None for a Compare node."""
        if not (isinstance(c, ast.Compare) and len(c.ops) == 1 and isinstance(c.ops[0], (ast.Eq, ast.NotEq))):
            return None
        sides = [c.left, c.comparators[0]]
        obj = [x for x in sides if mentions(resolve_local(fn, x), "objective")]
        adr = [x for x in sides if x not in obj and mentions(resolve_local(fn, x), "address")]
        if len(obj) != 1 or len(adr) != 1:
            return None
        o, a = resolve_local(fn, obj[0]), adr[0]

        def numeric(e):
            e = resolve_local(fn, e)
            return isinstance(e, (ast.BinOp, ast.Constant)) or (isinstance(e, ast.Call) and isinstance(e.func, ast.Name) and e.func.id == "len")
        if numeric(o) or numeric(a):
            return None  # a comparison of lengths, not of addresses
        if not is_address(fn, a):
            return f"partial: the address side is `{ast.unparse(a)}`, not the whole address"
        if not (isinstance(o, ast.Subscript) and isinstance(o.slice, ast.Slice)):
            return f"partial: the objective side is `{ast.unparse(o)}`, not a prefix slice"
        sl = o.slice
        up = resolve_local(fn, sl.upper) if sl.upper is not None else None
        ok_up = isinstance(up, ast.Call) and isinstance(up.func, ast.Name) and up.func.id == "len" and up.args and is_address(fn, up.args[0])
        if sl.lower is not None or sl.step is not None or not ok_up:
            return f"partial: the objective is sliced `{ast.unparse(o)}`, which is not its prefix of the address's length"
        return "ok"

    vb5 = tv.methods.get("visit_BlockStatement")
    sites = []
    for fn in (vb5, vl):
        if fn is None:
            continue
        for n in walk_no_nested(fn.node):
            r = prefix_test(fn, n)
            if r is not None and not isinstance(fl_parent_assert(fn, n), ast.Assert):
                sites.append((fn, n, r))
    for fn in (vb5, vl):
        if fn is None:
            continue
        cons = construct_of(fn, "inside-test")
        mine = [(n, r) for f_, n, r in sites if f_ is fn]
        if not mine:
            rep.undecided("C08.5", cons, "no comparison between the walker's address and the objective recognised", fn.loc())
            continue
        bad = [(n, r) for n, r in mine if r != "ok"]
        # polarity: the block handler LEAVES (returns) when the objective is not below it; the zero-count branch
        # SKIPS while it is
        pol_bad = None
        for n, r in mine:
            if r != "ok":
                continue
            for st in iter_stmts(fn.body):
                if isinstance(st, (ast.If, ast.While)) and any(x is n for x in ast.walk(st.test)):
                    # the sense of the comparison inside the test, `not`s folded in
                    is_eq = isinstance(n.ops[0], ast.Eq) != (_nots_above(st.test, n) % 2 == 1)
                    if isinstance(st, ast.If) and any(isinstance(x, ast.Return) for x in st.body) and is_eq:
                        pol_bad = (n, "returns early when the objective IS below this block, and keeps walking when it is not")
                    if isinstance(st, ast.While) and not is_eq:
                        pol_bad = (n, "skips traces while the objective is NOT inside the zero-count loop")
        if pol_bad is not None and not bad:
            rep.violation("C08.5", cons, f"`{ast.unparse(pol_bad[0])}`: the walker {pol_bad[1]}: traces are visited out of order or never", f"{fn.path}:{pol_bad[0].lineno}")
            continue
        if bad:
            n, r = bad[0]
            rep.violation("C08.5", cons, f"`{ast.unparse(n)}`: {r[9:]}; two nests of the same shape (or a trace one level deeper) are confused: readouts are attributed to the wrong subcircuit, or a zero-count loop never ends", f"{fn.path}:{n.lineno}")
        else:
            rep.ok("C08.5", cons, f"`{ast.unparse(mine[0][0])}`", f"{fn.path}:{mine[0][0].lineno}")
    if vl is not None:
        fl = FuncFlow(ix, T, vl)
        incs = [st for st in iter_stmts(vl.body) if isinstance(st, ast.AugAssign) and isinstance(st.target, ast.Attribute) and st.target.attr == "index"]
        cons = construct_of(vl, "zero-trip-skip")
        if not incs:
            rep.undecided("C08.5", cons, "the loop handler never advances the trace index itself (zero-trip loops must be handled elsewhere; see C08.4)", vl.loc())
        for st in incs:
            tests = fl.control_tests(st)
            prefix = any(prefix_test(vl, c) is not None for t in tests for c in ast.walk(t))
            count_test = any(any(isinstance(m, ast.Attribute) and m.attr == "iterations" for m in ast.walk(t)) for t in tests)
            if prefix and count_test:
                rep.ok("C08.5", cons, "advanced under the inside-test, in the zero-count branch only", f"{vl.path}:{st.lineno}")
            elif not count_test:
                rep.violation("C08.5", cons, "the loop handler advances the trace index outside a test of the loop count: traces are skipped although the body runs", f"{vl.path}:{st.lineno}")
            else:
                rep.violation("C08.5", cons, "a zero-count loop advances the trace index without testing that the next objective lies inside the loop: traces after the loop are skipped too and get no readout", f"{vl.path}:{st.lineno}")


def _nots_above(root, node):
    """Number of `not` operators between root and node."""
    def go(e, k):
        if e is node:
            return k
        for c in ast.iter_child_nodes(e):
            r = go(c, k + (1 if isinstance(e, ast.UnaryOp) and isinstance(e.op, ast.Not) else 0))
            if r is not None:
                return r
        return None
    r = go(root, 0)
    return r or 0


def fl_parent_assert(fn, node):
    """The Assert statement containing node, if any (assert-only comparisons are diagnostics, not decisions)."""
    for st in iter_stmts(fn.body):
        if isinstance(st, ast.Assert) and any(x is node for x in ast.walk(st)):
            return st
    return None


def discover_guards(ctx, rep):
    """C08.6: the traces DiscoverSubcircuits hands to the walker correspond to visits only if a trace neither ends
    nor starts half-way inside a body that is not executed exactly once."""
    ix, T = ctx.ix, ctx.typer
    rep.rule("C08.6", "subcircuit discovery rejects a trace that is closed, or left open, inside a loop body that does not run exactly once (count 0 included)", floor=2)
    f = ix.functions.get("jaqalpaq.core.algorithm.walkers.DiscoverSubcircuits.visit_BlockStatement")
    if f is None:
        raise AnalysisError("C08.6: DiscoverSubcircuits.visit_BlockStatement vanished")
    cfg = CFG(f.body)
    guards = []
    for st in iter_stmts(f.body):
        if isinstance(st, ast.If) and cfg.branch_never_returns(cfg.node(st), True):
            guards.append(st)
    reps_cmp = []
    for g in guards:
        for c in ast.walk(g.test):
            if isinstance(c, ast.Compare) and len(c.ops) == 1 and any(isinstance(x, ast.Name) and x.id == "reps" for x in [c.left] + c.comparators):
                reps_cmp.append((g, c))
    cons = construct_of(f, "repetition-test")
    if not reps_cmp:
        rep.violation("C08.6", cons, "no raising guard depends on the repetition count of the enclosing loop", f.loc())
    else:
        bad = [(g, c) for g, c in reps_cmp if not (isinstance(c.ops[0], ast.NotEq) and any(isinstance(x, ast.Constant) and x.value == 1 for x in [c.left] + c.comparators))]
        if bad:
            g, c = bad[0]
            rep.violation("C08.6", cons, f"`{ast.unparse(c)}` lets a body that runs zero times through: `prepare_all; Px q[0]; loop 0 {{ measure_all }}` still yields a readout although nothing is measured", f"{f.path}:{g.lineno}", witness="prepare_all\nPx q[0]\nloop 0 { measure_all }")
        else:
            rep.ok("C08.6", cons, "every repetition test is `reps != 1`", f.loc())
    cons = construct_of(f, "open-trace-left-by-loop")
    opened = [g for g, c in reps_cmp if any(isinstance(m, ast.Attribute) and m.attr == "current" for m in ast.walk(g.test)) and any(isinstance(m, ast.Compare) and isinstance(m.ops[0], (ast.Is, ast.IsNot)) and not any(isinstance(k, ast.Constant) and k.value is None for k in m.comparators) for m in ast.walk(g.test))
              # (the refusal about a trace LEFT OPEN: it asks that there is a current trace; the one about gates put into a superseded trace does not)
              and any(isinstance(m, ast.Compare) and isinstance(m.ops[0], ast.IsNot) and any(isinstance(k, ast.Constant) and k.value is None for k in m.comparators) and "current" in ast.unparse(m.left) for m in ast.walk(g.test))]
    if opened:
        rep.ok("C08.6", cons, f"`{ast.unparse(opened[0].test)[:90]}` raises", f"{f.path}:{opened[0].lineno}")
    else:
        rep.violation("C08.6", cons, "a trace opened inside a repeated (or zero-count) body and still open at its end is accepted: `loop 3 { prepare_all; Px q[0] }; measure_all` produces three readouts for one measurement", f.loc(), witness="loop 3 { prepare_all ; Px q[0] }\nmeasure_all")
