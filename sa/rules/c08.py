"""C08 -- one readout per subcircuit visit, in order (narrow structural claim)."""

from __future__ import annotations

import ast

from ..index import AnalysisError
from ..cfg import CFG, walk_no_nested, iter_stmts
from ..fieldflow import FuncFlow, names_in
from .common import construct_of, cls_construct

TRACE_VISITOR = "jaqalpaq.core.algorithm.walkers.TraceVisitor"
READOUT = "jaqalpaq.core.result.Readout"


def effect_summary(ctx, fi):
    """Summary of a process_trace implementation."""
    ix, T = ctx.ix, ctx.typer
    selfn = fi.params[0]
    fl = FuncFlow(ix, T, fi)
    s = {"selects": None, "readouts": 0, "readout_index_arg": False, "accept_on_selected": False, "appends": [], "increments": [], "in_loop": False}
    for st in iter_stmts(fi.body):
        if isinstance(st, (ast.For, ast.While)):
            s["in_loop"] = True
    selected_var = None
    for var, exprs in fl.defs.items():
        for e in exprs:
            if isinstance(e, ast.Subscript) and isinstance(e.value, ast.Attribute) and isinstance(e.value.value, ast.Name) and e.value.value.id == selfn and isinstance(e.slice, ast.Attribute) and e.slice.attr == "index":
                s["selects"] = f"self.{e.value.attr}[self.index]"
                selected_var = var
    readout_vars = set()
    for cs in T.callsites(fi):
        if cs.kind == "constructor" and cs.classes and cs.classes[0] == READOUT and isinstance(cs.node, ast.Call):
            s["readouts"] += 1
            args = list(cs.node.args) + [k.value for k in cs.node.keywords]
            if len(args) >= 2 and isinstance(args[1], ast.Attribute) and args[1].attr == "readout_index":
                s["readout_index_arg"] = True
            for var, exprs in fl.defs.items():
                if any(e is cs.node for e in exprs):
                    readout_vars.add(var)
    for n in walk_no_nested(fi.node):
        if isinstance(n, ast.Call) and isinstance(n.func, ast.Attribute):
            if n.func.attr == "accept_readout" and isinstance(n.func.value, ast.Name) and n.func.value.id == selected_var and n.args and isinstance(n.args[0], ast.Name) and n.args[0].id in readout_vars:
                s["accept_on_selected"] = True
            if n.func.attr == "append" and n.args and isinstance(n.args[0], ast.Name) and n.args[0].id in readout_vars and isinstance(n.func.value, ast.Attribute):
                s["appends"].append(n.func.value.attr)
        if isinstance(n, ast.AugAssign) and isinstance(n.target, ast.Attribute) and isinstance(n.target.value, ast.Name) and n.target.value.id == selfn:
            s["increments"].append((n.target.attr, type(n.op).__name__, ast.unparse(n.value)))
    return s


def run(ctx, rep):
    ix, T = ctx.ix, ctx.typer
    tv = ix.cls(TRACE_VISITOR)
    from .common import check_zero_trip
    check_zero_trip(ctx, rep, "C08.4", ("jaqalpaq.emulator.pygsti", "jaqalpaq.ipc"))
    rep.assume("termination and visit order of the trace walker are not decided (DESIGN section 5)")

    # ------------------------------------------------------------ C08.1
    rep.rule("C08.1", "every process_trace implementation selects self.subcircuits[self.index], builds exactly one Readout with the running readout index, hands it to that subcircuit, records it once and advances the readout index by one", floor=2)
    impls = []
    for c in ix.subclasses(TRACE_VISITOR):
        fi = ix.classes[c].methods.get("process_trace")
        if fi is not None:
            impls.append(fi)
    if len(impls) < 1:
        raise AnalysisError("C08.1: no concrete process_trace implementation")
    rep.analysed["process_trace_implementations"] = [f.qualname for f in impls]
    for fi in impls:
        s = effect_summary(ctx, fi)
        cons = construct_of(fi, "effects")
        problems = []
        if s["selects"] is None:
            problems.append("does not select the subcircuit with self.index")
        if s["readouts"] != 1:
            problems.append(f"constructs {s['readouts']} Readout objects instead of one")
        if not s["readout_index_arg"]:
            problems.append("the Readout is not numbered with self.readout_index")
        if not s["accept_on_selected"]:
            problems.append("the readout is not passed to accept_readout() of the selected subcircuit")
        if len(s["appends"]) != 1:
            problems.append(f"the readout is appended to {len(s['appends'])} result lists instead of one")
        incs = [i for i in s["increments"] if i[0] == "readout_index"]
        if len(incs) != 1 or incs[0][1] != "Add" or incs[0][2] != "1":
            problems.append("self.readout_index is not advanced by exactly 1")
        if s["in_loop"]:
            problems.append("contains a loop (more than one readout per visit)")
        if problems:
            rep.violation("C08.1", cons, "; ".join(problems), fi.loc())
        else:
            rep.ok("C08.1", cons, f"{s['selects']}; one Readout(.., self.readout_index); accept_readout; append to self.{s['appends'][0]}; readout_index += 1", fi.loc())
    # the walkers that call process_trace must not override the base block handler's bookkeeping
    for c in ix.subclasses(TRACE_VISITOR):
        for m in ("visit_BlockStatement", "visit_LoopStatement"):
            if m in ix.classes[c].methods:
                rep.undecided("C08.1", cls_construct(ix, c, m), "a subclass overrides the base walker's handler; its bookkeeping is not analysed")

    # ------------------------------------------------------------ C08.3
    rep.rule("C08.3", "the base walker advances its trace index on the same path as each process_trace call", floor=1)
    vb = tv.methods.get("visit_BlockStatement")
    if vb is None:
        raise AnalysisError("C08.3: TraceVisitor.visit_BlockStatement vanished")
    cfg = CFG(vb.body)
    calls = [st for st in iter_stmts(vb.body) if isinstance(st, ast.Expr) and isinstance(st.value, ast.Call) and isinstance(st.value.func, ast.Attribute) and st.value.func.attr == "process_trace"]
    incs = [st for st in iter_stmts(vb.body) if isinstance(st, ast.AugAssign) and isinstance(st.target, ast.Attribute) and st.target.attr == "index" and isinstance(st.op, ast.Add) and isinstance(st.value, ast.Constant) and st.value.value == 1]
    cons = construct_of(vb, "index-advance")
    if not calls:
        rep.violation("C08.3", cons, "the walker never calls process_trace: no readout is produced", vb.loc())
    elif not incs:
        rep.violation("C08.3", cons, "self.index is never advanced by one after process_trace: the same subcircuit receives every readout", vb.loc())
    else:
        ok = True
        for c in calls:
            cn = cfg.node(c)
            inc_nodes = [cfg.node(i) for i in incs]
            # from the call, every path to the exit / loop head / another call passes an increment
            reach = cfg.reachable_from(cn, removed_nodes=inc_nodes)
            later_reads = [cfg.node(st) for st in iter_stmts(vb.body) if cfg.node(st) in reach and cfg.node(st) != cn and any(isinstance(n, ast.Attribute) and n.attr == "index" and isinstance(n.ctx, ast.Load) for n in ast.walk(st) if not isinstance(st, (ast.If, ast.While, ast.For)) or n in ast.walk(getattr(st, "test", st)))]
            if cfg.exit in reach or later_reads:
                ok = False
        n_calls_between = len(calls)
        if ok and len(incs) == len(calls):
            rep.ok("C08.3", cons, "process_trace(); self.index += 1 on every path", vb.loc())
        else:
            rep.violation("C08.3", cons, "there is a path from a process_trace() call to the next use of self.index (or to the exit) that does not advance self.index by one: readouts are attributed to the wrong subcircuit", vb.loc())
    # loop handler restores the walk state for each iteration
    vl = tv.methods.get("visit_LoopStatement")
    cons = construct_of(vl, "loop-repeats") if vl else cls_construct(ix, TRACE_VISITOR, "loop-repeats")
    if vl is None:
        rep.violation("C08.3", cons, "the trace walker has no loop handler: loops are not repeated", tv.loc())
    else:
        loops = [st for st in iter_stmts(vl.body) if isinstance(st, ast.For)]
        rng = any(isinstance(st.iter, ast.Call) and isinstance(st.iter.func, ast.Name) and st.iter.func.id == "range" and any(isinstance(n, ast.Attribute) and n.attr == "iterations" for n in ast.walk(st.iter)) for st in loops)
        restores = any(isinstance(s, ast.Assign) and isinstance(s.targets[0], ast.Attribute) and s.targets[0].attr == "index" for st in loops for s in st.body)
        visits = any(isinstance(n, ast.Call) and isinstance(n.func, ast.Attribute) and n.func.attr == "visit" for st in loops for s in st.body for n in ast.walk(s))
        if rng and restores and visits:
            rep.ok("C08.3", cons, "for _ in range(loop.iterations): restore walk state; visit body", vl.loc())
        else:
            rep.violation("C08.3", cons, "the loop handler does not repeat the body loop.iterations times with the walk state restored at each iteration", vl.loc())

    # ------------------------------------------------------------ C08.5
    rep.rule("C08.5", "a loop that runs zero times skips exactly the traces that start inside it: the trace index is advanced only while the next objective has the loop's address as a prefix", floor=1)
    if vl is not None:
        fl = FuncFlow(ix, T, vl)
        incs = [st for st in iter_stmts(vl.body) if isinstance(st, ast.AugAssign) and isinstance(st.target, ast.Attribute) and st.target.attr == "index"]
        cons = construct_of(vl, "zero-trip-skip")
        if not incs:
            rep.undecided("C08.5", cons, "the loop handler never advances the trace index itself (zero-trip loops must be handled elsewhere; see C08.4)", vl.loc())
        for st in incs:
            tests = fl.control_tests(st)
            prefix = any(
                isinstance(c, ast.Compare) and any(isinstance(x, ast.Subscript) and isinstance(x.slice, ast.Slice) and any(isinstance(m, ast.Attribute) and m.attr == "objective" for m in ast.walk(x)) for x in [c.left] + c.comparators)
                and any("address" in ast.unparse(x) for x in [c.left] + c.comparators)
                for t in tests for c in ast.walk(t))
            count_test = any(any(isinstance(m, ast.Attribute) and m.attr == "iterations" for m in ast.walk(t)) for t in tests)
            if prefix and count_test:
                rep.ok("C08.5", cons, "advanced under `objective[:len(address)] == address`, in the zero-count branch only", f"{vl.path}:{st.lineno}")
            elif not count_test:
                rep.violation("C08.5", cons, "the loop handler advances the trace index outside a test of the loop count: traces are skipped although the body runs", f"{vl.path}:{st.lineno}")
            else:
                rep.violation("C08.5", cons, "a zero-count loop advances the trace index without testing that the next objective lies inside the loop: traces after the loop are skipped too and get no readout", f"{vl.path}:{st.lineno}")
