"""C07 -- identifiers resolve lexically (decided clauses)."""

from __future__ import annotations

import ast

from ..index import AnalysisError
from ..cfg import walk_no_nested, iter_stmts
from ..fieldflow import FuncFlow, names_in
from .common import visitor_transformer, check_field_flow, construct_of, cls_construct, check_changed_flag

MOD = "jaqalpaq.core.circuitbuilder"
BUILDER = f"{MOD}.Builder"
BLOCK = "jaqalpaq.core.block.BlockStatement"
LOOP = "jaqalpaq.core.block.LoopStatement"
MACRO = "jaqalpaq.core.macro.Macro"
PARAMETER = "jaqalpaq.core.parameter.Parameter"

R = "re-linking a macro body must not change anything but the gate definitions it refers to"


def consults(node, ctxname):
    """Does an expression/statement consult the mapping named ctxname (get / [] / in)?"""
    for n in ast.walk(node):
        if isinstance(n, ast.Call) and isinstance(n.func, ast.Attribute) and n.func.attr == "get" and isinstance(n.func.value, ast.Name) and n.func.value.id == ctxname:
            return True
        if isinstance(n, ast.Subscript) and isinstance(n.value, ast.Name) and n.value.id == ctxname:
            return True
        if isinstance(n, ast.Compare) and any(isinstance(o, (ast.In, ast.NotIn)) for o in n.ops) and any(isinstance(c, ast.Name) and c.id == ctxname for c in n.comparators):
            return True
    return False


def run(ctx, rep):
    ix, T = ctx.ix, ctx.typer
    from .common import check_memo_numeric_keys
    check_memo_numeric_keys(ctx, rep, "C07.11")
    from .common import check_alias_name_kept
    check_alias_name_kept(ctx, rep, "C07.10")
    from .common import check_context_bookkeeping_keys
    check_context_bookkeeping_keys(ctx, rep, "C07.9")
    from .common import check_scope_discipline
    check_scope_discipline(ctx, rep, "C07.5", "C07.6", "C07.7")
    from .common import check_fast_paths
    _fp_mods = ["jaqalpaq.core.circuitbuilder"]
    check_fast_paths(ctx, rep, "C07.4", [f for f in ix.functions.values() if f.module in _fp_mods and (f.cls is None or T.is_visitor(f.cls))], None)
    builder = ix.cls(BUILDER)

    # ------------------------------------------------------------ C07.1
    rep.rule("C07.1", "memo-key completeness: every argument form through which construction consults the context is reflected in the key", floor=1)
    # memo tables: attributes of Builder holding an instance of a helper class with get/set
    memo_classes = []
    for name, lst in builder.self_attrs.items():
        for fi, v in lst:
            if v is None:
                continue
            for t in T._type_in_func(fi, v):
                if t in ix.classes and {"get", "set"} <= set(ix.classes[t].methods):
                    memo_classes.append((name, t))
    if not memo_classes:
        rep.info("C07.1", cls_construct(ix, BUILDER, "memo"), "Builder has no memo table: nothing to check")
    for attr, mc in memo_classes:
        get = ix.classes[mc].methods["get"]
        cons = cls_construct(ix, mc, "memo-key")
        # the key function: called in get() with the context argument
        keyfn = None
        for cs in T.callsites(get):
            for t in cs.targets:
                if t.cls == mc and t.name not in ("get", "set") and isinstance(cs.node, ast.Call):
                    keyfn = t
        if keyfn is None:
            keyfn = get
        ctxparams = [p for p in keyfn.all_params if "context" in p]
        # where is the memo consulted?  (Builder method passing raw vs built arguments)
        users = [f for f in builder.methods.values() if any(cs.kind == "method" and get in cs.targets for cs in T.callsites(f))]
        # does construction consult the context through nested forms?
        build_m = builder.methods.get("build")
        nested = []
        for mname, fi in builder.methods.items():
            if mname.startswith("build_") and mname not in ("build_gate", "build_circuit", "build_macro") and build_m is not None:
                if any(cs.kind == "method" and build_m in cs.targets for cs in T.callsites(fi)):
                    nested.append(mname)
        rep.analysed["nested_forms_consulting_context"] = nested
        if not ctxparams:
            # key without context: fine only if it is computed from built (already looked-up) values
            ok = False
            for u in users:
                ufl = FuncFlow(ix, T, u)
                for cs in T.callsites(u):
                    if cs.kind == "method" and get in cs.targets and isinstance(cs.node, ast.Call):
                        for a in cs.node.args:
                            ids, _ = ufl.depends(a)
                            if any(vcs.kind == "method" and build_m in vcs.targets and id(vcs.node) in ids for vcs in T.callsites(u)):
                                ok = True
            if ok:
                rep.ok("C07.1", cons, "the key is computed from built argument values, not from names", keyfn.loc())
            else:
                rep.violation("C07.1", cons, "the memo key ignores the context although arguments are names looked up in it: textually identical gates in different scopes share one statement", keyfn.loc())
            continue
        cname = ctxparams[0]
        # innermost function(s) consulting the context
        consulters = []
        cand = [keyfn] + [f for f in ix.functions.values() if f.parent == keyfn.qualname]
        for f in cand:
            body_nodes = list(walk_no_nested(f.node))
            if any(consults(n, cname) for n in body_nodes if isinstance(n, ast.expr)):
                consulters.append(f)
        whole_ctx = any(
            isinstance(n, ast.Call) and isinstance(n.func, ast.Name) and n.func.id in ("id", "frozenset", "tuple", "sorted", "hash")
            and any(isinstance(m, ast.Name) and m.id == cname for a in n.args for m in ast.walk(a))
            and not consults(n, cname)
            for n in ast.walk(keyfn.node)
        )
        if whole_ctx:
            rep.ok("C07.1", cons, "the key includes the whole context", keyfn.loc())
            continue
        if not consulters:
            rep.violation("C07.1", cons, "the key function receives the context but never consults it", keyfn.loc())
            continue
        if not nested:
            rep.ok("C07.1", cons, "no nested argument form consults the context", keyfn.loc())
            continue
        recursive = False
        partial = None
        for f in consulters:
            for n in walk_no_nested(f.node):
                is_rec = (isinstance(n, ast.Call) and isinstance(n.func, ast.Name) and n.func.id == f.name and f.parent) or (
                    isinstance(n, ast.Call) and isinstance(n.func, ast.Attribute) and n.func.attr == f.name and not f.parent)
                if not is_rec or not n.args:
                    continue
                a0 = n.args[0]
                # the recursive call must be applied to every element of the nested form
                covers_all = False
                if isinstance(a0, ast.Name):
                    for m in walk_no_nested(f.node):
                        if isinstance(m, ast.comprehension) and isinstance(m.target, ast.Name) and m.target.id == a0.id and isinstance(m.iter, ast.Name) and m.iter.id in f.all_params and not m.ifs:
                            covers_all = True
                        if isinstance(m, ast.For) and isinstance(m.target, ast.Name) and m.target.id == a0.id and isinstance(m.iter, ast.Name) and m.iter.id in f.all_params:
                            covers_all = True
                if covers_all:
                    recursive = True
                else:
                    partial = n
        # or: the consultation is applied to a flattened view of the arguments
        flattened = False
        for f in [keyfn]:
            for n in ast.walk(f.node):
                if isinstance(n, ast.Call) and isinstance(n.func, (ast.Name, ast.Attribute)):
                    nm = getattr(n.func, "id", None) or getattr(n.func, "attr", "")
                    if "flatten" in nm or "walk" in nm:
                        flattened = True
        if recursive or flattened:
            rep.ok("C07.1", cons, "the context consultation recurses into every element of nested argument forms", consulters[0].loc())
        elif partial is not None:
            rep.violation(
                "C07.1", cons,
                f"the key looks only at `{ast.unparse(partial.args[0])}` of a nested argument, but every element of a nested form (array name and index) is looked up in the context while building: identical text with a different binding of the other element shares one gate statement",
                f"{consulters[0].path}:{partial.lineno}", witness="let k 0\nregister r[2]\nmacro m k { Px r[k] }\nPx r[k]",
            )
        else:
            rep.violation(
                "C07.1", cons,
                f"the key consults the context for top-level string arguments only, but {', '.join(nested)} look names up inside nested forms: "
                "`register a[2]; macro foo a { g a[0] }; g a[0]` shares one gate statement between the two scopes",
                consulters[0].loc(), witness="register a[2]\nmacro foo a { g a[0] }\ng a[0]",
            )

    # ------------------------------------------------------------ C07.2
    rep.rule("C07.2", "the macro body is built in a context where the parameters are applied after the enclosing context", floor=1)
    bm = None
    for mname, fi in builder.methods.items():
        if mname.startswith("build_") and any(cs.kind == "constructor" and cs.classes and cs.classes[0] == MACRO for cs in T.callsites(fi)):
            bm = fi
    if bm is None:
        raise AnalysisError("C07.2: no build_* method constructs a Macro")
    cons = construct_of(bm, "shadowing-order")
    fl = FuncFlow(ix, T, bm)
    # the parameter dict: a name whose definition depends on Parameter(...)
    param_vars = set()
    for var, exprs in fl.defs.items():
        for e in exprs:
            ids, roots = fl.depends(e)
            if any(isinstance(n, ast.Call) and PARAMETER in T.types_of(n) for r in roots for n in ast.walk(r)):
                param_vars.add(var)
    ctx_param = [p for p in bm.params if p == "context"]
    build_m = builder.methods.get("build")
    body_ctx = None
    for cs in T.callsites(bm):
        if cs.kind == "method" and build_m in cs.targets and isinstance(cs.node, ast.Call) and len(cs.node.args) >= 2:
            body_ctx = cs.node.args[1]
    if body_ctx is None or not ctx_param:
        rep.undecided("C07.2", cons, "cannot find the context passed to the body build", bm.loc())
    else:
        expr = body_ctx
        if isinstance(expr, ast.Name):
            defs = fl.defs.get(expr.id, [])
            expr = defs[0] if defs else expr
        verdict = None

        def is_params(e):
            return bool(names_in(e) & param_vars) and "context" not in names_in(e)

        def is_ctx(e):
            return isinstance(e, ast.Name) and e.id == "context" or (isinstance(e, ast.Call) and "context" in names_in(e) and not names_in(e) & param_vars)

        if isinstance(expr, ast.Dict) and all(k is None for k in expr.keys) and len(expr.values) == 2:
            a, b = expr.values
            if is_ctx(a) and is_params(b):
                verdict = True
            elif is_params(a) and is_ctx(b):
                verdict = False
        elif isinstance(expr, ast.Call) and isinstance(expr.func, (ast.Name, ast.Attribute)) and (getattr(expr.func, "id", None) or expr.func.attr) == "ChainMap" and len(expr.args) == 2:
            a, b = expr.args
            if is_params(a) and is_ctx(b):
                verdict = True
            elif is_ctx(a) and is_params(b):
                verdict = False
        elif isinstance(expr, ast.BinOp) and isinstance(expr.op, ast.BitOr):
            if is_ctx(expr.left) and is_params(expr.right):
                verdict = True
            elif is_params(expr.left) and is_ctx(expr.right):
                verdict = False
        elif isinstance(expr, ast.Call) and isinstance(expr.func, ast.Name) and expr.func.id == "dict" and expr.args and is_ctx(expr.args[0]) and any(k.arg is None and is_params(k.value) for k in expr.keywords):
            verdict = True
        elif isinstance(expr, ast.Call) and isinstance(expr.func, ast.Attribute) and expr.func.attr == "copy" and is_ctx(expr.func.value) and isinstance(body_ctx, ast.Name):
            # d = context.copy(); d.update(params)
            for root, vals, st in fl.mutations:
                if root == body_ctx.id and isinstance(st, ast.Expr) and isinstance(st.value.func, ast.Attribute) and st.value.func.attr == "update" and any(is_params(v) for v in vals):
                    verdict = True
        if verdict is True:
            rep.ok("C07.2", cons, "parameters take precedence over the enclosing context", f"{bm.path}:{body_ctx.lineno}")
        elif verdict is False:
            rep.violation("C07.2", cons, "the enclosing context takes precedence over the macro's parameters: a parameter no longer shadows a let/register of the same name", f"{bm.path}:{body_ctx.lineno}")
        else:
            if isinstance(body_ctx, ast.Name) and body_ctx.id == "context":
                rep.violation("C07.2", cons, "the macro body is built in the enclosing context without the parameters", f"{bm.path}:{body_ctx.lineno}")
            else:
                rep.undecided("C07.2", cons, f"merge idiom not recognised: {ast.unparse(expr)}", f"{bm.path}:{body_ctx.lineno}")

    # ------------------------------------------------------------ C07.3
    rep.rule("C07.3", "re-linking returns the original node only when nothing below it changed and preserves every field when it rebuilds", floor=6)
    relinker = None
    bc = builder.methods.get("build_circuit")
    if bc is not None:
        for cs in T.callsites(bc):
            for t in cs.targets:
                if t.module == MOD and t.cls is None:
                    for cs2 in T.callsites(t):
                        if cs2.kind == "constructor" and cs2.classes and T.is_visitor(cs2.classes[0]):
                            relinker = cs2.classes[0]
    if relinker is None:
        rep.info("C07.3", cls_construct(ix, BUILDER, "relink"), "no re-linking visitor: nothing to check")
        return
    tr = visitor_transformer(ctx, relinker)
    check_field_flow(ctx, rep, "C07.3", tr, relinker, [
        (BLOCK, "parallel", "required", R),
        (BLOCK, "subcircuit", "required", R),
        (BLOCK, "iterations", "required", R),
        (BLOCK, "statements", "required", R),
        (LOOP, "iterations", "required", R),
        (LOOP, "statements", "required", R),
        (MACRO, "name", "required", R),
        (MACRO, "parameters", "required", R),
        (MACRO, "body", "required", R),
        (MACRO, "_ideal_unitary", "exempt", "macros have no unitary"),
    ])
    check_changed_flag(ctx, rep, "C07.3", tr)
    from .common import position_visited
    for kq, member in ((BLOCK, "statements"), (LOOP, "statements"), (MACRO, "body")):
        kname = ix.classes[kq].name
        cons = f"{cls_construct(ix, relinker)}:{kname}.{member}:visited"
        if position_visited(ctx, tr, kq, member):
            rep.ok("C07.3", cons, "children are visited (a macro call below is re-linked)")
        else:
            rep.violation("C07.3", cons, f"the re-linking visitor does not visit {kname}.{member}: macro calls below it keep their anonymous definition", ix.classes[relinker].loc())
    for c in ix.mro(relinker):
        if c == "jaqalpaq.core.algorithm.visitor.Visitor":
            continue
        for mname, fi in ix.classes[c].methods.items():
            if not mname.startswith("visit_") or len(fi.params) < 2:
                continue
            inp = fi.params[1]
            fl = tr.flows.get(fi.qualname) or FuncFlow(ix, T, fi)
            for st in iter_stmts(fi.body):
                if not (isinstance(st, ast.Return) and isinstance(st.value, ast.Tuple) and len(st.value.elts) == 2):
                    continue
                flag, node = st.value.elts
                if not (isinstance(node, ast.Name) and node.id == inp):
                    continue
                cons = construct_of(fi, "returns-original-only-if-unchanged")
                loc = f"{fi.path}:{st.lineno}"
                if isinstance(flag, ast.Constant) and flag.value is False:
                    rep.ok("C07.3", cons, "returns (False, original)", loc)
                    continue
                tests = fl.control_tests(st)
                tn = set()
                for t in tests:
                    tn |= names_in(t)
                if isinstance(flag, ast.Name) and flag.id in tn:
                    rep.ok("C07.3", cons, f"the original is returned under a test of `{flag.id}`", loc)
                else:
                    rep.violation("C07.3", cons, "the original node is returned without testing whether anything below it changed: re-linked gates are lost (or a changed flag is reported for an unchanged node)", loc)

    # ------------------------------------------------------------ C07.8
    rep.rule("C07.8", "memo keys built from qubit references separate scopes: while NamedQubit.__eq__ compares the source by *name*, NamedQubit.__hash__ must hash the source *object* (a register q and a macro parameter q are equal by name; only the hash keeps their memo entries apart)", floor=1)
    NQ = "jaqalpaq.core.register.NamedQubit"
    nq = ix.cls(NQ)
    eqm, hm = nq.methods.get("__eq__"), nq.methods.get("__hash__")
    cons = cls_construct(ix, NQ, "__hash__:source-object")
    memo_uses_objects = any(f.cls and f.cls.endswith("GateMemoizer") for f in ix.functions.values())
    if eqm is None or hm is None or not memo_uses_objects:
        rep.exempt("C07.8", cons, "no name-based equality / no memo keyed on built objects")
    else:
        def src_by_name(fn):
            return any(isinstance(m, ast.Attribute) and m.attr in ("name", "_name") and isinstance(m.value, ast.Attribute) and m.value.attr in ("alias_from", "_alias_from") for m in ast.walk(fn.node))

        def src_as_object(fn):
            # an occurrence of (self.)alias_from that is not the receiver of `.name`
            recv_of_name = {id(m.value) for m in ast.walk(fn.node) if isinstance(m, ast.Attribute) and m.attr in ("name", "_name")}
            return any(isinstance(m, ast.Attribute) and m.attr in ("alias_from", "_alias_from") and id(m) not in recv_of_name for m in ast.walk(fn.node))
        eq_by_name = src_by_name(eqm) and not src_as_object(eqm)
        if not eq_by_name:
            rep.exempt("C07.8", cons, "NamedQubit.__eq__ compares the source object itself; any consistent hash will do")
        elif src_as_object(hm):
            rep.ok("C07.8", cons, "__eq__ is name based, __hash__ includes the source object", hm.loc())
        else:
            rep.violation("C07.8", cons, "NamedQubit.__eq__ compares the source by name and __hash__ no longer includes the source object: `q[0]` over register q and `q[0]` over a macro parameter q become one memo key, and a pass that rebuilds the circuit from objects (fill_in_let, fill_in_map) serves the macro body's statement for the top-level gate (or vice versa)", hm.loc(),
                          witness="register q[2]\nmacro foo q { Px q[0] }\nPx q[0]   -> after fill_in_let the top-level gate refers to Parameter q")
