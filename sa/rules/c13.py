"""C13 -- used-qubit analysis is exact; overlapping parallel branches are rejected (decided clauses)."""

from __future__ import annotations

import ast

from ..index import AnalysisError
from ..cfg import CFG, walk_no_nested, iter_stmts
from ..fieldflow import FuncFlow, names_in
from .common import visitor_transformer, construct_of, cls_construct, position_visited

UQ = "jaqalpaq.core.algorithm.used_qubit_visitor.UsedQubitIndicesVisitor"
DISC = "jaqalpaq.core.algorithm.walkers.DiscoverSubcircuits"
BLOCK = "jaqalpaq.core.block.BlockStatement"
LOOP = "jaqalpaq.core.block.LoopStatement"
GATE = "jaqalpaq.core.gate.GateStatement"
CIRCUIT = "jaqalpaq.core.circuit.Circuit"
QUBIT = "jaqalpaq.core.register.NamedQubit"
REGISTER = "jaqalpaq.core.register.Register"
PARAMETER = "jaqalpaq.core.parameter.Parameter"
MACRO = "jaqalpaq.core.macro.Macro"
IDLE = "jaqalpaq.core.gatedef.IdleGateDefinition"
BUSY = "jaqalpaq.core.gatedef.BusyGateDefinition"
GATEDEF = "jaqalpaq.core.gatedef.GateDefinition"


def _returns_all_qubits(ix, cls, name) -> bool:
    """`name` is an accessor method of the visitor that returns self.all_qubits (possibly after a None check)."""
    m = ix.find_method(cls, name)
    if m is None:
        return False
    rets = [st for st in iter_stmts(m.body) if isinstance(st, ast.Return) and st.value is not None]
    if not (rets and all(isinstance(r.value, ast.Attribute) and r.value.attr == "all_qubits" for r in rets)):
        return False
    # a raising guard in the accessor may only fire when the table is missing (`is None`)
    for st in iter_stmts(m.body):
        if isinstance(st, ast.If) and any(isinstance(x, ast.Raise) for x in st.body):
            t = st.test
            if not (isinstance(t, ast.Compare) and len(t.ops) == 1 and isinstance(t.ops[0], ast.Is) and isinstance(t.comparators[0], ast.Constant) and t.comparators[0].value is None):
                return False
    return True


def run(ctx, rep):
    ix, T = ctx.ix, ctx.typer
    from .common import check_falsy_zero
    check_falsy_zero(ctx, rep, "C13.7", ['jaqalpaq.core.algorithm.used_qubit_visitor'], floor_positions=3)
    ix.cls(UQ)
    ix.cls(DISC)
    family = [UQ] + [c for c in ix.subclasses(UQ) if not c.startswith("jaqalpaq.emulator.pygsti")]
    rep.analysed["visitors"] = family
    rep.assume("the experimental Branch/Case nodes are out of scope")

    # ------------------------------------------------------------ C13.1
    rep.rule("C13.1", "the used-qubit visitors handle every node that can contain statements or qubits, and every handler visits its children", floor=10)
    fi_default = ix.find_method(UQ, "visit_default")
    silent = fi_default is not None and any(isinstance(s, ast.Return) and isinstance(s.value, (ast.Dict, ast.Constant, ast.Call)) for s in iter_stmts(fi_default.body)) and not any(isinstance(s, ast.Raise) for s in iter_stmts(fi_default.body))
    rep.analysed["visit_default_is_silent"] = silent
    for vis in family:
        tr = visitor_transformer(ctx, vis)
        for k in (CIRCUIT, BLOCK, LOOP, GATE, QUBIT, REGISTER, PARAMETER):
            cons = f"{cls_construct(ix, vis)}:handles:{ix.classes[k].name}"
            h = tr.has_handler(vis, k)
            if h is not None:
                rep.ok("C13.1", cons, f"handled by {construct_of(h)}")
            elif silent:
                rep.violation("C13.1", cons, f"no handler for {ix.classes[k].name} and visit_default silently returns no qubits: qubits used below such a node are not reported (and overlapping branches not detected)", ix.classes[vis].loc())
            else:
                rep.ok("C13.1", cons, "no handler, but visit_default raises")
        for k, member in ((BLOCK, "statements"), (LOOP, "statements"), (CIRCUIT, "body")):
            cons = f"{cls_construct(ix, vis)}:{ix.classes[k].name}.{member}:visited"
            if position_visited(ctx, tr, k, member):
                rep.ok("C13.1", cons, "children are visited")
            else:
                h = tr.has_handler(vis, k)
                rep.violation("C13.1", cons, f"the handler for {ix.classes[k].name} does not visit its {member}: gates inside are not counted", h.loc() if h else "")
        # gate statements: qubit arguments and macro bodies
        gh = tr.has_handler(vis, GATE)
        if gh is not None:
            cons = f"{cls_construct(ix, vis)}:GateStatement:arguments-and-macro-body"
            body_nodes = list(walk_no_nested(gh.node))
            via_super = any(isinstance(n, ast.Call) and isinstance(n.func, ast.Attribute) and n.func.attr == gh.name and isinstance(n.func.value, ast.Call) and isinstance(n.func.value.func, ast.Name) and n.func.value.func.id == "super" for n in body_nodes)
            reads_used = any(isinstance(n, ast.Attribute) and n.attr in ("used_qubits", "parameters") for n in body_nodes)
            reads_body = any(isinstance(n, ast.Attribute) and n.attr == "body" for n in body_nodes)
            const_rets = [s_ for s_ in iter_stmts(gh.body) if isinstance(s_, ast.Return) and (s_.value is None or isinstance(s_.value, (ast.Dict, ast.Constant, ast.Set, ast.List)) and not getattr(s_.value, "keys", None) and not getattr(s_.value, "elts", None))]
            if via_super and const_rets and vis != UQ:
                rep.violation("C13.1", cons, f"`return {ast.unparse(const_rets[0].value) if const_rets[0].value is not None else ''}` on one path of the overriding gate handler: for those gates no qubits are reported (busy gates such as prepare_all/measure_all no longer collide with parallel branches)", f"{gh.path}:{const_rets[0].lineno}")
            elif via_super or (reads_used and reads_body):
                rep.ok("C13.1", cons, "delegates to the base handler" if via_super else "visits the qubit arguments and, for macros, the body", gh.loc())
            else:
                rep.violation("C13.1", cons, "the gate handler does not visit " + ("the macro body" if reads_used else "the gate's qubit arguments"), gh.loc())

    # a subcircuit block stands for prepare_all .. measure_all: it uses every qubit
    bh_ = ix.find_method(UQ, "visit_BlockStatement")
    if bh_ is not None:
        cons = construct_of(bh_, "subcircuit-implicit-gates")
        hit = None
        for st in iter_stmts(bh_.body):
            if isinstance(st, ast.If) and any(isinstance(m, ast.Attribute) and m.attr == "subcircuit" for m in ast.walk(st.test)):
                if any(isinstance(n, ast.Attribute) and (n.attr == "all_qubits" or _returns_all_qubits(ix, UQ, n.attr)) for b in st.body for n in ast.walk(b)):
                    hit = st
        if hit is not None:
            rep.ok("C13.1", cons, "`if obj.subcircuit:` merges all qubits (the implicit prepare_all/measure_all)", f"{bh_.path}:{hit.lineno}")
        else:
            rep.violation("C13.1", cons, "a subcircuit block is analysed like a plain block: `subcircuit { Px q[1] }` reports only qubit 1 although the block prepares and measures every qubit (its spelled-out form reports all of them)", bh_.loc(), witness="register q[3]\nsubcircuit { Px q[1] }")

    # every merge accumulates INTO a table created in the handler (never into visitor state or an argument)
    for vis_ in family:
        for mname, fi in ix.classes[vis_].methods.items():
            if not mname.startswith("visit_"):
                continue
            local_tables = {t.id for st in iter_stmts(fi.body) if isinstance(st, ast.Assign) and isinstance(st.value, ast.Call) and isinstance(st.value.func, ast.Name) and st.value.func.id in ("defaultdict", "dict") for t in st.targets if isinstance(t, ast.Name)}
            for n in walk_no_nested(fi.node):
                if isinstance(n, ast.Call) and isinstance(n.func, ast.Attribute) and n.func.attr == "merge_into" and n.args:
                    cons = construct_of(fi, f"merge-target:{ast.unparse(n.args[0])[:30]}")
                    if isinstance(n.args[0], ast.Name) and n.args[0].id in local_tables:
                        rep.ok("C13.1", cons, "merges into the handler's own table", f"{fi.path}:{n.lineno}")
                    else:
                        rep.violation("C13.1", cons, f"`{ast.unparse(n)[:70]}` merges into something that is not the handler's own result table: the visitor's state (e.g. the all-qubits table) is changed and the handler's result misses the qubits", f"{fi.path}:{n.lineno}")

    # ------------------------------------------------------------ C13.2
    rep.rule("C13.2", "the collision test follows the block kind and the intersection of the two index sets", floor=2)
    merge = ix.find_method(UQ, "merge_into")
    if merge is None:
        raise AnalysisError("C13.2: merge_into vanished")
    cfg = CFG(merge.body)
    cons = construct_of(merge, "disjoint-guard")
    flm = FuncFlow(ix, T, merge)
    ok = False
    symmetric = False
    for st in iter_stmts(merge.body):
        if isinstance(st, ast.If) and cfg.branch_never_returns(cfg.node(st), True):
            tn = names_in(st.test)
            inter = any(isinstance(n, ast.BinOp) and isinstance(n.op, ast.BitAnd) for n in ast.walk(st.test)) or any(isinstance(n, ast.Call) and isinstance(n.func, ast.Attribute) and n.func.attr in ("intersection", "isdisjoint") for n in ast.walk(st.test))
            wrapped = [m for m in ast.walk(st.test) if isinstance(m, ast.Call) and isinstance(m.func, ast.Name) and m.func.id in ("any", "all", "sum", "max", "min", "bool") and m.func.id != "bool"
                       and any(isinstance(k, ast.BinOp) and isinstance(k.op, ast.BitAnd) for k in ast.walk(m))]
            if "disjoint" in tn and inter and wrapped:
                rep.violation("C13.2", construct_of(merge, "intersection-truth"), f"`{ast.unparse(wrapped[0])}` tests the ELEMENTS of the intersection instead of its emptiness: an overlap on qubit 0 only is falsy and goes undetected (`< Px q[0] | H q[0] >` is accepted)", f"{merge.path}:{st.lineno}", witness="< Px q[0] | H q[0] >")
            if "disjoint" in tn and inter:
                ok = True
                symmetric = True
    if ok:
        rep.ok("C13.2", cons, "`disjoint and (tgt & src)` guards the JaqalError", merge.loc())
    else:
        rep.violation("C13.2", cons, "merge_into has no raising guard that depends on both the disjoint flag and the intersection of the two sets: overlapping parallel branches are not rejected (or everything is)", merge.loc())
    for vis in (DISC, UQ):
        h = ix.classes[vis].methods.get("visit_BlockStatement")
        if h is None:
            continue
        fl = FuncFlow(ix, T, h)
        blk = h.params[1]
        calls = [n for n in walk_no_nested(h.node) if isinstance(n, ast.Call) and isinstance(n.func, ast.Attribute) and n.func.attr == "merge_into"]
        cons = construct_of(h, "disjoint-follows-parallel")
        if not calls:
            rep.violation("C13.2", cons, "the block handler never merges branch results", h.loc())
            continue
        verdicts = []
        for c in calls:
            dj = [k.value for k in c.keywords if k.arg == "disjoint"] or (c.args[2:3])
            ctrl_par = any(isinstance(m, ast.Attribute) and m.attr == "parallel" and isinstance(m.value, ast.Name) and m.value.id == blk for t in fl.control_tests(c) for m in ast.walk(t))
            if not dj:
                verdicts.append("none-under-parallel" if ctrl_par else "none")
                continue
            e = dj[0]
            ids, _ = fl.depends(e)
            data = any(id(m) in ids and isinstance(m, ast.Attribute) and m.attr == "parallel" and isinstance(m.value, ast.Name) and m.value.id == blk for m in walk_no_nested(h.node))
            if data:
                # exactness: the flag is block.parallel itself, possibly and-ed with the class's validate_parallel switch
                ee = e
                hops = 0
                while isinstance(ee, ast.Name) and hops < 5:
                    defs = [st.value for st in iter_stmts(h.body) if isinstance(st, ast.Assign) and any(isinstance(t, ast.Name) and t.id == ee.id for t in st.targets)]
                    if len(defs) != 1:
                        break
                    ee = defs[0]
                    hops += 1
                atoms = ee.values if isinstance(ee, ast.BoolOp) and isinstance(ee.op, ast.And) else [ee]
                extra = [a for a in atoms if not (
                    (isinstance(a, ast.Attribute) and a.attr == "parallel" and isinstance(a.value, ast.Name) and a.value.id == blk)
                    or (isinstance(a, ast.Attribute) and a.attr == "validate_parallel")
                    or (isinstance(a, ast.Call) and isinstance(a.func, ast.Name) and a.func.id == "bool" and a.args and isinstance(a.args[0], ast.Attribute) and a.args[0].attr == "parallel")
                )]
                if isinstance(ee, ast.BoolOp) and isinstance(ee.op, ast.And) and extra:
                    verdicts.append("weakened:" + ast.unparse(extra[0]))
                else:
                    verdicts.append("data")
            elif isinstance(e, ast.Constant) and e.value is True and ctrl_par:
                verdicts.append("control")
            elif isinstance(e, ast.Constant) and e.value is True:
                verdicts.append("always")
            else:
                verdicts.append("other")
        weak = [v for v in verdicts if v.startswith("weakened:")]
        if weak:
            rep.violation("C13.2", cons, f"the disjointness flag is `block.parallel and {weak[0][9:]}`: for parallel blocks where `{weak[0][9:]}` is false, overlapping branches are accepted", h.loc())
        elif vis == DISC:
            if any(v in ("data", "control") for v in verdicts) and "always" not in verdicts:
                rep.ok("C13.2", cons, "disjoint= follows block.parallel", h.loc())
            elif "always" in verdicts:
                rep.violation("C13.2", cons, "branch results are merged with disjoint=True regardless of the block kind: a sequential block that reuses a qubit is rejected", h.loc())
            else:
                rep.violation("C13.2", cons, "the disjointness flag passed to merge_into does not depend on block.parallel: overlapping parallel branches are accepted by the emulator", h.loc())
        else:
            if "always" in verdicts:
                rep.violation("C13.2", cons, "branch results are merged with disjoint=True regardless of the block kind", h.loc())
            else:
                rep.ok("C13.2", cons, "disjointness is requested only for parallel blocks", h.loc())

    # ------------------------------------------------------------ C13.3
    rep.rule("C13.3", "idle gates use no qubits, busy gates use all, and `all` expands to every index of every fundamental register", floor=4)
    for k, want in ((IDLE, "nothing"), (BUSY, "all")):
        ci = ix.cls(k)
        uq = ci.methods.get("used_qubits")
        cons = cls_construct(ix, k, "used_qubits")
        if uq is None:
            rep.violation("C13.3", cons, f"{ci.name} does not override used_qubits: it reports its parent's qubit parameters", ci.loc())
            continue
        ys = [n for n in walk_no_nested(uq.node) if isinstance(n, (ast.Yield, ast.YieldFrom))]
        rets = [s for s in iter_stmts(uq.body) if isinstance(s, ast.Return) and s.value is not None]
        if want == "nothing":
            empty = all((isinstance(y, ast.YieldFrom) and isinstance(y.value, (ast.Tuple, ast.List)) and not y.value.elts) for y in ys) and all(isinstance(r.value, (ast.Tuple, ast.List)) and not r.value.elts for r in rets) and (ys or rets)
            if empty:
                rep.ok("C13.3", cons, "yields nothing", uq.loc())
            else:
                rep.violation("C13.3", cons, "the idle definition reports qubits: idle gates block parallel branches and count as used", uq.loc())
        else:
            yields_all = any(isinstance(y, ast.Yield) and isinstance(y.value, ast.Name) and y.value.id == "all" for y in ys)
            if yields_all and len(ys) == 1:
                rep.ok("C13.3", cons, "yields the `all` marker", uq.loc())
            else:
                rep.violation("C13.3", cons, "the busy definition does not yield exactly the `all` marker", uq.loc())
    idle = ix.cls(IDLE)
    cons = cls_construct(ix, IDLE, "no-unitary")
    ca = idle.class_attrs.get("_ideal_unitary")
    sets = any(fi.name == "__init__" for fi, v in idle.self_attrs.get("_ideal_unitary", []))
    if isinstance(ca, ast.Constant) and ca.value is None and not sets:
        rep.ok("C13.3", cons, "class-level unitary is None and __init__ does not set one", idle.loc())
    else:
        rep.violation("C13.3", cons, "an idle gate has (or can have) an ideal unitary: it is not the identity on the state", idle.loc())
    gh = ix.find_method(UQ, "visit_GateStatement")
    vc = ix.find_method(UQ, "visit_Circuit")
    cons = construct_of(gh, "all-marker") if gh else cls_construct(ix, UQ, "all-marker")
    handles_all = gh is not None and any(isinstance(st, ast.If) and isinstance(st.test, ast.Compare) and isinstance(st.test.ops[0], ast.Is) and isinstance(st.test.comparators[0], ast.Name) and st.test.comparators[0].id == "all"
                                         and any(isinstance(n, ast.Attribute) and (n.attr == "all_qubits" or _returns_all_qubits(ix, UQ, n.attr)) for s in st.body for n in ast.walk(s)) for st in iter_stmts(gh.body))
    if handles_all:
        rep.ok("C13.3", cons, "`param is all` merges self.all_qubits", gh.loc())
    else:
        rep.violation("C13.3", cons, "the `all` marker of busy gates is not expanded to all qubits", gh.loc() if gh else "")
    cons = construct_of(vc, "all-qubits-table") if vc else cls_construct(ix, UQ, "all-qubits-table")
    ok = vc is not None and any(isinstance(n, ast.Call) and isinstance(n.func, ast.Attribute) and n.func.attr == "fundamental_registers" for n in walk_no_nested(vc.node)) and any(isinstance(n, ast.Call) and isinstance(n.func, ast.Name) and n.func.id == "range" for n in walk_no_nested(vc.node))
    if ok:
        rep.ok("C13.3", cons, "all_qubits = every index of every fundamental register", vc.loc())
    else:
        rep.violation("C13.3", cons, "the table of all qubits is not built from range(size) of every fundamental register", vc.loc() if vc else "")

    # ------------------------------------------------------------ C13.4
    rep.rule("C13.4", "merging is order independent (set union, symmetric disjointness test)", floor=1)
    cons = construct_of(merge, "union")
    union = any(isinstance(n, ast.AugAssign) and isinstance(n.op, ast.BitOr) for n in walk_no_nested(merge.node)) or any(isinstance(n, ast.Call) and isinstance(n.func, ast.Attribute) and n.func.attr in ("update", "union") for n in walk_no_nested(merge.node))
    ordered = [n for n in walk_no_nested(merge.node) if isinstance(n, ast.Subscript) and isinstance(n.slice, ast.Constant) and isinstance(n.slice.value, int)]
    if union and symmetric and not ordered:
        rep.ok("C13.4", cons, "tgt |= src with a symmetric intersection test", merge.loc())
    else:
        rep.violation("C13.4", cons, "merge_into is not a plain set union with a symmetric disjointness test: the result depends on the order of the branches", merge.loc())

    # ------------------------------------------------------------ C13.5
    rep.rule("C13.5", "a register size that may be a let constant is converted before it is used as an integer", floor=1)
    done_funcs = set()
    for vis in family:
        for c in ix.mro(vis):
            if c == "jaqalpaq.core.algorithm.visitor.Visitor":
                continue
            for lst in ix.classes[c].methods_all.values():
                for fi in lst:
                    if fi.cls != c or fi.qualname in done_funcs:
                        continue
                    done_funcs.add(fi.qualname)
                    par = {}
                    for n in walk_no_nested(fi.node):
                        for ch in ast.iter_child_nodes(n):
                            par[id(ch)] = n
                    for n in walk_no_nested(fi.node):
                        if isinstance(n, ast.Attribute) and n.attr == "size" and isinstance(n.ctx, ast.Load):
                            p = par.get(id(n))
                            cons = construct_of(fi, f"size-as-int:{ast.unparse(n)}")
                            loc = f"{fi.path}:{n.lineno}"
                            if isinstance(p, ast.Call) and isinstance(p.func, ast.Name) and p.func.id == "int":
                                rep.ok("C13.5", cons, "wrapped in int()", loc)
                            elif isinstance(p, ast.Call) and isinstance(p.func, ast.Name) and p.func.id in ("range",) or isinstance(p, (ast.BinOp, ast.Compare)):
                                rep.violation("C13.5", cons, f"`{ast.unparse(p)}` uses Register.size as an integer, but the size of a register declared `register q[n]` is the Constant n (see Register.size): TypeError for every circuit with a let-sized register", loc, witness="let n 2\nregister q[n]\nfoo q[1]")
    # resolve_size() of a fundamental register (or a whole alias of one) returns the size as declared -- possibly a
    # Constant: range()/arithmetic on its result needs int() as well (through a local name too)
    for fi_q in sorted(done_funcs):
        fi = ix.functions[fi_q]
        sized = {}
        for st in iter_stmts(fi.body):
            if isinstance(st, ast.Assign) and len(st.targets) == 1 and isinstance(st.targets[0], ast.Name):
                v = st.value
                raw = isinstance(v, ast.Call) and isinstance(v.func, ast.Attribute) and v.func.attr == "resolve_size"
                conv = isinstance(v, ast.Call) and isinstance(v.func, ast.Name) and v.func.id == "int" and v.args and isinstance(v.args[0], ast.Call) and isinstance(v.args[0].func, ast.Attribute) and v.args[0].func.attr == "resolve_size"
                if raw or conv:
                    sized[st.targets[0].id] = (st, conv)
        for name, (st, conv) in sized.items():
            used_as_int = any(isinstance(n, ast.Call) and isinstance(n.func, ast.Name) and n.func.id == "range" and any(isinstance(a, ast.Name) and a.id == name for a in n.args) for n in walk_no_nested(fi.node))
            if not used_as_int:
                continue
            cons = construct_of(fi, f"size-as-int:{name}=resolve_size()")
            if conv:
                rep.ok("C13.5", cons, "int(resolve_size()) before range()", f"{fi.path}:{st.lineno}")
            else:
                rep.violation("C13.5", cons, f"`{ast.unparse(st)}` then `range({name})`: for `let n 4; register r[n]; map a r; Foo a` resolve_size() returns the Constant n and range() raises TypeError", f"{fi.path}:{st.lineno}", witness="let n 4\nregister r[n]\nmap a r\nFoo a")
    # the same for the register iteration protocol used by DiscoverSubcircuits
    reg_iter = ix.find_method(REGISTER, "__iter__")
    if reg_iter is not None:
        par = {}
        for n in walk_no_nested(reg_iter.node):
            for ch in ast.iter_child_nodes(n):
                par[id(ch)] = n
        for n in walk_no_nested(reg_iter.node):
            if isinstance(n, ast.Attribute) and n.attr == "size":
                p = par.get(id(n))
                cons = construct_of(reg_iter, "size-as-int")
                if isinstance(p, ast.Call) and isinstance(p.func, ast.Name) and p.func.id == "range":
                    rep.violation("C13.5", cons, "Register.__iter__ passes a possibly-Constant size to range()", reg_iter.loc())
                else:
                    rep.ok("C13.5", cons, "size converted before range()", reg_iter.loc())

    # ------------------------------------------------------------ C13.6
    rep.rule("C13.6", "arguments of a macro call are resolved in the caller's scope before they enter the callee's scope", floor=1)
    if gh is not None:
        fl = FuncFlow(ix, T, gh)
        cons = construct_of(gh, "callee-context")
        merged = None
        for n in walk_no_nested(gh.node):
            if isinstance(n, ast.Dict) and any(k is None for k in n.keys) and any(isinstance(m, ast.Attribute) and m.attr == "parameters" for v in n.values for m in ast.walk(v)):
                merged = n
            if isinstance(n, ast.Dict) and any(k is None for k in n.keys):
                for v in n.values:
                    ids, roots = fl.depends(v)
                    if any(isinstance(m, ast.Attribute) and m.attr == "parameters" for r in roots for m in ast.walk(r)):
                        merged = merged or n
        # the scope in which call arguments are resolved is the caller's: it is not written while arguments are bound
        mutated = set()
        for n in walk_no_nested(gh.node):
            if isinstance(n, ast.Subscript) and isinstance(n.ctx, (ast.Store, ast.Del)) and isinstance(n.value, ast.Name):
                mutated.add(n.value.id)
            if isinstance(n, ast.Call) and isinstance(n.func, ast.Attribute) and n.func.attr in ("update", "setdefault", "pop", "clear", "popitem") and isinstance(n.func.value, ast.Name):
                mutated.add(n.func.value.id)
        cons_ro = construct_of(gh, "caller-scope-read-only")
        bad_ro = None
        n_res = 0
        for n in walk_no_nested(gh.node):
            if isinstance(n, ast.Call) and isinstance(n.func, ast.Attribute) and (n.func.attr.startswith("resolve") or n.func.attr.startswith("_resolve")):
                cargs = list(n.args[1:2]) + [k.value for k in n.keywords if k.arg == "context"]
                if n.func.attr == "resolve_value" or n.func.attr == "resolve_qubit":
                    cargs = list(n.args[0:1]) + [k.value for k in n.keywords if k.arg == "context"]
                for a in cargs:
                    n_res += 1
                    if isinstance(a, ast.Name) and a.id in mutated:
                        bad_ro = (n, a)
        # the caller's scope IS the handler's context parameter (not a fresh, empty one)
        ctxp = "context" if "context" in gh.params else None
        if ctxp:
            rebinds = [st for st in iter_stmts(gh.body) if isinstance(st, ast.Assign) and any(isinstance(t, ast.Name) and t.id == ctxp for t in st.targets)]
            lost = [st for st in rebinds if ctxp not in names_in(st.value) or (isinstance(st.value, ast.BoolOp) and isinstance(st.value.op, ast.And))]
            cons_sc = construct_of(gh, "caller-scope-kept")
            if lost:
                rep.violation("C13.6", cons_sc, f"`{ast.unparse(lost[0])}` discards the caller's scope: arguments that are parameters of the enclosing macro can no longer be resolved (`macro outer x {{ inner x }}` reports 'Unbound identifier' or the wrong qubit)", f"{gh.path}:{lost[0].lineno}")
            else:
                rep.ok("C13.6", cons_sc, "the scope used for resolution is the handler's context parameter (defaulted to {} only when absent)", gh.loc())
        if bad_ro is not None:
            rep.violation("C13.6", cons_ro, f"`{ast.unparse(bad_ro[0])}` resolves a call argument in `{bad_ro[1].id}`, which is being filled with the callee's parameters in the same handler: an argument named like an earlier parameter of the callee resolves to that parameter's binding (`macro inner a b {{ Px b }}; macro outer b a {{ inner b a }}` reports the wrong qubit)", f"{gh.path}:{bad_ro[0].lineno}")
        elif n_res:
            rep.ok("C13.6", cons_ro, f"{n_res} resolution calls use a scope that is not written in the handler", gh.loc())
        if merged is None:
            rep.undecided("C13.6", cons, "no merged callee context found", gh.loc())
        else:
            # the argument part must have gone through a resolution step that mentions the caller's context
            arg_vals = [v for k, v in zip(merged.keys, merged.values) if k is None]
            resolved = False
            raw = None
            for v in arg_vals:
                ids, roots = fl.depends(v)
                touches_params = any(isinstance(m, ast.Attribute) and m.attr == "parameters" for r in roots for m in ast.walk(r))
                if not touches_params:
                    continue
                has_resolve = any(
                    isinstance(m, ast.Call) and isinstance(m.func, ast.Attribute) and (m.func.attr.startswith("resolve") or m.func.attr.startswith("_resolve") or m.func.attr == "visit")
                    for r in roots for m in ast.walk(r)
                )
                if has_resolve:
                    resolved = True
                else:
                    raw = v
            # the callee's own arguments take precedence over what is inherited from the caller
            order_bad = False
            starred = [v for k, v in zip(merged.keys, merged.values) if k is None]
            if len(starred) == 2:
                first_touches = any(isinstance(m, ast.Attribute) and m.attr == "parameters" for r in fl.depends(starred[0])[1] for m in ast.walk(r))
                second_touches = any(isinstance(m, ast.Attribute) and m.attr == "parameters" for r in fl.depends(starred[1])[1] for m in ast.walk(r))
                if first_touches and not second_touches:
                    order_bad = True
            if order_bad:
                rep.violation("C13.6", cons, f"`{ast.unparse(merged)}` lets the caller's scope override the callee's own arguments: a parameter name re-used by an inner macro resolves to the OUTER binding (`macro flip a {{ Px a }}; macro second a b {{ flip b }}; second q[0] q[1]` reports qubit 0)", f"{gh.path}:{merged.lineno}", witness="macro flip a { Px a }\nmacro second a b { flip b }\nsecond q[0] q[1]")
            elif resolved and raw is None:
                rep.ok("C13.6", cons, "call arguments pass through a resolve step before being merged into the callee's context", gh.loc())
            else:
                rep.violation("C13.6", cons, f"`{ast.unparse(merged)}` puts the call's raw arguments into the callee's scope: an argument that is itself a parameter of the enclosing macro with the same name as the callee's parameter is bound to itself (`macro inner a {{ g a }}; macro outer a {{ inner a }}; outer r[1]` -> RecursionError)", f"{gh.path}:{merged.lineno}", witness="register r[3]\nmacro inner a { g a }\nmacro outer a { inner a }\nouter r[1]")
