"""Helpers shared by the per-property rule sets."""

from __future__ import annotations

import ast
from typing import Dict, Iterable, List, Optional, Tuple

from ..index import AnalysisError, FuncInfo
from ..fieldflow import Transformer
from ..cfg import walk_no_nested


def short(qual: str) -> str:
    return qual[len("jaqalpaq."):] if qual.startswith("jaqalpaq.") else qual


def construct_of(f: FuncInfo, detail: str = "") -> str:
    """module:qualname[:detail] -- never a line number."""
    mod = short(f.module)
    q = f.qualname[len(f.module) + 1:]
    return f"{mod}:{q}" + (f":{detail}" if detail else "")


def cls_construct(ix, cls_qual: str, detail: str = "") -> str:
    c = ix.classes[cls_qual]
    return f"{short(c.module)}:{c.name}" + (f":{detail}" if detail else "")


def visitor_transformer(ctx, visitor_cls: str, extra_entries: Iterable[str] = (), modules=None, name="") -> Transformer:
    """Transformer made of all visit_*/helper methods of a Visitor subclass (through
    its in-package MRO, the base Visitor excluded) plus what they reach in the
    same module."""
    ix, T = ctx.ix, ctx.typer
    ix.cls(visitor_cls)
    entries = []
    for c in ix.mro(visitor_cls):
        if c == "jaqalpaq.core.algorithm.visitor.Visitor":
            continue
        for lst in ix.classes[c].methods_all.values():
            for fi in lst:
                entries.append(fi.qualname)
    entries += list(extra_entries)
    mods = set(modules or [])
    for c in ix.mro(visitor_cls):
        if c != "jaqalpaq.core.algorithm.visitor.Visitor":
            mods.add(ix.classes[c].module)
    # methods of *other* classes' visitors are not part of this transformer
    mro = set(ix.mro(visitor_cls))

    def owner_cls(f):
        while f is not None and f.cls is None and f.parent:
            f = ix.functions.get(f.parent)
        return f.cls if f is not None else None

    def keep(f):
        o = owner_cls(f)
        return o is None or o in mro or not T.is_visitor(o)

    return Transformer.from_entry(ix, T, entries, modules=sorted(mods), name=name or visitor_cls, keep=keep)


def check_field_flow(ctx, rep, rule: str, tr: Transformer, visitor_cls: Optional[str],
                     table: List[Tuple[str, str, str, str]], ctor: bool = True,
                     ctor_rule: Optional[str] = None, owner: str = ""):
    """Apply the READ and CTOR rules.

    table rows: (class qualname, public member name, 'required'|'exempt', reason)
    """
    ix = ctx.ix
    ctor_rule = ctor_rule or rule
    owner = owner or (cls_construct(ix, visitor_cls) if visitor_cls else tr.name)
    by_class: Dict[str, Dict[str, Tuple[str, str]]] = {}
    for cls, member, mode, reason in table:
        ix.cls(cls)
        by_class.setdefault(cls, {})[member] = (mode, reason)
    passthrough = visitor_cls is not None and tr.default_passthrough(visitor_cls)
    for cls, members in by_class.items():
        kname = ix.classes[cls].name
        fields = ix.init_fields(cls)
        fprops = ix.field_properties(cls)
        covered_fields = set()
        handler = tr.has_handler(visitor_cls, cls) if visitor_cls else None
        for member, (mode, reason) in members.items():
            mf = tr.member_fields(cls, member) - {"*"}
            if not mf:
                raise AnalysisError(f"{rule}: member {kname}.{member} reads no constructor field (anchor vanished)")
            covered_fields |= mf
            cons = f"{owner}:{kname}.{member}"
            if mode == "exempt":
                rep.exempt(rule, cons, reason)
                continue
            # READ
            found = None
            for fld in sorted(mf):
                for f, node, how in tr.field_reads(cls, fld):
                    found = (f, node, how)
                    break
                if found:
                    break
            if not found and visitor_cls and handler is None and passthrough:
                found = (ix.find_method(visitor_cls, "visit_default"), None, "default")
            if not found:
                rep.violation(
                    rule, cons,
                    f"no read of {kname}.{member} reaches the result of {tr.name.split('.')[-1]}: "
                    f"the output cannot depend on it ({reason})",
                    loc=(handler.loc() if handler else ix.classes[visitor_cls].loc() if visitor_cls else ""),
                )
                continue
            f, node, how = found
            rep.ok(rule, cons, f"{how} read in {construct_of(f)}", loc=f"{f.path}:{getattr(node, 'lineno', f.lineno)}")
            # CTOR
            if not ctor or mode == "read":
                continue
            for cf, call, inputs in tr.ctor_sites(cls):
                for fld in sorted(mf):
                    verdict, detail = tr.ctor_field_dependence(cf, call, cls, fld, inputs)
                    ccons = f"{construct_of(cf)}:{kname}({member})"
                    loc = f"{cf.path}:{call.lineno}"
                    if verdict in ("data", "control", "whole"):
                        rep.ok(ctor_rule, ccons, f"{verdict} dependence on the input's {member}", loc)
                    elif verdict == "undecided":
                        rep.undecided(ctor_rule, ccons, detail, loc)
                    elif verdict == "filtered":
                        rep.violation(ctor_rule, ccons, f"{detail}; {reason}", loc)
                    else:
                        rep.violation(
                            ctor_rule, ccons,
                            f"{kname} rebuilt from a {kname} input but its {member} is {verdict} ({detail}); {reason}",
                            loc,
                        )
        for fld in fields:
            if fld not in covered_fields:
                rep.undecided(rule, f"{owner}:{kname}.{fld}", "field has no entry in the obligation table (new field?)")


def position_visited(ctx, tr: Transformer, cls: str, member: str, sub_attr: Optional[str] = None,
                     via_methods: Iterable[str] = ()) -> Optional[Tuple[FuncInfo, ast.AST]]:
    """Is the IR position (cls.member[.sub_attr]) passed to the visitor's own
    ``visit`` (or one of ``via_methods`` of the visitor) somewhere in ``tr``?"""
    ix, T = ctx.ix, ctx.typer
    hier = set(ix.mro(cls)) | set(ix.subclasses(cls))
    via = set(via_methods)
    for f in tr.funcs:
        fl = tr.flows[f.qualname]
        for cs in T.callsites(f):
            if not isinstance(cs.node, ast.Call) or not cs.node.args:
                continue
            is_visit = cs.kind == "visit"
            is_via = cs.kind == "method" and any(t.name in via for t in cs.targets)
            if not (is_visit or is_via):
                continue
            arg = cs.node.args[0]
            if sub_attr is not None:
                # the argument itself (or what it is defined from) must be <expr>.sub_attr
                cands = [arg] + [d for n in [arg] if isinstance(n, ast.Name) for d in fl.defs.get(n.id, [])]
                ok_sub = False
                for c in cands:
                    if isinstance(c, ast.Attribute) and c.attr == sub_attr:
                        ok_sub = True
                if not ok_sub:
                    continue
            ids, _ = fl.depends(arg)
            for m in walk_no_nested(f.node):
                if id(m) in ids and isinstance(m, ast.Attribute) and m.attr == member and isinstance(m.ctx, ast.Load):
                    rt = {t for t in T.types_of(m.value) if t in ix.classes}
                    if (rt & hier) or not rt:
                        return f, cs.node
    return None


def check_changed_flag(ctx, rep, rule: str, tr: Transformer):
    """A handler that returns its input node unchanged under a `changed`-style flag
    must accumulate that flag over all visited children (contradiction rule:
    a flag re-assigned per iteration without reading itself lets only the last
    child decide)."""
    ix, T = ctx.ix, ctx.typer
    from ..cfg import iter_stmts

    for f in tr.funcs:
        if not f.cls or len(f.params) < 2:
            continue
        fl = tr.flows[f.qualname]
        inputs = set(f.params[1:])
        for st in iter_stmts(f.body):
            if not isinstance(st, ast.Return) or st.value is None:
                continue
            vals = st.value.elts if isinstance(st.value, ast.Tuple) else [st.value]
            if not any(isinstance(v, ast.Name) and v.id in inputs for v in vals):
                continue
            flags = set()
            for t in fl.control_tests(st):
                for n in ast.walk(t):
                    if isinstance(n, ast.Name) and n.id not in inputs and n.id != fl.selfname:
                        flags.add(n.id)
            for flag in sorted(flags):
                # definitions of the flag inside loops
                bad = None
                n_loop_defs = 0
                for loop in iter_stmts(f.body):
                    if not isinstance(loop, (ast.For, ast.While)):
                        continue
                    for s in iter_stmts(loop.body):
                        if isinstance(s, ast.Assign) and any(isinstance(t, ast.Name) and t.id == flag for t in s.targets):
                            n_loop_defs += 1
                            if flag not in {n.id for n in ast.walk(s.value) if isinstance(n, ast.Name)}:
                                bad = s
                        elif isinstance(s, ast.AugAssign) and isinstance(s.target, ast.Name) and s.target.id == flag:
                            n_loop_defs += 1
                if n_loop_defs == 0:
                    continue
                cons = construct_of(f, f"unchanged-flag:{flag}")
                if bad is not None:
                    rep.violation(rule, cons, f"`{flag}` is overwritten in every iteration (`{ast.unparse(bad)}`) and then decides whether the original node is returned: only the last child counts, rewritten children before it are discarded", f"{f.path}:{bad.lineno}")
                else:
                    rep.ok(rule, cons, f"`{flag}` accumulates over all children", f.loc())
