"""Helpers shared by the per-property rule sets."""

from __future__ import annotations

import ast
from typing import Dict, Iterable, List, Optional, Tuple

from ..index import AnalysisError, FuncInfo
from ..fieldflow import Transformer
from ..cfg import walk_no_nested


def short(qual: str) -> str:
    return qual[len("jaqalpaq."):] if qual.startswith("jaqalpaq.") else qual


def construct_of(f: FuncInfo, detail: str = "") -> str:
    """module:qualname[:detail] -- never a line number."""
    mod = short(f.module)
    q = f.qualname[len(f.module) + 1:]
    return f"{mod}:{q}" + (f":{detail}" if detail else "")


def cls_construct(ix, cls_qual: str, detail: str = "") -> str:
    c = ix.classes[cls_qual]
    return f"{short(c.module)}:{c.name}" + (f":{detail}" if detail else "")


def visitor_transformer(ctx, visitor_cls: str, extra_entries: Iterable[str] = (), modules=None, name="") -> Transformer:
    """Transformer made of all visit_*/helper methods of a Visitor subclass (through
    its in-package MRO, the base Visitor excluded) plus what they reach in the
    same module."""
    ix, T = ctx.ix, ctx.typer
    ix.cls(visitor_cls)
    entries = []
    for c in ix.mro(visitor_cls):
        if c == "jaqalpaq.core.algorithm.visitor.Visitor":
            continue
        for lst in ix.classes[c].methods_all.values():
            for fi in lst:
                entries.append(fi.qualname)
    entries += list(extra_entries)
    mods = set(modules or [])
    for c in ix.mro(visitor_cls):
        if c != "jaqalpaq.core.algorithm.visitor.Visitor":
            mods.add(ix.classes[c].module)
    # methods of *other* classes' visitors are not part of this transformer
    mro = set(ix.mro(visitor_cls))

    def owner_cls(f):
        while f is not None and f.cls is None and f.parent:
            f = ix.functions.get(f.parent)
        return f.cls if f is not None else None

    def keep(f):
        o = owner_cls(f)
        return o is None or o in mro or not T.is_visitor(o)

    return Transformer.from_entry(ix, T, entries, modules=sorted(mods), name=name or visitor_cls, keep=keep)


def check_field_flow(ctx, rep, rule: str, tr: Transformer, visitor_cls: Optional[str],
                     table: List[Tuple[str, str, str, str]], ctor: bool = True,
                     ctor_rule: Optional[str] = None, owner: str = ""):
    """Apply the READ and CTOR rules.

    table rows: (class qualname, public member name, 'required'|'exempt', reason)
    """
    ix = ctx.ix
    ctor_rule = ctor_rule or rule
    owner = owner or (cls_construct(ix, visitor_cls) if visitor_cls else tr.name)
    by_class: Dict[str, Dict[str, Tuple[str, str]]] = {}
    for cls, member, mode, reason in table:
        ix.cls(cls)
        by_class.setdefault(cls, {})[member] = (mode, reason)
    passthrough = visitor_cls is not None and tr.default_passthrough(visitor_cls)
    for cls, members in by_class.items():
        kname = ix.classes[cls].name
        fields = ix.init_fields(cls)
        fprops = ix.field_properties(cls)
        covered_fields = set()
        handler = tr.has_handler(visitor_cls, cls) if visitor_cls else None
        for member, (mode, reason) in members.items():
            mf = tr.member_fields(cls, member) - {"*"}
            if not mf:
                raise AnalysisError(f"{rule}: member {kname}.{member} reads no constructor field (anchor vanished)")
            covered_fields |= mf
            cons = f"{owner}:{kname}.{member}"
            if mode == "exempt":
                rep.exempt(rule, cons, reason)
                continue
            # READ
            found = None
            for fld in sorted(mf):
                for f, node, how in tr.field_reads(cls, fld):
                    found = (f, node, how)
                    break
                if found:
                    break
            if not found and visitor_cls and handler is None and passthrough:
                found = (ix.find_method(visitor_cls, "visit_default"), None, "default")
            if not found:
                rep.violation(
                    rule, cons,
                    f"no read of {kname}.{member} reaches the result of {tr.name.split('.')[-1]}: "
                    f"the output cannot depend on it ({reason})",
                    loc=(handler.loc() if handler else ix.classes[visitor_cls].loc() if visitor_cls else ""),
                )
                continue
            f, node, how = found
            rep.ok(rule, cons, f"{how} read in {construct_of(f)}", loc=f"{f.path}:{getattr(node, 'lineno', f.lineno)}")
            # CTOR
            if not ctor or mode == "read":
                continue
            for cf, call, inputs in tr.ctor_sites(cls):
                for fld in sorted(mf):
                    verdict, detail = tr.ctor_field_dependence(cf, call, cls, fld, inputs)
                    ccons = f"{construct_of(cf)}:{kname}({member})"
                    loc = f"{cf.path}:{call.lineno}"
                    if verdict in ("data", "control", "whole"):
                        rep.ok(ctor_rule, ccons, f"{verdict} dependence on the input's {member}", loc)
                    elif verdict == "undecided":
                        rep.undecided(ctor_rule, ccons, detail, loc)
                    elif verdict == "filtered":
                        rep.violation(ctor_rule, ccons, f"{detail}; {reason}", loc)
                    else:
                        rep.violation(
                            ctor_rule, ccons,
                            f"{kname} rebuilt from a {kname} input but its {member} is {verdict} ({detail}); {reason}",
                            loc,
                        )
        for fld in fields:
            if fld not in covered_fields:
                rep.undecided(rule, f"{owner}:{kname}.{fld}", "field has no entry in the obligation table (new field?)")


def position_visited(ctx, tr: Transformer, cls: str, member: str, sub_attr: Optional[str] = None,
                     via_methods: Iterable[str] = ()) -> Optional[Tuple[FuncInfo, ast.AST]]:
    """Is the IR position (cls.member[.sub_attr]) passed to the visitor's own
    ``visit`` (or one of ``via_methods`` of the visitor) somewhere in ``tr``?"""
    ix, T = ctx.ix, ctx.typer
    hier = set(ix.mro(cls)) | set(ix.subclasses(cls))
    via = set(via_methods)
    # helpers of the visitor that hand their own argument on to visit() count as visiting it
    handler_names = {f"visit_{c.name}" for c in ix.classes.values()} | {"visit_default", "visit"}
    fwd_pos = {}  # helper name -> positions (among non-self parameters) handed on to visit()
    for g in tr.funcs:
        if g.cls and g.name not in handler_names and len(g.params) >= 2:
            for n in walk_no_nested(g.node):
                if isinstance(n, ast.Call) and isinstance(n.func, ast.Attribute) and n.func.attr == "visit" and n.args and isinstance(n.args[0], ast.Name) and n.args[0].id in g.params[1:]:
                    via.add(g.name)
                    fwd_pos.setdefault(g.name, set()).add(g.params[1:].index(n.args[0].id))
    for f in tr.funcs:
        fl = tr.flows[f.qualname]
        for cs in T.callsites(f):
            if not isinstance(cs.node, ast.Call) or not cs.node.args:
                continue
            is_visit = cs.kind == "visit"
            is_via = cs.kind == "method" and any(t.name in via for t in cs.targets)
            if not (is_visit or is_via):
                continue
            arg = cs.node.args[0]
            if is_via and not is_visit:
                tn = next((t.name for t in cs.targets if t.name in via), None)
                pos = sorted(fwd_pos.get(tn, {0}))
                cand_args = [cs.node.args[i] for i in pos if i < len(cs.node.args)]
                if not cand_args:
                    continue
                arg = cand_args[0]
            if sub_attr is not None:
                # the argument itself (or what it is defined from) must be <expr>.sub_attr
                cands = [arg] + [d for n in [arg] if isinstance(n, ast.Name) for d in fl.defs.get(n.id, [])]
                ok_sub = False
                for c in cands:
                    if isinstance(c, ast.Attribute) and c.attr == sub_attr:
                        ok_sub = True
                if not ok_sub:
                    continue
            ids, _ = fl.depends(arg)
            for m in walk_no_nested(f.node):
                if id(m) in ids and isinstance(m, ast.Attribute) and m.attr == member and isinstance(m.ctx, ast.Load):
                    rt = {t for t in T.types_of(m.value) if t in ix.classes}
                    if (rt & hier) or not rt:
                        return f, cs.node
    return None


def check_changed_flag(ctx, rep, rule: str, tr: Transformer):
    """A handler that returns its input node unchanged under a `changed`-style flag
    must accumulate that flag over all visited children (contradiction rule:
    a flag re-assigned per iteration without reading itself lets only the last
    child decide)."""
    ix, T = ctx.ix, ctx.typer
    from ..cfg import iter_stmts

    for f in tr.funcs:
        if not f.cls or len(f.params) < 2:
            continue
        fl = tr.flows[f.qualname]
        inputs = set(f.params[1:])
        for st in iter_stmts(f.body):
            if not isinstance(st, ast.Return) or st.value is None:
                continue
            vals = st.value.elts if isinstance(st.value, ast.Tuple) else [st.value]
            if not any(isinstance(v, ast.Name) and v.id in inputs for v in vals):
                continue
            flags = set()
            for t in fl.control_tests(st):
                for n in ast.walk(t):
                    if isinstance(n, ast.Name) and n.id not in inputs and n.id != fl.selfname:
                        flags.add(n.id)
            for flag in sorted(flags):
                # definitions of the flag inside loops
                bad = None
                n_loop_defs = 0
                for loop in iter_stmts(f.body):
                    if not isinstance(loop, (ast.For, ast.While)):
                        continue
                    for s in iter_stmts(loop.body):
                        if isinstance(s, ast.Assign) and any(isinstance(t, ast.Name) and t.id == flag for t in s.targets):
                            n_loop_defs += 1
                            if flag not in {n.id for n in ast.walk(s.value) if isinstance(n, ast.Name)}:
                                bad = s
                        elif isinstance(s, ast.Assign) and any(isinstance(t, (ast.Tuple, ast.List)) and any(isinstance(e, ast.Name) and e.id == flag for e in t.elts) for t in s.targets):
                            # unpacking a child's (flag, node) result straight into the accumulator
                            n_loop_defs += 1
                            bad = s
                        elif isinstance(s, ast.AugAssign) and isinstance(s.target, ast.Name) and s.target.id == flag:
                            n_loop_defs += 1
                if n_loop_defs == 0:
                    continue
                cons = construct_of(f, f"unchanged-flag:{flag}")
                if bad is not None:
                    rep.violation(rule, cons, f"`{flag}` is overwritten in every iteration (`{ast.unparse(bad)}`) and then decides whether the original node is returned: only the last child counts, rewritten children before it are discarded", f"{f.path}:{bad.lineno}")
                else:
                    rep.ok(rule, cons, f"`{flag}` accumulates over all children", f.loc())


# ---------------------------------------------------------------------- falsy zero (E10)
FZ_EXCLUDED = ("jaqalpaq.emulator", "jaqalpaq.run", "jaqalpaq.ipc", "jaqalpaq._cli", "jaqalpaq._import",
               "jaqalpaq.core.algorithm.walkers", "jaqalpaq.core.result", "jaqalpaq.utilities", "jaqalpaq.scheduler", "jaqalpaq.transpilers")
FZ_RULE_TEXT = ("a value slot that can legitimately hold the number 0 (count, index, macro argument, let value, S-expression argument, "
                "numeric grammar value) is never tested by truthiness: 0 is not 'absent'")


def falsy_zero(ctx):
    """One falsy-zero analysis over the front end, builder, passes, generator and equality code (cached on ctx)."""
    if "falsy_zero" in ctx.cache:
        return ctx.cache["falsy_zero"]
    from ..truthy import Config, FalsyZero
    from ..lexer import extract_lexer, extract_parser

    ix, T = ctx.ix, ctx.typer
    funcs = [f for f in ix.functions.values()
             if f.module.startswith("jaqalpaq.") and not any(f.module == m or f.module.startswith(m + ".") for m in FZ_EXCLUDED)]
    CONST = "jaqalpaq.core.constant.Constant"
    ANNV = "jaqalpaq.core.parameter.AnnotatedValue"
    GATE = "jaqalpaq.core.gate.GateStatement"
    typed = set()
    for c in (CONST, ANNV):
        if c in ix.classes:
            typed |= {(c, "value"), (c, "_value")}
    cfg = Config(
        # `stop`: 0 is a real bound and None an open one (`start or 0` and `if step` are equivalences, so they stay out)
        attrs={"iterations", "_iterations", "alias_index", "_alias_index", "stop"},
        typed_attrs=typed,
        map_names={"arguments", "override_dict"},
        passthrough={"as_integer", "filter_float", "int", "float", "build", "visit", "build_count", "resolve_constant"},
    )
    cfg.typed_map_attrs = {(GATE, "parameters"), (GATE, "_parameters")}
    # counts handed to the public builder / Q-syntax API (0 is a count, None or "" is `no count`)
    for f_ in funcs:
        if f_.module in ("jaqalpaq.core.circuitbuilder", "jaqalpaq.qsyntax.qsyntax") and not isinstance(f_.node, ast.Lambda) and "iterations" in f_.all_params:
            cfg.param_slots.add((f_.qualname, "iterations"))

    # S-expression arguments: `<sexpr>.args` where the receiver is an SExpression (typed or by the repository's naming)
    def container_pred(f, e):
        if not (isinstance(e, ast.Attribute) and e.attr == "args"):
            return False
        ts = T.expr_types.get(id(e.value)) or ()
        if any(t.endswith(".SExpression") for t in ts):
            return True
        return isinstance(e.value, ast.Name) and e.value.id in ("sexpression", "sexpr")
    cfg.container_pred = container_pred

    # numeric grammar symbols: fixpoint over the production methods
    lm = extract_lexer(ix)
    pm = extract_parser(ix)
    numeric = {r.name for r in lm.rules if r.conversion in ("int", "float", "int-other")}
    by_func = {}
    for p in pm.productions:
        by_func.setdefault(p.func.qualname, []).append(p)
    pfuncs = [p.func for p in pm.productions]

    def make_sources():
        srcs = {}
        for q, prods in by_func.items():
            fi = prods[0].func
            tree = fi.params[1] if len(fi.params) > 1 else None
            if tree is None:
                continue
            names = set()
            idx = set()
            for p in prods:
                for i, s in enumerate(p.rhs):
                    if s in numeric:
                        names.add(s)
                        idx.add(i)
                        # sly numbers repeated symbols: INT0, INT1
                        names.add(f"{s}0")
                        names.add(f"{s}1")

            def pred(e, tree=tree, names=frozenset(names), idx=frozenset(idx)):
                if isinstance(e, ast.Attribute) and isinstance(e.value, ast.Name) and e.value.id == tree and e.attr in names:
                    return True
                if isinstance(e, ast.Subscript) and isinstance(e.value, ast.Name) and e.value.id == tree and isinstance(e.slice, ast.Constant) and e.slice.value in idx:
                    return True
                return False
            srcs[q] = pred
        return srcs

    for _ in range(10):
        cfg.func_sources = make_sources()
        fz = FalsyZero(ix, T, pfuncs, cfg)
        new = set(numeric)
        for p in pm.productions:
            if p.func.qualname in fz.ret_slot:
                new.add(p.lhs)
        if new == numeric:
            break
        numeric = new
    cfg.func_sources = make_sources()
    fz = FalsyZero(ix, T, funcs, cfg)
    res = {"engine": fz, "hits": fz.hits(), "numeric_symbols": sorted(numeric), "funcs": funcs}
    ctx.cache["falsy_zero"] = res
    return res


def check_falsy_zero(ctx, rep, rule: str, modules, floor_positions: int = 1):
    """Report the falsy-zero hits that lie in ``modules`` (prefix match) under ``rule``."""
    from ..truthy import truth_positions

    res = falsy_zero(ctx)
    rep.rule(rule, FZ_RULE_TEXT, floor=1)

    def inmods(f):
        return any(f.module == m or f.module.startswith(m + ".") for m in modules)
    funcs = [f for f in res["funcs"] if inmods(f)]
    if not funcs:
        raise AnalysisError(f"{rule}: no functions in {modules} (anchor vanished)")
    rep.analysed.setdefault("falsy_zero_numeric_symbols", res["numeric_symbols"])
    by_mod = {}
    for f in funcs:
        by_mod.setdefault(f.module, [0, 0])
        by_mod[f.module][0] += len(truth_positions(f.node))
        by_mod[f.module][1] += len(res["engine"].slots[f.qualname])
    hits = [h for h in res["hits"] if inmods(h.func)]
    bad_mods = set()
    seen = set()
    for h in hits:
        cons = construct_of(h.func, f"truthiness:{ast.unparse(h.node)[:60]}")
        if cons in seen:
            continue
        seen.add(cons)
        bad_mods.add(h.func.module)
        rep.violation(rule, cons, f"`{ast.unparse(h.node)}` is tested by truthiness ({h.why}) but is {h.origin}, which can be the number 0: zero would be treated as absent/false", f"{h.func.path}:{h.node.lineno}")
    total = 0
    for m, (npos, nslots) in sorted(by_mod.items()):
        total += npos
        if m not in bad_mods:
            rep.ok(rule, f"{short(m)}:truthiness-positions", f"{npos} truthiness positions, {nslots} slot-valued names tracked; none tests a value slot")
    if total < floor_positions:
        raise AnalysisError(f"{rule}: only {total} truthiness positions found in {modules}; expected at least {floor_positions}")


# ---------------------------------------------------------------------- fast paths
FP_RULE_TEXT = ("a fast path that returns (part of) its input untransformed is guarded by a test that consults every part it skips "
                "(a guard that never looks at a member cannot know that nothing in it needs rewriting)")


# a guard on this attribute settles these members too (reason each)
FP_GUARD_COVERS = {
    "fundamental": ({"alias_from", "alias_slice"}, "Register.fundamental is `alias_from is None`, and a register without a source has no slice (Register.__init__)"),
}


def _attr_reads_of(name: str, exprs) -> set:
    out = set()
    for e in exprs:
        for m in ast.walk(e):
            if isinstance(m, ast.Attribute) and isinstance(m.value, ast.Name) and m.value.id == name:
                out.add(m.attr)
                if m.attr in FP_GUARD_COVERS:
                    out |= FP_GUARD_COVERS[m.attr][0]
    return out


def check_fast_paths(ctx, rep, rule: str, funcs, entry_required: Optional[Dict[str, set]] = None, floor: int = 1):
    """See FP_RULE_TEXT.  ``funcs``: visitor handlers / entry functions; ``entry_required``: qualname -> members an
    input-returning path of that entry function must have consulted."""
    from ..fieldflow import FuncFlow
    from ..cfg import iter_stmts

    ix, T = ctx.ix, ctx.typer
    rep.rule(rule, FP_RULE_TEXT, floor=floor)
    entry_required = entry_required or {}
    n_funcs = 0
    for f in funcs:
        if isinstance(f.node, ast.Lambda):
            continue
        params = f.params[1:] if f.cls else f.params
        if not params:
            continue
        x = params[0]
        n_funcs += 1
        # members of x handed to a visit on some path of f
        visited = set()
        for n in walk_no_nested(f.node):
            if isinstance(n, ast.Call) and isinstance(n.func, ast.Attribute) and n.func.attr == "visit":
                visited |= _attr_reads_of(x, n.args)
            if isinstance(n, (ast.For, ast.comprehension)):
                # for s in x.m: ... self.visit(s)
                its = _attr_reads_of(x, [n.iter])
                if its:
                    body_nodes = n.body if isinstance(n, ast.For) else []
                    tgt = {t.id for t in ast.walk(n.target) if isinstance(t, ast.Name)}
                    for b in body_nodes:
                        for c in ast.walk(b):
                            if isinstance(c, ast.Call) and isinstance(c.func, ast.Attribute) and c.func.attr == "visit" and any(isinstance(a, ast.Name) and a.id in tgt for a in c.args):
                                visited |= its
        for n in walk_no_nested(f.node):
            if isinstance(n, (ast.ListComp, ast.GeneratorExp, ast.DictComp, ast.SetComp)):
                elt_calls = [c for c in ast.walk(n) if isinstance(c, ast.Call) and isinstance(c.func, ast.Attribute) and c.func.attr == "visit"]
                if elt_calls:
                    for g in n.generators:
                        visited |= _attr_reads_of(x, [g.iter])
        required_whole = entry_required.get(f.qualname, visited)
        fl = None
        for st in iter_stmts(f.body):
            if not isinstance(st, ast.Return) or st.value is None:
                continue
            vals = st.value.elts if isinstance(st.value, ast.Tuple) else [st.value]
            skipped = set()
            what = None
            for v in vals:
                if isinstance(v, ast.Name) and v.id == x and required_whole:
                    skipped |= set(required_whole)
                    what = x
                elif isinstance(v, ast.Attribute) and isinstance(v.value, ast.Name) and v.value.id == x and v.attr in visited:
                    skipped.add(v.attr)
                    what = f"{x}.{v.attr}"
            if not skipped:
                continue
            if fl is None:
                fl = FuncFlow(ix, T, f)
            tests = fl.control_tests(st)
            cons = construct_of(f, f"fast-path:return {what}")
            loc = f"{f.path}:{st.lineno}"
            if not tests:
                # unconditional return of the input on the only path: this handler simply does not transform
                continue
            exprs = list(tests)
            for t in tests:
                ids, roots = fl.depends(t)
                exprs += list(roots)
            reads = _attr_reads_of(x, exprs)
            # one level into helpers that receive x (or a member of x) as an argument
            whole_unresolved = False
            for e in exprs:
                for c in ast.walk(e):
                    if not isinstance(c, ast.Call):
                        continue
                    for i, a in enumerate(c.args):
                        if isinstance(a, ast.Name) and a.id == x:
                            targets = [t for cs in T.callsites(f) if cs.node is c for t in cs.targets]
                            if not targets:
                                whole_unresolved = True
                            for t in targets:
                                ps = t.params[1:] if (t.cls and not t.is_staticmethod) else t.params
                                if i < len(ps):
                                    reads |= _attr_reads_of(ps[i], [t.node])
            missing = sorted(skipped - reads)
            if missing and whole_unresolved:
                rep.undecided(rule, cons, f"the guard passes `{x}` to a call that could not be resolved", loc)
            elif missing:
                rep.violation(rule, cons, f"`{ast.unparse(st)}` hands back `{what}` untransformed under a guard ({'; '.join(ast.unparse(t)[:50] for t in tests)}) that never consults {', '.join(f'{x}.{m}' for m in missing)}: whatever needs rewriting there is skipped", loc)
            else:
                rep.ok(rule, cons, f"guard consults {', '.join(sorted(skipped))}", loc)
    if n_funcs == 0:
        raise AnalysisError(f"{rule}: no functions to analyse (anchor vanished)")
    mods = sorted({short(f.module) for f in funcs})
    rep.ok(rule, f"{'+'.join(mods)}:fast-path-scan", f"{n_funcs} handlers/entry functions scanned for returns of (a visited member of) their input")
    rep.analysed.setdefault("fast_path_functions", 0)
    rep.analysed["fast_path_functions"] += n_funcs


# ---------------------------------------------------------------------- coercion of symbolic values
def check_coercion(ctx, rep, rule: str, modules):
    """In passes that must leave let constants symbolic, int()/float() of a value slot is applied only after an
    isinstance test against plain number types: Constant implements __int__/__float__, so an unguarded coercion
    silently freezes a let constant at its file value."""
    from ..fieldflow import FuncFlow

    ix, T = ctx.ix, ctx.typer
    res = falsy_zero(ctx)
    fz = res["engine"]
    rep.rule(rule, "a pass other than let substitution coerces a value slot with int()/float() only under an isinstance test for plain numbers (Constant has __int__/__float__: unguarded coercion freezes a let constant, so overrides stop reaching it)", floor=1)
    NUM = {"int", "float", "Integral", "Real", "Number", "bool"}
    n = 0
    for f in res["funcs"]:
        if f.module not in modules or isinstance(f.node, ast.Lambda):
            continue
        fl = None
        for c in walk_no_nested(f.node):
            if not (isinstance(c, ast.Call) and isinstance(c.func, ast.Name) and c.func.id in ("int", "float") and c.args):
                continue
            a = c.args[0]
            origin = fz.slot_origin(f, a)
            if origin is None:
                continue
            n += 1
            if fl is None:
                fl = FuncFlow(ix, T, f)
            tests = list(fl.control_tests(c))
            # operands to the left in an enclosing `and`
            node = c
            while node is not None and not isinstance(node, ast.stmt):
                par = fl.parent.get(id(node))
                if isinstance(par, ast.BoolOp) and isinstance(par.op, ast.And):
                    i = next((k for k, v in enumerate(par.values) if v is node), 0)
                    tests += par.values[:i]
                node = par
            key = ast.unparse(a)
            guarded = False
            int_typed = False  # the guard itself says the value is an integer type: int() cannot truncate
            # the isinstance calls known to be TRUE at the coercion: positive conjuncts of the tests whose taken
            # branch encloses it, and of the negation of tests that are false here (else branch, or an earlier
            # `if T: return ..`)
            from .wave3 import _enclosing_ifs
            lex = {id(t): taken for t, taken in _enclosing_ifs(f.node, c)}

            def _true_calls(e, sense, out):
                if isinstance(e, ast.UnaryOp) and isinstance(e.op, ast.Not):
                    _true_calls(e.operand, not sense, out)
                elif isinstance(e, ast.BoolOp) and isinstance(e.op, ast.And) and sense:
                    for v in e.values:
                        _true_calls(v, True, out)
                elif isinstance(e, ast.BoolOp) and isinstance(e.op, ast.Or) and not sense:
                    for v in e.values:
                        _true_calls(v, False, out)
                elif isinstance(e, ast.Call) and sense:
                    out.append(e)

            def _terminates(body):
                return bool(body) and isinstance(body[-1], (ast.Return, ast.Raise, ast.Continue, ast.Break))

            known_true = []
            for t in tests:
                par_t = fl.parent.get(id(t))
                if isinstance(par_t, (ast.If, ast.While)) and par_t.test is t:
                    if id(t) in lex:
                        senses = [lex[id(t)]]
                    elif isinstance(par_t, ast.If) and _terminates(par_t.body) and not _terminates(par_t.orelse):
                        senses = [False]          # an earlier `if T: return ..`: T is false from here on
                    elif isinstance(par_t, ast.If) and _terminates(par_t.orelse) and not _terminates(par_t.body):
                        senses = [True]
                    else:
                        senses = [True, False]    # not understood: lenient
                elif isinstance(par_t, ast.IfExp) and par_t.test is t:
                    senses = [any(x is c for x in ast.walk(par_t.body))]
                else:
                    senses = [True]               # an operand to the left in an enclosing `and`
                for sense in senses:
                    _true_calls(t, sense, known_true)
            for _once in (0,):
                for m in (known_true):
                    if isinstance(m, ast.Call) and isinstance(m.func, ast.Name) and m.func.id == "isinstance" and len(m.args) == 2 and ast.unparse(m.args[0]) == key:
                        ts = m.args[1].elts if isinstance(m.args[1], ast.Tuple) else [m.args[1]]
                        names = {ast.unparse(x).split(".")[-1] for x in ts}
                        if names and names <= NUM:
                            guarded = True
                            if names <= {"int", "Integral", "bool"}:
                                int_typed = True
            cons = construct_of(f, f"coercion:{ast.unparse(c)[:40]}")
            loc = f"{f.path}:{c.lineno}"
            # int() of a float must additionally sit behind an integrality test (2.5 is not 2)
            if guarded and c.func.id == "int" and isinstance(fl.parent.get(id(c)), (ast.Return, ast.Assign)):
                integral = int_typed
                for t in tests:
                    for m in ast.walk(t):
                        if isinstance(m, ast.Call) and isinstance(m.func, ast.Attribute) and m.func.attr == "is_integer":
                            integral = True
                        if isinstance(m, ast.Compare) and len(m.ops) == 1 and isinstance(m.ops[0], ast.Eq) and any(isinstance(k, ast.Call) and isinstance(k.func, ast.Name) and k.func.id == "int" for k in ast.walk(m)):
                            integral = True
                if not integral:
                    rep.violation(rule, cons, f"`{ast.unparse(c)}` truncates: nothing tests that `{key}` is integral before it is converted (an index or count 2.5 silently becomes 2)", loc)
                    continue
            if guarded:
                rep.ok(rule, cons, f"`{ast.unparse(c)}` runs only after isinstance({key}, <plain number>)", loc)
            else:
                rep.violation(rule, cons, f"`{ast.unparse(c)}` coerces {origin} without an isinstance test for plain numbers: a let constant used there (Constant has __int__/__float__) is replaced by its file value, so `fill_in_let(override)` after this pass no longer reaches it", loc)
    # the same freeze through `.value`: only let substitution may replace a constant by its value
    CONSTS = {"jaqalpaq.core.constant.Constant", "jaqalpaq.core.parameter.AnnotatedValue"}
    for f in res["funcs"]:
        if f.module not in modules or isinstance(f.node, ast.Lambda):
            continue
        fl = None
        for a in walk_no_nested(f.node):
            if not (isinstance(a, ast.Attribute) and a.attr in ("value", "_value") and isinstance(a.ctx, ast.Load)):
                continue
            ts = T.expr_types.get(id(a.value)) or ()
            narrowed = False
            if fl is None:
                fl = FuncFlow(ix, T, f)
            for t in fl.control_tests(a):
                for m in ast.walk(t):
                    if isinstance(m, ast.Call) and isinstance(m.func, ast.Name) and m.func.id == "isinstance" and len(m.args) == 2 and ast.unparse(m.args[0]) == ast.unparse(a.value) and "Constant" in ast.unparse(m.args[1]):
                        narrowed = True
            if not (narrowed or (ts and all(t in CONSTS for t in ts))):
                continue
            par = fl.parent.get(id(a))
            # a read that only feeds a comparison is a test, not a substitution
            in_test = False
            node = a
            while node is not None and not isinstance(node, ast.stmt):
                pn = fl.parent.get(id(node))
                if isinstance(pn, ast.Compare) or (isinstance(pn, (ast.If, ast.While, ast.IfExp)) and node is pn.test):
                    in_test = True
                node = pn
            if in_test:
                continue
            n += 1
            rep.violation(rule, construct_of(f, f"constant-value-read:{ast.unparse(a)[:30]}"), f"`{ast.unparse(a)}` replaces a let constant by its declared value outside let substitution: the constant is frozen, so an override applied afterwards (fill_in_let after this pass) no longer reaches it and the passes stop commuting", f"{f.path}:{a.lineno}")
    rep.analysed["coercion_sites"] = n


# ---------------------------------------------------------------------- macro bodies come from the circuit's table
def check_macro_table_lookup(ctx, rep, rule: str):
    """expand_macros inlines the body found in the circuit's macro table (by name).  Other passes rebuild macros
    without re-linking the call statements, so the Macro a statement carries (`gate.gate_def`) can be stale."""
    from ..cfg import iter_stmts

    ix, T = ctx.ix, ctx.typer
    MOD = "jaqalpaq.core.algorithm.expand_macros"
    rep.rule(rule, "the macro body inlined by expand_macros is the entry of the circuit's macro table, not the (possibly stale) definition object a call statement carries", floor=1)
    # the condition is only necessary while some pass rebuilds Macro objects WITHOUT re-linking the calls
    MACRO_ = "jaqalpaq.core.macro.Macro"
    unlinked = []
    for c in ix.classes.values():
        if not c.module.startswith("jaqalpaq.core.algorithm") or not T.is_visitor(c.qualname):
            continue
        builds = any(cs.kind == "constructor" and cs.classes and cs.classes[0] == MACRO_ for m in c.methods.values() for cs in T.callsites(m))
        if builds and "visit_GateStatement" not in c.methods:
            unlinked.append(c.name)
    if not unlinked:
        rep.exempt(rule, "core.algorithm.expand_macros:replace_gate:inlined-macro-source", "every pass that builds new Macro objects re-links the call statements (C09.9), so a call's own definition and the table entry are the same object; either may be inlined")
        return
    sites = 0
    for f in ix.functions.values():
        if f.module != MOD or isinstance(f.node, ast.Lambda):
            continue
        # calls `<replacer>.visit(<macro expr>)` where the receiver was constructed in this function
        ctor_names = set()
        for st in iter_stmts(f.body):
            if isinstance(st, ast.Assign) and isinstance(st.value, ast.Call):
                for cs in T.callsites(f):
                    if cs.node is st.value and cs.kind == "constructor" and cs.classes and T.is_visitor(cs.classes[0]):
                        for t in st.targets:
                            if isinstance(t, ast.Name):
                                ctor_names.add(t.id)
        for n in walk_no_nested(f.node):
            if not (isinstance(n, ast.Call) and isinstance(n.func, ast.Attribute) and n.func.attr == "visit" and isinstance(n.func.value, ast.Name) and n.func.value.id in ctor_names and n.args):
                continue
            arg = n.args[0]
            if isinstance(arg, ast.Name) and arg.id in f.params:
                continue  # the pass entry point visiting the circuit itself
            sites += 1
            cons = construct_of(f, "inlined-macro-source")
            loc = f"{f.path}:{n.lineno}"
            srcs = [arg]
            if isinstance(arg, ast.Name):
                srcs = [st.value for st in iter_stmts(f.body) if isinstance(st, ast.Assign) and any(isinstance(t, ast.Name) and t.id == arg.id for t in st.targets)]
            bad = [s_ for s_ in srcs if any(isinstance(m, ast.Attribute) and m.attr in ("gate_def", "_gate_def") for m in ast.walk(s_))]
            table = [s_ for s_ in srcs if (isinstance(s_, ast.Subscript) or (isinstance(s_, ast.Call) and isinstance(s_.func, ast.Attribute) and s_.func.attr == "get")) and any(isinstance(m, ast.Name) and m.id == "macros" or isinstance(m, ast.Attribute) and m.attr == "macros" for m in ast.walk(s_))]
            if bad:
                rep.violation(rule, cons, f"`{ast.unparse(bad[0])}` makes the inlined body the one the call statement carries; expand_subcircuits / fill_in_map rebuild the table's macros but leave call statements pointing at the old objects, so `expand_macros(expand_subcircuits(c))` splices un-expanded subcircuit blocks back in", loc)
            elif table and len(table) == len(srcs):
                rep.ok(rule, cons, f"`{ast.unparse(table[0])}`: looked up by name in the macro table", loc)
            else:
                rep.undecided(rule, cons, "source of the inlined macro not recognised", loc)
    if sites == 0:
        raise AnalysisError(f"{rule}: no inlining site found in expand_macros (anchor vanished)")


def check_macro_argument_binding(ctx, rep, rule: str):
    """The substitution map handed to the replacer is keyed by the *macro's* parameter names (the macro found in the
    table), not by whatever names the call statement carries (an anonymous definition names them p0, p1, ..)."""
    from ..cfg import iter_stmts
    from ..fieldflow import FuncFlow

    ix, T = ctx.ix, ctx.typer
    MOD = "jaqalpaq.core.algorithm.expand_macros"
    rep.rule(rule, "call arguments are bound to the parameter names of the macro being inlined (not to the names carried by the call statement)", floor=1)
    sites = 0
    for f in ix.functions.values():
        if f.module != MOD or isinstance(f.node, ast.Lambda):
            continue
        for cs in T.callsites(f):
            if cs.kind != "constructor" or not cs.classes or not T.is_visitor(cs.classes[0]):
                continue
            cls = ix.classes[cs.classes[0]]
            if "visit_Parameter" not in cls.methods or not cs.node.args:
                continue
            sites += 1
            fl = FuncFlow(ix, T, f)
            a0 = cs.node.args[0]
            ids, roots = fl.depends(a0)
            exprs = [a0] + list(roots)
            # names of the macro: <macro>.parameters where <macro> is not the call statement (first parameter of f)
            stmt = f.params[0] if f.params else None
            keyed = any(isinstance(m, ast.Attribute) and m.attr == "parameters" and not (isinstance(m.value, ast.Name) and m.value.id == stmt) and not (isinstance(m.value, ast.Attribute) and m.value.attr == "gate_def")
                        for e in exprs for m in ast.walk(e))
            cons = construct_of(f, "argument-binding")
            loc = f"{f.path}:{cs.node.lineno}"
            if keyed:
                rep.ok(rule, cons, f"`{ast.unparse(a0)}` is keyed by the inlined macro's parameters", loc)
            else:
                rep.violation(rule, cons, f"the replacer receives `{ast.unparse(a0)}`, keyed by the names the call statement carries: a call built before the macro was known (anonymous definition p0, p1, ..) leaves every parameter of the body unsubstituted, without an error", loc,
                              witness="cb.macro('foo', ['a'], body_with('Px a')); cb.loop(2, block_with(('gate', 'foo', q[0]))); expand_macros(cb.build()) -> loop 2 { Px a }")
    if sites == 0:
        raise AnalysisError(f"{rule}: the replacer construction site vanished")


def check_symbolic_qubits_left_alone(ctx, rep, rule: str):
    """MapFiller visits macro bodies too; a qubit whose index or source is a macro parameter cannot be resolved
    there, so the context-free `resolve_qubit()` must sit behind a test of the qubit's dependence on parameters."""
    from ..fieldflow import FuncFlow
    from ..cfg import iter_stmts

    ix, T = ctx.ix, ctx.typer
    rep.rule(rule, "alias fill-in resolves a qubit without a context only after testing that it does not depend on a macro parameter (macro bodies are visited too)", floor=1)
    MOD = "jaqalpaq.core.algorithm.fill_in_map"
    n = 0
    for f in ix.functions.values():
        if f.module != MOD or f.name != "visit_NamedQubit" or len(f.params) < 2:
            continue
        qb = f.params[1]
        for c in walk_no_nested(f.node):
            if not (isinstance(c, ast.Call) and isinstance(c.func, ast.Attribute) and c.func.attr == "resolve_qubit" and not c.args and not c.keywords):
                continue
            n += 1
            cons = construct_of(f, "symbolic-qubit-guard")
            loc = f"{f.path}:{c.lineno}"
            guard = None
            for st in iter_stmts(f.body):
                if isinstance(st, ast.If) and st.lineno < c.lineno and any(isinstance(x, ast.Return) for x in st.body):
                    mentions = any(isinstance(m, ast.Name) and m.id == qb for m in ast.walk(st.test))
                    param_test = any(
                        (isinstance(m, ast.Call) and isinstance(m.func, ast.Name) and m.func.id == "isinstance" and "Parameter" in ast.unparse(m.args[1]) if isinstance(m, ast.Call) and len(getattr(m, "args", [])) == 2 else False)
                        or (isinstance(m, ast.Call) and isinstance(m.func, (ast.Name, ast.Attribute)) and "param" in ast.unparse(m.func).lower())
                        for m in ast.walk(st.test))
                    if mentions and param_test:
                        guard = st
            in_try = False
            fl = FuncFlow(ix, T, f)
            # the guard covers let constants as well as parameters (a let may still be overridden)
            covers_lets = None
            if guard is not None:
                for m in ast.walk(guard.test):
                    if isinstance(m, ast.Call) and isinstance(m.func, ast.Name):
                        helper = ix.functions.get(f"{f.module}.{m.func.id}")
                        if helper is not None:
                            types = set()
                            for t_ in ast.walk(helper.node):
                                if isinstance(t_, ast.Call) and isinstance(t_.func, ast.Name) and t_.func.id == "isinstance" and len(t_.args) == 2:
                                    for x_ in (t_.args[1].elts if isinstance(t_.args[1], ast.Tuple) else [t_.args[1]]):
                                        types.add(ast.unparse(x_).split(".")[-1])
                            covers_lets = "AnnotatedValue" in types or {"Parameter", "Constant"} <= types
                if covers_lets is None:
                    tys = {ast.unparse(x_).split(".")[-1] for m in ast.walk(guard.test) if isinstance(m, ast.Call) and isinstance(m.func, ast.Name) and m.func.id == "isinstance" and len(m.args) == 2 for x_ in (m.args[1].elts if isinstance(m.args[1], ast.Tuple) else [m.args[1]])}
                    covers_lets = "AnnotatedValue" in tys or {"Parameter", "Constant"} <= tys
            if guard is not None and not covers_lets:
                rep.violation(rule, construct_of(f, "symbolic-qubit-guard:lets"), "the guard only recognises macro parameters: a reference that depends on a let constant (`q[i]`, `a[i]`, an alias with a let-valued bound) is resolved at the constant's file value, so fill_in_map followed by fill_in_let(override) differs from the documented order", loc, witness="let i 1\nregister q[3]\nG q[i]   with override i=0")
            elif guard is not None:
                rep.ok(rule, construct_of(f, "symbolic-qubit-guard:lets"), "the guard also covers let constants (AnnotatedValue)", loc)
            if guard is not None:
                rep.ok(rule, cons, f"`{ast.unparse(guard.test)}` returns the qubit unchanged before the context-free resolution", loc)
            else:
                rep.violation(rule, cons, f"`{ast.unparse(c)}` is applied to every qubit, including `r[0]` / `q[i]` inside a macro body where r or i is a parameter: fill_in_map (and parse with expand_let_map=True) raises 'Unbound identifier' on a legal program", loc, witness="register q[2]\\nmacro foo i { Px q[i] }\\nfoo 0")
    if n == 0:
        raise AnalysisError(f"{rule}: MapFiller.visit_NamedQubit / resolve_qubit() site vanished")


def check_zero_trip(ctx, rep, rule, exclude=()):
    """A visitor whose `while` loop waits for its handlers to advance the walk (see the rule text)."""
    from ..cfg import iter_stmts
    ix, T = ctx.ix, ctx.typer
    EXCLUDE = exclude
    rep.rule(rule, "a visitor whose `while` loop waits for its handlers to advance the walk: a handler that delegates inside `for .. in range(n)` treats n <= 0 explicitly (a zero-trip loop advances nothing and the waiting loop never ends)", floor=1)
    n15 = 0
    for cq, ci in ix.classes.items():
        if not T.is_visitor(cq) or any(cq.startswith(m) for m in EXCLUDE):
            continue
        waits = []
        for mname, fi in ci.methods.items():
            for st in iter_stmts(fi.body):
                if isinstance(st, ast.While) and any(isinstance(c, ast.Call) and isinstance(c.func, ast.Attribute) and c.func.attr == "visit" for c in ast.walk(st)):
                    # the condition is visitor state (self.<attr>)
                    if any(isinstance(m, ast.Attribute) and isinstance(m.value, ast.Name) and m.value.id == fi.params[0] for m in ast.walk(st.test)):
                        waits.append((fi, st))
        if not waits:
            continue
        for mname, fi in ci.methods.items():
            if not mname.startswith("visit_"):
                continue
            for st in iter_stmts(fi.body):
                if not (isinstance(st, ast.For) and isinstance(st.iter, ast.Call) and isinstance(st.iter.func, ast.Name) and st.iter.func.id == "range" and st.iter.args):
                    continue
                if not any(isinstance(c, ast.Call) and isinstance(c.func, ast.Attribute) and c.func.attr == "visit" for c in ast.walk(st)):
                    continue
                n15 += 1
                count = ast.unparse(st.iter.args[-1] if len(st.iter.args) == 1 else st.iter.args[1])
                cons = construct_of(fi, f"zero-trip:{count}")
                loc = f"{fi.path}:{st.lineno}"
                guard = None
                wrong = None
                for g in iter_stmts(fi.body):
                    if isinstance(g, ast.If) and g.lineno < st.lineno:
                        for c in ast.walk(g.test):
                            if isinstance(c, ast.Compare) and len(c.ops) == 1:
                                l, r = ast.unparse(c.left), ast.unparse(c.comparators[0])
                                # range(n) is empty for every n <= 0: `== 0` and `not n` miss the negative counts the parser accepts
                                ok_l = l == count and ((r == "0" and isinstance(c.ops[0], ast.LtE)) or (r == "1" and isinstance(c.ops[0], ast.Lt)))
                                ok_r = r == count and ((l == "0" and isinstance(c.ops[0], ast.GtE)) or (l == "1" and isinstance(c.ops[0], ast.Gt)))
                                if ok_l or ok_r:
                                    guard = g
                                elif (l == count and r in ("0", "1", "2")) or (r == count and l in ("0", "1", "2")):
                                    wrong = g
                            if isinstance(c, ast.UnaryOp) and isinstance(c.op, ast.Not) and ast.unparse(c.operand) == count:
                                wrong = g
                if guard is None and wrong is not None:
                    rep.violation(rule, cons, f"`{ast.unparse(wrong.test)}` is not the zero-trip test (it also catches loops that do run, or misses count 0): a loop with a count of one is skipped, or a zero-count loop is waited for", loc)
                elif guard is not None:
                    rep.ok(rule, cons, f"`{ast.unparse(guard.test)}` handles the zero-trip case before the loop", loc)
                else:
                    w = waits[0]
                    rep.violation(rule, cons, f"`{ast.unparse(st.iter)}` may run zero times; then nothing advances the state that `while {ast.unparse(w[1].test)}` in {w[0].name} waits on, and execution never returns", loc, witness="register q[1]\nloop 0 { prepare_all; Px q[0]; measure_all }\nprepare_all\nmeasure_all")
    rep.analysed["zero_trip_sites"] = n15



# ---------------------------------------------------------------------- names are not identities
SCOPE_MODULES = ("jaqalpaq.core.register", "jaqalpaq.core.algorithm.fill_in_let", "jaqalpaq.core.algorithm.fill_in_map",
                 "jaqalpaq.core.algorithm.used_qubit_visitor", "jaqalpaq.core.algorithm.expand_macros", "jaqalpaq.core.algorithm.walkers",
                 "jaqalpaq.core.parameter", "jaqalpaq.core.constant", "jaqalpaq.emulator.unitary")


def check_scope_discipline(ctx, rep, r1: str, r2: str, r3: str):
    """The same name denotes different things in different scopes (a macro parameter shadows a register, an alias
    or a let constant), so resolved objects are never looked up, memoised or re-serialised by their bare name."""
    from ..fieldflow import FuncFlow
    from ..cfg import iter_stmts

    ix, T = ctx.ix, ctx.typer
    funcs = [f for f in ix.functions.values() if f.module in SCOPE_MODULES and not isinstance(f.node, ast.Lambda)]
    if len(funcs) < 40:
        raise AnalysisError(f"{r1}: only {len(funcs)} functions in the resolution/pass modules (anchor vanished)")
    PARAM = "jaqalpaq.core.parameter.Parameter"
    ANNV = "jaqalpaq.core.parameter.AnnotatedValue"
    ix.cls(PARAM)

    # ---------------- R1
    rep.rule(r1, "the resolution context is consulted by name only for macro parameters: inside AnnotatedValue.resolve_value (which Constant overrides to ignore it) or under an isinstance(.., Parameter) test; everything else goes through resolve_value", floor=2)
    n1 = 0
    for f in funcs:
        ctxnames = {p for p in f.params if p in ("context", "macro_context")}
        par_q = f.parent
        while par_q:  # closures see the enclosing function's context
            pf = ix.functions.get(par_q)
            if pf is None:
                break
            ctxnames |= {p for p in pf.params if p in ("context", "macro_context")}
            par_q = pf.parent
        if not ctxnames:
            continue
        fl = None
        for n in walk_no_nested(f.node):
            key = None
            if isinstance(n, ast.Subscript) and isinstance(n.ctx, ast.Load) and isinstance(n.value, ast.Name) and n.value.id in ctxnames:
                key = n.slice
            elif isinstance(n, ast.Call) and isinstance(n.func, ast.Attribute) and n.func.attr in ("get", "pop") and isinstance(n.func.value, ast.Name) and n.func.value.id in ctxnames and n.args:
                key = n.args[0]
            elif isinstance(n, ast.Compare) and len(n.ops) == 1 and isinstance(n.ops[0], (ast.In, ast.NotIn)) and isinstance(n.comparators[0], ast.Name) and n.comparators[0].id in ctxnames:
                key = n.left
            if key is None:
                continue
            n1 += 1
            cons = construct_of(f, f"context-lookup:{ast.unparse(key)[:30]}")
            loc = f"{f.path}:{n.lineno}"
            if f.cls in (ANNV, PARAM) and f.name == "resolve_value":
                # Constant must override it
                const_over = any(ix.classes[c].methods.get("resolve_value") is not None for c in ix.subclasses(ANNV) if c.endswith(".Constant"))
                if const_over:
                    rep.ok(r1, cons, "the parameter lookup itself; Constant.resolve_value overrides it and ignores the context", loc)
                else:
                    rep.violation(r1, cons, "Constant no longer overrides resolve_value: a let constant is looked up in the macro scope like a parameter", loc)
                continue
            if fl is None:
                fl = FuncFlow(ix, T, f)
            tests = list(fl.control_tests(n))
            node = n
            while node is not None and not isinstance(node, ast.stmt):
                par = fl.parent.get(id(node))
                if isinstance(par, ast.BoolOp) and isinstance(par.op, ast.And):
                    i = next((k for k, v in enumerate(par.values) if v is node), 0)
                    tests += par.values[:i]
                node = par
            guarded = any(isinstance(m, ast.Call) and isinstance(m.func, ast.Name) and m.func.id == "isinstance" and len(m.args) == 2 and ast.unparse(m.args[1]).split(".")[-1] == "Parameter"
                          for t in tests for m in ast.walk(t))
            if guarded:
                rep.ok(r1, cons, "under an isinstance(.., Parameter) test", loc)
            else:
                rep.violation(r1, cons, f"`{ast.unparse(n)}` looks a name up in the resolution context without knowing that it names a macro parameter: a let constant (or register) of the same name as a parameter of the enclosing macro is resolved to the parameter's argument", loc)
    rep.analysed["context_lookups"] = n1

    # ---------------- R2
    rep.rule(r2, "no pass keeps a table keyed by the bare name of the qubit/register reference it was handed (the same name is a register at top level and a parameter inside a macro)", floor=1)
    n2 = 0
    for f in funcs:
        if not (f.cls and T.is_visitor(f.cls) and f.name.startswith("visit_") and len(f.params) >= 2):
            continue
        if f.name not in ("visit_NamedQubit", "visit_Register"):
            continue
        x = f.params[1]
        n2 += 1
        bad = None
        for n in walk_no_nested(f.node):
            key = cont = None
            if isinstance(n, ast.Subscript) and not isinstance(n.slice, ast.Slice):
                key, cont = n.slice, n.value
            elif isinstance(n, ast.Call) and isinstance(n.func, ast.Attribute) and n.func.attr in ("get", "pop", "setdefault") and n.args:
                key, cont = n.args[0], n.func.value
            elif isinstance(n, ast.Compare) and len(n.ops) == 1 and isinstance(n.ops[0], (ast.In, ast.NotIn)):
                key, cont = n.left, n.comparators[0]
            if key is None:
                continue
            if isinstance(key, ast.Attribute) and key.attr in ("name", "_name") and isinstance(key.value, ast.Name) and key.value.id == x:
                # a table owned by the visitor (self.<attr>) or a local: not the override dictionary (keyed by let names by definition)
                if isinstance(cont, ast.Attribute) and cont.attr in ("override_dict",):
                    continue
                bad = n
        cons = construct_of(f, "table-keyed-by-reference-name")
        if bad is not None:
            rep.violation(r2, cons, f"`{ast.unparse(bad)}` is keyed by the name of the reference being visited: `hi[0]` at top level (an alias) and `hi[0]` inside `macro flip hi {{..}}` (a parameter) share the entry, so one is rewritten to the other's qubit", f"{f.path}:{bad.lineno}")
        else:
            rep.ok(r2, cons, "no table keyed by the visited reference's name", f.loc())
    if n2 == 0:
        raise AnalysisError(f"{r2}: no visit_NamedQubit/visit_Register handlers found")

    # ---------------- R3
    rep.rule(r3, "a re-serialising pass hands the builder the resolved qubit/register object, never an S-expression spelled with its name (names are resolved again in the scope of the statement)", floor=1)
    n3 = 0
    for f in funcs:
        if not (f.cls and T.is_visitor(f.cls) and f.name in ("visit_NamedQubit", "visit_Register")) or f.module not in ("jaqalpaq.core.algorithm.fill_in_let", "jaqalpaq.core.algorithm.fill_in_map"):
            continue
        n3 += 1
        bad = None
        for st in iter_stmts(f.body):
            if isinstance(st, ast.Return) and st.value is not None:
                vals = [st.value]
                if isinstance(st.value, ast.Name):
                    vals += [s_.value for s_ in iter_stmts(f.body) if isinstance(s_, ast.Assign) and any(isinstance(t, ast.Name) and t.id == st.value.id for t in s_.targets)]
                for v in vals:
                    if isinstance(v, (ast.Tuple, ast.List)) and any(isinstance(m, ast.Attribute) and m.attr in ("name", "_name") for m in ast.walk(v)):
                        bad = st
        cons = construct_of(f, "returns-resolved-object")
        if bad is not None:
            rep.violation(r3, cons, f"`{ast.unparse(bad)}` spells the resolved object by name; the builder resolves that name again where the statement stands, so inside `macro foo q {{ .. }}` the fundamental register q is captured by the parameter q", f"{f.path}:{bad.lineno}")
        else:
            rep.ok(r3, cons, "returns objects (or the input), not name-bearing S-expressions", f.loc())
    if n3 == 0:
        raise AnalysisError(f"{r3}: no qubit/register handlers in the re-serialising passes")


# ---------------------------------------------------------------------- cached functions returning mutable objects
_CACHE_DECOS = {"lru_cache", "cache", "cached_property", "memoize", "memoized"}
_ALLOC_CALLS = {"empty", "zeros", "ones", "array", "full", "eye", "identity", "empty_like", "zeros_like", "list", "dict", "set", "bytearray", "defaultdict", "deque", "OrderedDict"}


def _cached_mutable_hits(tree) -> list:
    out = []
    for fn in ast.walk(tree):
        if not isinstance(fn, (ast.FunctionDef, ast.AsyncFunctionDef)):
            continue
        decos = set()
        for d in fn.decorator_list:
            x = d.func if isinstance(d, ast.Call) else d
            decos.add(x.id if isinstance(x, ast.Name) else x.attr if isinstance(x, ast.Attribute) else "")
        if not (decos & _CACHE_DECOS):
            continue
        for n in ast.walk(fn):
            if isinstance(n, ast.Return) and n.value is not None:
                vals = n.value.elts if isinstance(n.value, (ast.Tuple, ast.List)) else [n.value]
                if isinstance(n.value, ast.List):
                    out.append((fn, n))
                    continue
                for v in vals:
                    if isinstance(v, (ast.List, ast.Dict, ast.Set, ast.ListComp, ast.DictComp, ast.SetComp)):
                        out.append((fn, n))
                    elif isinstance(v, ast.Call):
                        nm = v.func.id if isinstance(v.func, ast.Name) else v.func.attr if isinstance(v.func, ast.Attribute) else ""
                        if nm in _ALLOC_CALLS:
                            out.append((fn, n))
    return out


def check_cached_mutables(ctx, rep, rule: str, modules):
    """A memoised function hands every caller the *same* object: if that object is a mutable buffer, results already
    reported (state vectors, probability tables) are overwritten by later calls."""
    ix = ctx.ix
    rep.rule(rule, "no memoised (lru_cache/cache) function returns a freshly allocated mutable object: every caller would share and overwrite one buffer", floor=1)
    # positive control
    ctl = ast.parse("from functools import lru_cache\n@lru_cache(maxsize=None)\ndef _w(n):\n    return (numpy.empty(n), numpy.empty(n))\n")
    if not _cached_mutable_hits(ctl):
        raise AnalysisError(f"{rule}: positive control not flagged")
    rep.ok(rule, "embedded:cached-workspace", "positive control: a cached function returning numpy.empty(..) buffers is flagged")
    n = 0
    for path, text in ctx.sources.items():
        mod = path[len("src/"):-3].replace("/", ".") if path.startswith("src/") else path
        if not any(mod == m or mod.startswith(m + ".") for m in modules):
            continue
        n += 1
        try:
            tree = ast.parse(text)
        except SyntaxError:
            continue
        # a process-wide cache keyed on IR objects: NamedQubit/Register equality is NAME based, so an entry computed
        # for one circuit answers for the equally named object of the next circuit
        for fn in ast.walk(tree):
            if not isinstance(fn, (ast.FunctionDef, ast.AsyncFunctionDef)):
                continue
            decos = set()
            for d in fn.decorator_list:
                x = d.func if isinstance(d, ast.Call) else d
                decos.add(x.id if isinstance(x, ast.Name) else x.attr if isinstance(x, ast.Attribute) else "")
            if not (decos & (_CACHE_DECOS - {"cached_property"})):
                continue
            params = [a for a in fn.args.posonlyargs + fn.args.args + fn.args.kwonlyargs if a.arg not in ("self", "cls")]
            scalar = all(a.annotation is not None and ast.unparse(a.annotation) in ("int", "float", "str", "bool", "bytes") for a in params)
            if params and not scalar:
                rep.violation(rule, f"{short(mod)}:{fn.name}:cache-keyed-on-objects", f"`{fn.name}` is memoised for the whole process with parameters that are not plain scalars: circuit objects compare by NAME (`a[0]` of one circuit equals `a[0]` of the next), so a value computed for one program is returned for another in the same session", f"{path}:{fn.lineno}")
        for fn, ret in _cached_mutable_hits(tree):
            rep.violation(rule, f"{short(mod)}:{fn.name}:cached-mutable", f"`{fn.name}` is memoised and `{ast.unparse(ret)}` returns mutable buffers: every subcircuit emulated with the same dimension writes into the vectors already handed out, so the state vector reported for an earlier subcircuit (or an earlier run) changes", f"{path}:{ret.lineno}")
    if n == 0:
        raise AnalysisError(f"{rule}: no module of {modules} found")
    rep.analysed["cached_mutable_modules_scanned"] = n


def check_context_bookkeeping_keys(ctx, rep, rule: str):
    """The builder resolves program identifiers in a dict (`context`); anything it stores there for its own
    bookkeeping must not be spellable as an identifier, or a program using that name reads the bookkeeping value."""
    import re as _re
    from ..lexer import extract_lexer

    ix, T = ctx.ix, ctx.typer
    rep.rule(rule, "keys the builder stores in the identifier context for its own bookkeeping cannot be spelled as a Jaqal identifier", floor=1)
    lm = extract_lexer(ix)
    ident = lm.rule("IDENTIFIER")
    if ident is None:
        raise AnalysisError(f"{rule}: IDENTIFIER token vanished")
    pat = _re.compile(ident.pattern)
    n = 0
    for f in ix.functions.values():
        if f.module != "jaqalpaq.core.circuitbuilder" or isinstance(f.node, ast.Lambda):
            continue
        if "context" not in f.params:
            continue
        # local names bound to string displays
        strs = {}
        for st in ast.walk(f.node):
            if isinstance(st, ast.Assign) and len(st.targets) == 1 and isinstance(st.targets[0], ast.Name) and isinstance(st.value, (ast.JoinedStr, ast.Constant, ast.Tuple)):
                strs[st.targets[0].id] = st.value
        for nd in walk_no_nested(f.node):
            key = None
            if isinstance(nd, ast.Subscript) and isinstance(nd.ctx, ast.Store) and isinstance(nd.value, ast.Name) and nd.value.id == "context":
                key = nd.slice
            if key is None:
                continue
            k = strs.get(key.id) if isinstance(key, ast.Name) else key
            if k is None or not isinstance(k, (ast.JoinedStr, ast.Constant, ast.Tuple)):
                continue  # a program name (parameter / unpacked S-expression element)
            n += 1
            cons = construct_of(f, f"context-key:{ast.unparse(k)[:40]}")
            loc = f"{f.path}:{nd.lineno}"
            if isinstance(k, ast.Tuple) or (isinstance(k, ast.Constant) and not isinstance(k.value, str)):
                rep.ok(rule, cons, "the key is not a string: no identifier can equal it", loc)
                continue
            sample = "".join(p.value if isinstance(p, ast.Constant) else "x" for p in k.values) if isinstance(k, ast.JoinedStr) else k.value
            if pat.fullmatch(sample):
                rep.violation(rule, cons, f"the bookkeeping key `{ast.unparse(k)}` (e.g. {sample!r}) is itself a legal identifier: a program that uses that name as a let, gate argument or macro parameter reads the builder's flag instead (`< foo __in_context_parallel__ >` is built with the argument True)", loc, witness="let __in_context_parallel__ 3\nregister q[4]\n< foo __in_context_parallel__ >")
            else:
                rep.ok(rule, cons, f"{sample!r} is outside the IDENTIFIER token language", loc)
    if n == 0:
        rep.ok(rule, "core.circuitbuilder:context-bookkeeping", "the builder stores nothing but program names in the identifier context")


def check_no_frozen_size(ctx, rep, rule: str):
    """An alias's size is computed from the *declared* let values; the builder must not store it as a plain number
    in another alias (an omitted slice bound stays open), or overriding the let leaves a stale bound behind."""
    from ..fieldflow import FuncFlow

    ix, T = ctx.ix, ctx.typer
    rep.rule(rule, "the builder stores the size of a source register into an alias bound only for fundamental registers (whose size is the symbolic let itself); the computed size of an alias is never frozen", floor=1)
    f = ix.functions.get("jaqalpaq.core.circuitbuilder.Builder.build_map")
    if f is None:
        raise AnalysisError(f"{rule}: Builder.build_map vanished")
    fl = FuncFlow(ix, T, f)
    n = 0
    for nd in walk_no_nested(f.node):
        if isinstance(nd, ast.Attribute) and nd.attr in ("size", "_size") and isinstance(nd.ctx, ast.Load) or (isinstance(nd, ast.Call) and isinstance(nd.func, ast.Attribute) and nd.func.attr in ("resolve_size", "__len__")) or (isinstance(nd, ast.Call) and isinstance(nd.func, ast.Name) and nd.func.id == "len" and nd.args and isinstance(nd.args[0], ast.Name) and nd.args[0].id in ("src",)):
            st = fl.enclosing_stmt(nd)
            if not isinstance(st, ast.Assign):
                continue
            n += 1
            cons = construct_of(f, f"frozen-size:{ast.unparse(st)[:40]}")
            loc = f"{f.path}:{nd.lineno}"
            tests = fl.control_tests(nd)
            guarded = any(isinstance(m, ast.Attribute) and m.attr == "fundamental" for t in tests for m in ast.walk(t))
            if guarded:
                rep.ok(rule, cons, "only under a `.fundamental` test: a fundamental register's size is the let constant itself", loc)
            else:
                rep.violation(rule, cons, f"`{ast.unparse(st)}` stores the source's size as computed from the declared let values: with `let n 4; register q[n]; map rest q[1:]; map tail rest[1:]`, overriding n=3 leaves tail = rest[1:3] and fill_in_let rejects the legal program (n=6 silently keeps tail at 2 qubits)", loc, witness="let n 4\nregister q[n]\nmap rest q[1:]\nmap tail rest[1:]\nPx tail[0]   with override n=3")
    if n == 0:
        rep.ok(rule, construct_of(f, "frozen-size"), "build_map stores no computed size")



def check_shadowed_register_names(ctx, rep, rule: str):
    """Inside a macro body a parameter may carry the name of the fundamental register; alias fill-in must not spell a
    resolved qubit with that name there (the generated text would index the parameter)."""
    from ..cfg import iter_stmts

    ix, T = ctx.ix, ctx.typer
    rep.rule(rule, "alias fill-in spells a resolved qubit as <register>[index] inside a macro body only after testing that the register's name is not one of the macro's parameters", floor=1)
    MOD = "jaqalpaq.core.algorithm.fill_in_map"
    vq = vm = None
    for f in ix.functions.values():
        if f.module == MOD and f.cls and T.is_visitor(f.cls):
            if f.name == "visit_NamedQubit":
                vq = f
            elif f.name == "visit_Macro":
                vm = f
    if vq is None or vm is None:
        raise AnalysisError(f"{rule}: MapFiller.visit_NamedQubit / visit_Macro vanished")
    # attributes of self that visit_Macro derives from macro.parameters
    mparam = vm.params[1]
    state = set()
    for st in iter_stmts(vm.body):
        if isinstance(st, ast.Assign) and any(isinstance(m, ast.Attribute) and m.attr == "parameters" and isinstance(m.value, ast.Name) and m.value.id == mparam for m in ast.walk(st.value)):
            for t in st.targets:
                if isinstance(t, ast.Attribute) and isinstance(t.value, ast.Name) and t.value.id == vm.params[0]:
                    state.add(t.attr)
    cons = construct_of(vq, "shadowed-register-name")
    guard = None
    wrong_recv = None
    for st in iter_stmts(vq.body):
        if isinstance(st, ast.If) and any(isinstance(x, ast.Return) for x in st.body):
            for c in ast.walk(st.test):
                if isinstance(c, ast.Compare) and len(c.ops) == 1 and isinstance(c.ops[0], ast.In):
                    left_name = isinstance(c.left, ast.Attribute) and c.left.attr in ("name", "_name")
                    right_state = isinstance(c.comparators[0], ast.Attribute) and c.comparators[0].attr in state
                    if left_name and right_state:
                        # the name tested is that of the RESOLVED (fundamental) register: a name bound from resolve_qubit()
                        recv = c.left.value
                        resolved = set()
                        for a_ in iter_stmts(vq.body):
                            if isinstance(a_, ast.Assign) and isinstance(a_.value, ast.Call) and isinstance(a_.value.func, ast.Attribute) and a_.value.func.attr == "resolve_qubit":
                                for t_ in a_.targets:
                                    for e_ in (t_.elts if isinstance(t_, (ast.Tuple, ast.List)) else [t_]):
                                        if isinstance(e_, ast.Name):
                                            resolved.add(e_.id)
                        if isinstance(recv, ast.Name) and recv.id in resolved:
                            guard = st
                        else:
                            wrong_recv = (st, c)
    if guard is None and wrong_recv is not None:
        rep.violation(rule, cons, f"`{ast.unparse(wrong_recv[1])}` tests the name of the reference's DIRECT source, not of the fundamental register it resolves to: with `map s r[2:6]; map a s[1]` inside `macro F r {{..}}` the reference is rewritten to `r[3]`, which the generated text binds to the parameter r", f"{vq.path}:{wrong_recv[0].lineno}", witness="register r[6]\nmap s r[2:6]\nmap a s[1]\nmacro F r { Px a ; Px r }")
        return
    if guard is not None:
        rep.ok(rule, cons, f"`{ast.unparse(guard.test)}` (set from the macro's parameters in visit_Macro) leaves the reference unchanged", vq.loc())
    else:
        rep.violation(rule, cons, "a reference inside `macro m q { G a[1] ; H q }` (a an alias of register q) is rewritten to `q[2]`, which in the generated text indexes the PARAMETER q: re-parsing changes the meaning or fails to expand", vq.loc(), witness="register q[3]\nmap a q[1:3]\nmacro m q { G a[1] ; H q }\nm q[0]")


def check_alias_name_kept(ctx, rep, rule: str, modules=("jaqalpaq.core.algorithm.fill_in_let",)):
    """`map one q[1]` declares a name.  A pass that re-derives the reference as <source>[index] renames it to `q[1]`,
    and inside `macro flip q { .. }` that spelling is captured by the parameter q in the generated text."""
    from ..cfg import iter_stmts

    ix, T = ctx.ix, ctx.typer
    rep.rule(rule, "a pass re-derives a qubit reference by indexing its source only when the reference has no declared name of its own (a map-declared qubit alias keeps its name)", floor=1)
    n = 0
    for f in ix.functions.values():
        if f.module not in modules or f.name != "visit_NamedQubit" or not f.cls:
            continue
        qb = f.params[1]
        for st in iter_stmts(f.body):
            if not (isinstance(st, ast.Return) and isinstance(st.value, ast.Subscript)):
                continue
            n += 1
            cons = construct_of(f, "declared-name-kept")
            guard = None
            for g in iter_stmts(f.body):
                if isinstance(g, ast.If) and g.lineno < st.lineno and any(isinstance(x, ast.Return) for x in g.body):
                    if any(isinstance(m, ast.Attribute) and m.attr in ("name", "_name") and isinstance(m.value, ast.Name) and m.value.id == qb for m in ast.walk(g.test)):
                        guard = g
            if guard is not None:
                rep.ok(rule, cons, f"`{ast.unparse(guard.test)[:70]}` keeps a declared name before `{ast.unparse(st)}`", f"{f.path}:{st.lineno}")
            else:
                rep.violation(rule, cons, f"`{ast.unparse(st)}` renames every reference to <source>[index], also a qubit alias declared by `map`: in `macro flip q {{ Px one ; Px q[0] }}` (one = q[1] of the register) the generated text `Px q[1]` indexes the parameter q, so the re-parsed program acts on another qubit", f"{f.path}:{st.lineno}", witness="register q[4]\nmap one q[1]\nmap hi q[2:4]\nmacro flip q { Px one ; Px q[0] }\nflip hi")
    if n == 0:
        rep.ok(rule, "core.algorithm.fill_in_let:visit_NamedQubit:declared-name-kept", "no handler re-derives references by indexing")


def check_memo_numeric_keys(ctx, rep, rule: str):
    """Python treats 1, 1.0 and True (and 0.0, -0.0) as the same dict key; a memo keyed on raw argument values hands
    out the statement built for the first spelling."""
    ix, T = ctx.ix, ctx.typer
    rep.rule(rule, "the builder's gate memo keys numeric literals by type and spelling, not by Python equality (1 == 1.0 == True, 0.0 == -0.0)", floor=1)
    memo = [c for c in ix.classes.values() if c.module == "jaqalpaq.core.circuitbuilder" and c.name.endswith("Memoizer")]
    if not memo:
        rep.exempt(rule, "core.circuitbuilder:memo", "the builder has no memo table")
        return
    for c in memo:
        cons = cls_construct(ix, c.qualname, "memo-key:numeric-literals")
        ok = None
        ok_types = set()
        for m in c.methods.values():
            for st in ast.walk(m.node):
                if isinstance(st, ast.If):
                    tys = {ast.unparse(x).split(".")[-1] for t in ast.walk(st.test) if isinstance(t, ast.Call) and isinstance(t.func, ast.Name) and t.func.id == "isinstance" and len(t.args) == 2
                           for x in (t.args[1].elts if isinstance(t.args[1], ast.Tuple) else [t.args[1]])}
                    if tys & {"int", "float", "Number", "Real", "Integral"}:
                        rets = [r for b in st.body for r in ast.walk(b) if isinstance(r, ast.Return) and r.value is not None]
                        if any(any(isinstance(k, ast.Call) and isinstance(k.func, ast.Name) and k.func.id in ("type", "repr", "str") for k in ast.walk(r.value)) for r in rets):
                            ok = m
                            ok_types = tys
        if ok is not None:
            rep.ok(rule, cons, f"{ok.name} keys numbers by type and repr", ok.loc())
            # ... numbers of EVERY numeric type: numpy scalars, Fraction, Decimal and complex numbers are arguments
            # the builder API and Q-syntax accept, and equal ones hash alike
            cons2 = cls_construct(ix, c.qualname, "memo-key:numeric-types")
            if ok_types & {"Number", "Real", "Integral", "Complex"}:
                rep.ok(rule, cons2, f"the type test is {sorted(ok_types)}", ok.loc())
            else:
                rep.violation(rule, cons2, f"only {sorted(ok_types)} are keyed by type and spelling: `m numpy.int64(2)` and `m numpy.float32(2.0)` (or `Pw r[0] 1` and `Pw r[0] (1+0j)`) are one dictionary key, so the statement built first -- anywhere in the program, also in a macro that is never called -- supplies the argument of the other, which is not even validated against its parameter", ok.loc(), witness="build(['circuit', ['register', 'q', 2], ['macro', 'other', ['sequential_block', ['gate', 'm', numpy.float32(2.0)]]], ['gate', 'm', numpy.int64(2)]])")
        else:
            rep.violation(rule, cons, "numeric arguments enter the memo key as raw values: `foo 1; foo 1.0` builds `foo 1` twice, `Rz q[0] -0.0` after `Rz q[0] 0.0` loses its sign, and generated text changes (`loop 2.0 {` where `loop 2 {` was written)", c.loc(), witness="register q[2]\nfoo 1\nfoo 1.0")


def re_inf_pos(txt: str) -> bool:
    """A positive infinity is mentioned besides the negative one."""
    import re as _re
    return bool(_re.search(r"(?<!-)inf", txt.replace("'-inf'", "").replace('"-inf"', "")))


def check_number_finite(ctx, rep, rule: str):
    """float() of a long literal overflows to inf, which neither the generator can write nor the parser read."""
    from ..lexer import extract_lexer
    from ..cfg import iter_stmts

    ix = ctx.ix
    rep.rule(rule, "the lexer rejects a float literal whose value is not finite (inf cannot be written back as Jaqal)", floor=1)
    lm = extract_lexer(ix)
    n = 0
    for r in lm.rules:
        if r.conversion != "float" or r.func is None:
            continue
        n += 1
        cons = construct_of(r.func, "finite")
        guard = None
        half = None
        for st in iter_stmts(r.func.body):
            if isinstance(st, ast.If) and any(isinstance(x, ast.Raise) for x in st.body):
                txt = ast.unparse(st.test)
                both = "isfinite" in txt or "isinf" in txt or ("-inf" in txt and re_inf_pos(txt)) or "abs(" in txt
                if both:
                    guard = st
                elif "inf" in txt:
                    half = st
        if guard is None and half is not None:
            rep.violation(rule, cons, f"`{ast.unparse(half.test)[:70]}` rejects only one of the two infinities: the sign is part of the token, so `-1.0e999` lexes to -inf and is accepted (and `int(-inf)` raises OverflowError once it is used as an index or count)", r.func.loc(), witness="register q[2]\nfoo q[0] -1.0e999")
        elif guard is not None:
            rep.ok(rule, cons, f"`{ast.unparse(guard.test)[:60]}` raises", r.func.loc())
        else:
            rep.violation(rule, cons, "`let big 1.0e999` is accepted with the value inf; the generator prints `let big inf`, which the parser rejects (the circuit has no text form)", r.func.loc(), witness="let big 1.0e999\nregister q[2]")
    if n == 0:
        raise AnalysisError(f"{rule}: no float-converting lexer rule found")


def check_macro_relink(ctx, rep, rule: str, modules):
    """A pass that builds new Macro objects directly (not through the builder, which links by name) must link the
    call statements to them: a call keeps a reference to its definition (`gate_def`), and consumers follow it."""
    ix, T = ctx.ix, ctx.typer
    MACRO = "jaqalpaq.core.macro.Macro"
    rep.rule(rule, "a visitor that constructs new Macro objects also re-links macro calls (a gate handler that takes the definition from the new table)", floor=1)
    n = 0
    for c in ix.classes.values():
        if c.module not in modules or not T.is_visitor(c.qualname):
            continue
        builds = None
        for m in c.methods.values():
            for cs in T.callsites(m):
                if cs.kind == "constructor" and cs.classes and cs.classes[0] == MACRO:
                    builds = (m, cs.node)
        if builds is None:
            continue
        n += 1
        cons = cls_construct(ix, c.qualname, "macro-calls-relinked")
        gh = c.methods.get("visit_GateStatement")
        if gh is None:
            rep.violation(rule, cons, f"{c.name} builds new Macro objects ({builds[0].name}) but has no gate handler: every call statement keeps pointing at the old definition, so used-qubit analysis and anything else that follows gate_def sees the untransformed body", f"{builds[0].path}:{builds[1].lineno}", witness="register q[3]\nmacro foo a { subcircuit { Px a } }\nfoo q[1]")
            continue
        self_n = gh.params[0]
        reads_table = any(isinstance(m, ast.Attribute) and isinstance(m.value, ast.Name) and m.value.id == self_n and "macro" in m.attr for m in walk_no_nested(gh.node))
        makes = any(isinstance(m, ast.Call) for st in ast.walk(gh.node) if isinstance(st, ast.Return) and st.value is not None for m in ast.walk(st.value))
        if reads_table and makes:
            rep.ok(rule, cons, "visit_GateStatement takes the definition from the visitor's macro table and builds a new call", gh.loc())
        else:
            rep.violation(rule, cons, "the gate handler does not link calls to the new macro table", gh.loc())
    if n == 0:
        rep.ok(rule, "core.algorithm:macro-builders", "no pass constructs Macro objects directly")


def check_recursion_guard(ctx, rep, rule, entries, exclude=()):
    """Every entry point that reaches a recursion cycle of the call graph converts RecursionError above it."""
    from ..escape import EscapeAnalysis
    import networkx as nx
    ix, T = ctx.ix, ctx.typer
    for q_ in entries:
        ix.func(q_)
    ea = EscapeAnalysis(ix, T, exclude_modules=tuple(exclude)).analyse(list(entries))
    rep.rule(rule, "every entry point that reaches a recursion cycle (the recursive builder, visitors and alias resolution recurse as deep as the program nests) converts RecursionError to JaqalError in a frame above the cycle", floor=1)
    g = T.graph(weak=False)
    sub = g.subgraph([q for q in ea.reachable if q in g])

    def converts(fi):
        """The function's own body, or a decorator applied to it, catches RecursionError and raises."""
        nodes = [fi.node]
        for d in getattr(fi.node, "decorator_list", []):
            name = d.id if isinstance(d, ast.Name) else d.attr if isinstance(d, ast.Attribute) else None
            if name is None:
                continue
            r = ix.resolve_name(fi.module, name) if hasattr(ix, "resolve_name") else None
            cand = [x for x in ix.functions.values() if x.name == name and x.cls is None]
            for c in cand:
                nodes.append(c.node)
        for nd in nodes:
            for t in ast.walk(nd):
                if isinstance(t, ast.Try):
                    for h in t.handlers:
                        names = set()
                        if h.type is None:
                            names.add("BaseException")
                        else:
                            for x in (h.type.elts if isinstance(h.type, ast.Tuple) else [h.type]):
                                names.add(ast.unparse(x).split(".")[-1])
                        if names & {"RecursionError", "RuntimeError", "Exception", "BaseException"} and any(isinstance(x, ast.Raise) and x.exc is not None for b in h.body for x in ast.walk(b)):
                            return True
        return False
    covered = {q for q in sub.nodes if q in ix.functions and not isinstance(ix.functions[q].node, ast.Lambda) and converts(ix.functions[q])}
    cyclic = set()
    for comp in nx.strongly_connected_components(sub):
        if len(comp) > 1:
            cyclic |= comp
    for q in sub.nodes:
        if sub.has_edge(q, q):
            cyclic.add(q)
    rep.analysed["recursive_functions"] = len(cyclic)
    rep.analysed["recursion_guarded_frames"] = sorted(short(c) for c in covered)
    for e in entries:
        cons = construct_of(ix.functions[e], "recursion-guard")
        if e in covered:
            rep.ok(rule, cons, "the entry point itself converts RecursionError", ix.functions[e].loc())
            continue
        seen_, stack_ = {e}, [e]
        hit = None
        while stack_ and hit is None:
            q = stack_.pop()
            if q in cyclic:
                hit = q
                break
            for nxt in sub.successors(q) if q in sub else []:
                if nxt in covered or nxt in seen_:
                    continue
                seen_.add(nxt)
                stack_.append(nxt)
        if hit is None:
            rep.ok(rule, cons, "every recursion cycle reachable from here lies below a frame that converts RecursionError", ix.functions[e].loc())
        else:
            rep.violation(rule, cons, f"{short(hit)} recurses as deep as the program nests and nothing between this entry point and it converts RecursionError: 200 nested blocks (or a long alias chain) escape as RecursionError instead of JaqalError", ix.functions[e].loc(), witness="register q[2]\n" + "{ <" * 3 + " ... (200 levels) ... " + "> }" * 3)



def check_mapfiller_macro_arguments(ctx, rep, rule: str):
    """MapFiller refuses a whole register alias used as a gate argument; an argument of a MACRO call must be exempt
    (the parser keeps macro definitions when it expands, so such calls are still visited)."""
    from ..fieldflow import FuncFlow

    ix, T = ctx.ix, ctx.typer
    rep.rule(rule, "alias fill-in exempts whole-register arguments of macro calls from its refusal of full aliases (otherwise expand_macro + expand_let_map fails on definitions the expansion preserves while the passes on the plain parse succeed)", floor=1)
    MOD = "jaqalpaq.core.algorithm.fill_in_map"
    gh = next((f for f in ix.functions.values() if f.module == MOD and f.name == "visit_GateStatement" and f.cls), None)
    rh = next((f for f in ix.functions.values() if f.module == MOD and f.name == "visit_Register" and f.cls), None)
    if gh is None:
        raise AnalysisError(f"{rule}: MapFiller.visit_GateStatement vanished")
    cons = construct_of(gh, "macro-call-arguments-exempt")
    refuses = rh is not None and any(isinstance(n, ast.Raise) for n in walk_no_nested(rh.node))
    if not refuses:
        rep.exempt(rule, cons, "alias fill-in does not refuse full aliases at all")
        return
    # the functions through which gate arguments reach visit(): the handler itself and its own helpers
    handler_names = {f"visit_{c.name}" for c in ix.classes.values()} | {"visit_default", "visit"}
    funcs = [gh] + [t for cs in T.callsites(gh) if cs.kind == "method" for t in cs.targets if t.cls == gh.cls and t.name not in handler_names]
    ok = False
    for f in funcs:
        # one test or nested ones (the exact conjunction is decided by the exemption rule of sa/rules/sweep2.py)
        txt = " ".join(ast.unparse(st.test) for st in ast.walk(f.node) if isinstance(st, (ast.If, ast.IfExp)))
        if "Macro" in txt and ("Register" in txt or "fundamental" in txt):
            ok = True
    if ok:
        rep.ok(rule, cons, "a register argument of a call whose definition is a Macro is passed through unvisited", gh.loc())
    else:
        rep.violation(rule, cons, "every gate argument is visited, so `inner a` (a a register alias) inside a preserved macro definition makes fill_in_map raise 'full alias a found in statements': parse_jaqal_string(expand_macro=True, expand_let_map=True) fails although fill_in_map(fill_in_let(expand_macros(plain parse))) succeeds", gh.loc(), witness="map a r[1:3]\nmacro inner x { G x[0] }\nmacro outer { inner a }\nouter")
