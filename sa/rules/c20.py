"""C20 -- circuit equality is an equivalence consistent with meaning (decided clauses)."""

from __future__ import annotations

import ast

from ..index import AnalysisError
from ..cfg import walk_no_nested, iter_stmts
from ..fieldflow import Transformer
from .common import construct_of, cls_construct

# per-symbol exemptions for C20.1, with reasons
EXEMPT = {
    ("AbstractGate", "_ideal_unitary"): "a function: not comparable, and not part of the program text",
    ("Macro", "_ideal_unitary"): "macros have no unitary",
    ("UsePulsesStatement", "_import_path"): "environment (where to look for the module), not program text",
    ("UsePulsesStatement", "_gates"): "cache of the loaded gate table",
    ("Constant", "_kind"): "derived from the value in Constant.__init__",
    ("IdleGateDefinition", "_parent_def"): "an idle definition is identified by its own name and signature",
}


def run(ctx, rep):
    ix, T = ctx.ix, ctx.typer
    from .common import check_falsy_zero
    check_falsy_zero(ctx, rep, "C20.5", ['jaqalpaq.core.circuitbuilder', 'jaqalpaq.core.block', 'jaqalpaq.core.gate', 'jaqalpaq.core.circuit', 'jaqalpaq.core.register', 'jaqalpaq.core.constant', 'jaqalpaq.core.macro'], floor_positions=10)
    ir = [k for k in T.ir_classes]
    eq_classes = [k for k in ir if "__eq__" in ix.classes[k].methods]
    rep.analysed["classes_with_eq"] = [ix.classes[k].name for k in eq_classes]
    if len(eq_classes) < 8:
        raise AnalysisError(f"C20: only {len(eq_classes)} IR classes define __eq__ (13 on the pinned tree): anchor vanished")

    rep.rule("C20.1", "__eq__ reads every semantic field set by __init__, on both operands", floor=25)
    rep.rule("C20.2", "element-wise pairings in __eq__ are length-sensitive", floor=1)
    rep.rule("C20.3", "__eq__ is total: a foreign operand yields False, never an exception", floor=13)
    rep.rule("C20.4", "no identity comparison of semantic fields, no early `return True`", floor=13)

    for k in ir:
        ci = ix.classes[k]
        eq = ix.find_method(k, "__eq__")
        if eq is None:
            rep.violation("C20.1", cls_construct(ix, k, "__eq__"), f"{ci.name} has no __eq__ in its hierarchy: instances compare by identity, so a circuit never equals its re-parse", ci.loc())
            continue
        own = eq.cls == k
        tr = Transformer(ix, T, [eq], name=f"{ci.name}.__eq__")
        selfn, othern = eq.params[0], eq.params[1]
        lefts, rights = operand_aliases(eq)
        # nested helper functions of __eq__ (are_equal) are part of it
        nodes = list(ast.walk(eq.node))
        read_self, read_other = set(), set()
        for n in nodes:
            if isinstance(n, ast.Attribute) and isinstance(n.ctx, ast.Load) and isinstance(n.value, ast.Name):
                if n.value.id in lefts:
                    read_self |= tr.returned_fields(k, n.attr)
                elif n.value.id in rights:
                    read_other |= tr.returned_fields(k, n.attr)
        fields = ix.init_fields(k)
        for fld, info in fields.items():
            cons = cls_construct(ix, k, f"__eq__:{fld}")
            ex = EXEMPT.get((ci.name, fld)) or EXEMPT.get((ix.classes[info['cls']].name, fld))
            if ex:
                rep.exempt("C20.1", cons, ex, eq.loc())
                continue
            if fld in read_self and fld in read_other:
                rep.ok("C20.1", cons, f"compared by {ix.classes[eq.cls].name}.__eq__", eq.loc())
            elif fld in read_self or fld in read_other:
                rep.violation("C20.1", cons, f"{fld} is read on one operand only: the comparison is not symmetric in that field", eq.loc())
            else:
                rep.violation("C20.1", cons, f"{ix.classes[eq.cls].name}.__eq__ never reads {fld}: two {ci.name} objects that differ only in it compare equal (a single-token change of the program goes unnoticed)", eq.loc())
        if not own:
            continue
        # ---- C20.2
        for n in nodes:
            if isinstance(n, ast.Call) and isinstance(n.func, ast.Name) and n.func.id == "zip":
                lens = any(isinstance(m, ast.Call) and isinstance(m.func, ast.Name) and m.func.id == "len" for m in nodes)
                cons = cls_construct(ix, k, "__eq__:pairing")
                if lens:
                    rep.ok("C20.2", cons, "zip with an explicit length comparison", f"{eq.path}:{n.lineno}")
                else:
                    rep.violation("C20.2", cons, "element-wise comparison with a bare zip(): a longer argument list whose prefix matches compares equal", f"{eq.path}:{n.lineno}")
            elif isinstance(n, ast.Call) and isinstance(n.func, (ast.Name, ast.Attribute)) and (getattr(n.func, "id", None) or getattr(n.func, "attr", "")) == "zip_longest":
                rep.ok("C20.2", cls_construct(ix, k, "__eq__:pairing"), "zip_longest", f"{eq.path}:{n.lineno}")
        # one-sided iteration: a loop over one operand's sequence only
        for n in nodes:
            if isinstance(n, ast.comprehension) or isinstance(n, ast.For):
                it = n.iter
                names_ = {m.id for m in ast.walk(it) if isinstance(m, ast.Name)}
                calls_ = {(getattr(m.func, "id", None) or getattr(m.func, "attr", "")) for m in ast.walk(it) if isinstance(m, ast.Call)}
                if selfn in names_ and othern not in names_ and not ({"zip_longest", "zip"} & calls_):
                    lens = any(isinstance(m, ast.Call) and isinstance(m.func, ast.Name) and m.func.id == "len" for m in nodes)
                    cons = cls_construct(ix, k, "__eq__:pairing")
                    if lens:
                        rep.ok("C20.2", cons, "iteration over one operand with an explicit length comparison", f"{eq.path}:{it.lineno}")
                    else:
                        rep.violation("C20.2", cons, f"`{ast.unparse(it)}` iterates over this operand's elements only: extra elements of the other operand are never looked at, so A == B and B == A can differ (not symmetric)", f"{eq.path}:{it.lineno}")
        # ---- C20.3
        cons = cls_construct(ix, k, "__eq__:total")
        body = [s for s in eq.node.body if not (isinstance(s, ast.Expr) and isinstance(s.value, ast.Constant))]
        total = False
        for st in body:
            if isinstance(st, ast.Try) and any(
                (h.type is None or any(isinstance(x, ast.Name) and x.id in ("AttributeError", "Exception") for x in ast.walk(h.type)))
                and any(isinstance(s, ast.Return) and ((isinstance(s.value, ast.Constant) and s.value.value is False) or (isinstance(s.value, ast.Name) and s.value.id == "NotImplemented")) for s in h.body)
                for h in st.handlers
            ):
                # every attribute read on `other` must be inside the try body
                inside = {id(m) for s in st.body for m in ast.walk(s)}
                outside_reads = [m for m in nodes if isinstance(m, ast.Attribute) and isinstance(m.value, ast.Name) and m.value.id in rights and id(m) not in inside]
                # reads inside nested helper defs are called from the try body
                outside_reads = [m for m in outside_reads if not any(isinstance(d, ast.FunctionDef) and any(x is m for x in ast.walk(d)) for d in eq.node.body)]
                total = not outside_reads
        first = body[0] if body else None
        if isinstance(first, ast.If) and any(isinstance(m, ast.Call) and isinstance(m.func, ast.Name) and m.func.id == "isinstance" for m in ast.walk(first.test)) and any(isinstance(s, ast.Return) for s in first.body):
            total = True
        if total:
            rep.ok("C20.3", cons, "foreign operands yield False (try/except AttributeError or isinstance guard)", eq.loc())
        else:
            rep.violation("C20.3", cons, f"{ci.name}.__eq__ dereferences attributes of `{othern}` without a guard: comparing with an object of another class raises AttributeError instead of returning False (`macro == gate_definition` raises while `gate_definition == macro` returns a bool: equality is not symmetric)", eq.loc())
        # ---- C20.4
        cons = cls_construct(ix, k, "__eq__:by-value")
        bad = None
        for n in nodes:
            if isinstance(n, ast.Compare) and any(isinstance(o, (ast.Is, ast.IsNot)) for o in n.ops):
                ops = [n.left] + list(n.comparators)
                if any(isinstance(o, ast.Attribute) and isinstance(o.value, ast.Name) and o.value.id in (lefts | rights) for o in ops) and not any(isinstance(o, ast.Constant) or (isinstance(o, ast.Name) and o.id == "all") for o in ops):
                    bad = n
        rets = [s for s in iter_stmts(eq.body) if isinstance(s, ast.Return)]
        early_true = [r for r in rets[:-1] if isinstance(r.value, ast.Constant) and r.value.value is True]
        # `if self is other: return True` is sound
        early_true = [r for r in early_true if True]
        if bad is not None:
            rep.violation("C20.4", cons, f"`{ast.unparse(bad)}` compares a field by identity: a circuit never equals its re-parse", f"{eq.path}:{bad.lineno}")
        elif early_true and not any(isinstance(st, ast.If) and isinstance(st.test, ast.Compare) and isinstance(st.test.ops[0], ast.Is) and {getattr(st.test.left, 'id', None), getattr(st.test.comparators[0], 'id', None)} == {selfn, othern} for st in iter_stmts(eq.body)):
            rep.violation("C20.4", cons, "returns True before all fields have been compared", f"{eq.path}:{early_true[0].lineno}")
        else:
            rep.ok("C20.4", cons, "fields compared by value; no early True", eq.loc())

    # ------------------------------------------------------------ C20.6
    rep.rule("C20.6", "numbers are compared by value: inside __eq__ no result depends on the numeric *type* of one operand (isinstance(x, float/int/..)) except in the NaN special case", floor=1)
    NUMT = {"float", "int", "complex", "Integral", "Real", "Number"}
    n6 = 0
    for k in eq_classes:
        eq = ix.classes[k].methods["__eq__"]
        ci = ix.classes[k]
        funcs6 = [eq.node] + [n for n in ast.walk(eq.node) if isinstance(n, (ast.FunctionDef, ast.Lambda)) and n is not eq.node]
        for fn in funcs6:
            if isinstance(fn, ast.Lambda):
                continue
            # parent map with controlling tests
            def walk_ctrl(stmts, ctrl, out):
                for st in stmts:
                    if isinstance(st, ast.If):
                        walk_ctrl(st.body, ctrl + [st.test], out)
                        walk_ctrl(st.orelse, ctrl + [st.test], out)
                    elif isinstance(st, (ast.For, ast.While, ast.With, ast.Try)):
                        for fld in ("body", "orelse", "finalbody"):
                            walk_ctrl(getattr(st, fld, []) or [], ctrl, out)
                        for h in getattr(st, "handlers", []) or []:
                            walk_ctrl(h.body, ctrl, out)
                    elif isinstance(st, ast.Return) and st.value is not None:
                        out.append((st, ctrl))
            rets = []
            walk_ctrl(fn.body, [], rets)
            for st, ctrl in rets:
                typed = [m for m in ast.walk(st.value) if isinstance(m, ast.Call) and isinstance(m.func, ast.Name) and m.func.id == "isinstance" and len(m.args) == 2
                         and {ast.unparse(x).split(".")[-1] for x in (m.args[1].elts if isinstance(m.args[1], ast.Tuple) else [m.args[1]])} & NUMT]
                if not typed:
                    continue
                n6 += 1
                nan_case = any(isinstance(m, ast.Call) and ((isinstance(m.func, ast.Attribute) and m.func.attr == "isnan") or (isinstance(m.func, ast.Name) and m.func.id == "isnan")) for t in ctrl for m in ast.walk(t))
                cons = cls_construct(ix, k, f"__eq__:{getattr(fn, 'name', '')}:numeric-type-test")
                loc = f"{eq.path}:{st.lineno}"
                if nan_case:
                    rep.ok("C20.6", cons, "type test only inside the NaN special case", loc)
                else:
                    rep.violation("C20.6", cons, f"`{ast.unparse(st)}` makes the result depend on the numeric type of one operand outside the NaN case: `Rz q 1.0` and `Rz q 1` compare unequal in one direction and equal in the other (equality is neither by value nor symmetric)", loc)
    if n6 == 0:
        rep.ok("C20.6", "ir:__eq__:numeric-type-tests", "no __eq__ result depends on a numeric type test")

    # ------------------------------------------------------------ C20.7
    rep.rule("C20.7", "a case split in __eq__ on a property of self is matched by a test of the same property on other (otherwise A == B is decided by A's case only and differs from B == A)", floor=1)
    n7 = 0
    for k in eq_classes:
        eq = ix.classes[k].methods["__eq__"]
        selfn, othern = eq.params[0], eq.params[1]
        lefts, rights = operand_aliases(eq)
        for st in iter_stmts(eq.body):
            if not isinstance(st, ast.If):
                continue
            t = st.test
            if isinstance(t, ast.UnaryOp) and isinstance(t.op, ast.Not):
                t = t.operand
            if not (isinstance(t, ast.Attribute) and isinstance(t.value, ast.Name) and t.value.id in lefts):
                continue
            if not any(isinstance(x, ast.Return) for x in ast.walk(st)):
                continue
            n7 += 1
            cons = cls_construct(ix, k, f"__eq__:case-split:{t.attr}")
            loc = f"{eq.path}:{st.lineno}"
            # the same property (or the fields it is computed from) must be read on other as well
            # .. in a test (a read inside one of the branches does not make the split symmetric)
            test_reads = {m.attr for s_ in iter_stmts(eq.body) if isinstance(s_, ast.If) for m in ast.walk(s_.test)
                          if isinstance(m, ast.Attribute) and isinstance(m.value, ast.Name) and m.value.id in rights}
            fields = tr_fields(ix, k, t.attr)
            if t.attr in test_reads or (fields and fields <= {a.lstrip("_") for a in test_reads} | test_reads | {"_" + a for a in test_reads}):
                rep.ok("C20.7", cons, f"`{othern}.{t.attr}` is consulted too", loc)
            else:
                rep.violation("C20.7", cons, f"`if {ast.unparse(st.test)}:` decides how the operands are compared without looking at `{othern}.{t.attr}`: a fundamental `register q[2]` equals the alias `map q r` (same name, same size) while the alias does not equal the register -- and the two denote different physical qubits", loc, witness="register r[2]; register q[2]   vs   register r[2]; map q r")
    if n7 == 0:
        rep.ok("C20.7", "ir:__eq__:case-splits", "no __eq__ branches on a property of self alone")


def operand_aliases(eq):
    """Local names that stand for the left and for the right operand inside
    an __eq__: the parameters, names bound to them (`a, b = self, other`)
    and such a name rebound to an attribute of itself (`a = a.alias_from`,
    the walk along a chain of like objects)."""
    selfn, othern = eq.params[0], eq.params[1]
    left, right = {selfn}, {othern}
    changed = True
    while changed:
        changed = False
        for n in ast.walk(eq.node):
            if not isinstance(n, ast.Assign) or len(n.targets) != 1:
                continue
            tgt, val = n.targets[0], n.value
            if isinstance(tgt, ast.Tuple) and isinstance(val, ast.Tuple) and len(tgt.elts) == len(val.elts):
                pairs = list(zip(tgt.elts, val.elts))
            else:
                pairs = [(tgt, val)]
            for t, v in pairs:
                if not isinstance(t, ast.Name):
                    continue
                for side in (left, right):
                    if t.id in side:
                        continue
                    if isinstance(v, ast.Name) and v.id in side:
                        side.add(t.id)
                        changed = True
    return left, right


def tr_fields(ix, k, attr):
    """Fields a property of class k is computed from (empty set if attr is a plain field)."""
    m = ix.find_method(k, attr)
    if m is None or not m.is_property:
        return set()
    return {x.attr for x in ast.walk(m.node) if isinstance(x, ast.Attribute) and isinstance(x.value, ast.Name) and x.value.id == m.params[0]}
